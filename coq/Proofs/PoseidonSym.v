(* C13 (a) - fast partial rounds = textbook partial rounds, by reflection.

   Both partial-round programs of Model/Poseidon.v alternate an affine map of the 12-element
   state with the S-box on coordinate 0.  They are run here on AFFINE FORMS over the 35 symbols
       x_0 .. x_11   (the state entering the partial rounds)
       y_0 .. y_21   (y_k stands for the output of the k-th S-box)
       1
   by instantiating the very same Gallina functions at the carrier [form := list F] with the
   operations [FormOps] below (addition of forms; "multiplication" scales its left argument by
   the constant coefficient of its right argument - the model always writes state * constant).
   The symbolic run returns, for each program, the 22 forms fed to the S-box and the 12 final
   forms ([run_trace]).  [sym_sound] (any commutative ring, any constant tables): if the two
   symbolic runs coincide, the two concrete runs coincide on every input.  The valuation used in
   the proof takes y_k from the concrete textbook run, so no triangularity argument is needed.
   Proofs/Poseidon.v instantiates F := Fp and discharges the premise by vm_compute on the
   regenerated tables. *)
From Coq Require Import ZArith List Lia.
From Verif Require Import Base.Field Gen.PoseidonConsts Model.FieldGeneric Model.Poseidon.
Import ListNotations.

Section Sound.
  Context {F : Type} {FO : FieldOps F} {FL : @FieldLaws F FO}.
  Add Field Ff : (@F_field_theory F FO FL).
  Variable ofZ : Z -> F.
  Local Open Scope field_scope.
  Local Notation form := (list F).

  Definition CIDX : nat := 34.          (* index of the constant coefficient *)

  Fixpoint dot (f rho : list F) : F :=
    match f with
    | [] => 0
    | a :: f' => match rho with [] => 0 | r :: rho' => a * r + dot f' rho' end
    end.
  Fixpoint zadd (a b : form) : form :=
    match a, b with
    | [], _ => b
    | _, [] => a
    | x :: a', y :: b' => (x + y) :: zadd a' b'
    end.
  Definition scale (a : form) (c : F) : form := map (fun x => x * c) a.
  Definition cpart (a : form) : F := nth CIDX a 0.
  Definition cform (c : F) : form := repeat 0 CIDX ++ [c].
  Definition symf (j : nat) : form := repeat 0 j ++ [1].

  Definition FormOps : FieldOps form :=
    {| fzero := []; fone := cform 1; fadd := zadd;
       fsub := fun a b => zadd a (scale b (- (1)));
       fmul := fun a b => scale a (cpart b);
       fneg := fun a => scale a (- (1)); finv := fun a => a; feqb := fun _ _ => false |}.

  Definition ofZf (z : Z) : form := cform (ofZ z).

  Lemma dot_zadd a : forall b rho, dot (zadd a b) rho = dot a rho + dot b rho.
  Proof.
    induction a as [|x a IH]; intros b rho; cbn [zadd dot]; [ring|].
    destruct b as [|y b]; [cbn [dot]; ring|]. cbn [dot].
    destruct rho as [|r rho]; [ring|]. rewrite IH. ring.
  Qed.

  Lemma dot_scale a c : forall rho, dot (scale a c) rho = dot a rho * c.
  Proof.
    induction a as [|x a IH]; intros rho; cbn [scale map dot]; [ring|].
    destruct rho as [|r rho]; [ring|]. fold (scale a c). rewrite IH. ring.
  Qed.

  Lemma dot_unit n c : forall rho, dot (repeat 0 n ++ [c]) rho = c * nth n rho 0.
  Proof.
    induction n as [|n IH]; intros rho; cbn [repeat app dot].
    - destruct rho; cbn [nth]; ring.
    - destruct rho as [|r rho]; cbn [nth]; [ring|]. rewrite IH. ring.
  Qed.

  Lemma nth_zadd n : forall a b, nth n (zadd a b) 0 = nth n a 0 + nth n b 0.
  Proof.
    induction n as [|n IH]; intros a b; destruct a as [|x a]; destruct b as [|y b]; cbn [zadd nth];
      try ring. apply IH.
  Qed.

  Section Val.
    Variable rho : list F.
    Hypothesis rho_one : nth CIDX rho 0 = 1.

    Definition I (f : form) : F := dot f rho.

    Lemma I_zero : I (@fzero form FormOps) = 0. Proof. reflexivity. Qed.
    Lemma I_add a b : I (@fadd form FormOps a b) = I a + I b.
    Proof. apply dot_zadd. Qed.
    Lemma I_mul a k : I (@fmul form FormOps a k) = I a * cpart k.
    Proof. apply dot_scale. Qed.
    Lemma I_ofZf z : I (ofZf z) = ofZ z.
    Proof. unfold I, ofZf, cform. rewrite dot_unit, rho_one. ring. Qed.
    Lemma I_symf j : I (symf j) = nth j rho 0.
    Proof. unfold I, symf. rewrite dot_unit. ring. Qed.
    Lemma cpart_add a b : cpart (@fadd form FormOps a b) = cpart a + cpart b.
    Proof. apply nth_zadd. Qed.
    Lemma cpart_zero : cpart (@fzero form FormOps) = 0. Proof. reflexivity. Qed.
    Lemma cpart_ofZf z : cpart (ofZf z) = ofZ z. Proof. reflexivity. Qed.

    Lemma I_nthF S i : I (@nthF form FormOps S i) = @nthF F FO (map I S) i.
    Proof. unfold nthF. cbn [fzero FormOps]. change (@fzero F FO) with (I []). symmetry. apply map_nth. Qed.

    Lemma I_fold_left {A} (fS : form -> A -> form) (fF : F -> A -> F) l :
      (forall a acc, I (fS acc a) = fF (I acc) a) ->
      forall acc, I (fold_left fS l acc) = fold_left fF l (I acc).
    Proof.
      intros Hs. induction l as [|a l IH]; intros acc; cbn [fold_left]; [reflexivity|].
      rewrite IH, Hs. reflexivity.
    Qed.

    Lemma I_fsum l : I (@fsum form FormOps l) = @fsum F FO (map I l).
    Proof.
      induction l as [|a l IH]; cbn [fsum fold_right map]; [reflexivity|].
      rewrite I_add. f_equal. exact IH.
    Qed.

    Lemma I_cst tbl i : I (@cst form ofZf tbl i) = @cst F ofZ tbl i.
    Proof. unfold cst. apply I_ofZf. Qed.
    Lemma cpart_cst tbl i : cpart (@cst form ofZf tbl i) = @cst F ofZ tbl i.
    Proof. reflexivity. Qed.
    Lemma cpart_cst2 tbl r i : cpart (@cst2 form ofZf tbl r i) = @cst2 F ofZ tbl r i.
    Proof. reflexivity. Qed.

    (* ---- commutation of every affine layer with the interpretation *)
    Lemma I_add_round_constants r S :
      map I (@add_round_constants form FormOps ofZf r S) = @add_round_constants F FO ofZ r (map I S).
    Proof.
      unfold add_round_constants. rewrite map_map. apply map_ext. intros i.
      rewrite I_add, I_nthF. f_equal. unfold round_const. apply I_cst.
    Qed.

    Lemma cpart_mds_entry r c : cpart (@mds_entry form FormOps ofZf r c) = @mds_entry F FO ofZ r c.
    Proof.
      unfold mds_entry. rewrite cpart_add, cpart_cst. f_equal.
      destruct (Nat.eqb r c); [apply cpart_cst | apply cpart_zero].
    Qed.

    Lemma I_mds_spec S : map I (@mds_spec form FormOps ofZf S) = @mds_spec F FO ofZ (map I S).
    Proof.
      unfold mds_spec. rewrite map_map. apply map_ext. intros r.
      rewrite I_fsum, map_map. f_equal. apply map_ext. intros c.
      rewrite I_mul, I_nthF, cpart_mds_entry. reflexivity.
    Qed.

    Lemma I_partial_first_constant_layer S :
      map I (@partial_first_constant_layer form FormOps ofZf S)
      = @partial_first_constant_layer F FO ofZ (map I S).
    Proof.
      unfold partial_first_constant_layer. rewrite map_map. apply map_ext. intros i.
      rewrite I_add, I_nthF, I_cst. reflexivity.
    Qed.

    Lemma I_mds_partial_layer_init S :
      map I (@mds_partial_layer_init form FormOps ofZf S) = @mds_partial_layer_init F FO ofZ (map I S).
    Proof.
      unfold mds_partial_layer_init. cbn [map]. rewrite I_nthF. f_equal.
      rewrite map_map. apply map_ext. intros c.
      rewrite I_fold_left with (fF := fun acc r =>
        acc + nthF (map I S) r * @cst2 F ofZ FAST_PARTIAL_ROUND_INITIAL_MATRIX (r - 1) (c - 1)).
      - reflexivity.
      - intros r acc. rewrite I_add, I_mul, I_nthF, cpart_cst2. reflexivity.
    Qed.

    Lemma I_mds_partial_layer_fast r S :
      map I (@mds_partial_layer_fast form FormOps ofZf r S) = @mds_partial_layer_fast F FO ofZ r (map I S).
    Proof.
      unfold mds_partial_layer_fast. cbn [map]. f_equal.
      - rewrite I_add, I_mul, I_nthF. f_equal.
        rewrite I_fold_left with (fF := fun acc i =>
          acc + nthF (map I S) i * @cst2 F ofZ FAST_PARTIAL_ROUND_W_HATS r (i - 1)).
        + reflexivity.
        + intros i acc. rewrite I_add, I_mul, I_nthF, cpart_cst2. reflexivity.
      - rewrite map_map. apply map_ext. intros i.
        rewrite I_add, I_mul, !I_nthF, cpart_cst2. reflexivity.
    Qed.

    Lemma map_tl {A B} (f : A -> B) l : map f (tl l) = tl (map f l).
    Proof. destruct l; reflexivity. Qed.

    (* one partial round of each program, given that the symbolic S-box output is interpreted as
       the concrete S-box output *)
    Lemma I_partial_round_spec sbS (sbF : nat -> F -> F) k S :
      I (sbS k (@nthF form FormOps (@add_round_constants form FormOps ofZf (4 + k) S) 0))
      = sbF k (nthF (@add_round_constants F FO ofZ (4 + k) (map I S)) 0) ->
      map I (@partial_round_spec_gen form FormOps ofZf sbS k S)
      = @partial_round_spec_gen F FO ofZ sbF k (map I S).
    Proof.
      intros Hsb. unfold partial_round_spec_gen. rewrite I_mds_spec. f_equal.
      rewrite <- I_add_round_constants in *.
      remember (@add_round_constants form FormOps ofZf (4 + k) S) as S1.
      destruct S1 as [|a S1]; [reflexivity|]. cbn [sbox_first map].
      f_equal. rewrite <- I_nthF in Hsb. exact Hsb.
    Qed.

    Lemma I_partial_round_fast sbS (sbF : nat -> F -> F) i S :
      I (sbS i (@nthF form FormOps S 0)) = sbF i (nthF (map I S) 0) ->
      map I (@partial_round_fast_gen form FormOps ofZf sbS i S)
      = @partial_round_fast_gen F FO ofZ sbF i (map I S).
    Proof.
      intros Hsb. unfold partial_round_fast_gen. rewrite I_mds_partial_layer_fast. f_equal.
      cbn [map]. rewrite map_tl. f_equal. rewrite I_add, I_cst, Hsb. reflexivity.
    Qed.
  End Val.

  (* ---- the symbolic run: S-box inputs and final state *)
  Fixpoint run_trace (step : nat -> list form -> list form) (pre : nat -> list form -> form)
           (k n : nat) (S : list form) : list form * list form :=
    match n with
    | O => ([], S)
    | Datatypes.S n' =>
      let '(tr, S') := run_trace step pre (Datatypes.S k) n' (step k S) in (pre k S :: tr, S')
    end.

  Definition sbS (k : nat) (_ : form) : form := symf (12 + k).
  Definition stepN := @partial_round_spec_gen form FormOps ofZf sbS.
  Definition preN (k : nat) (S : list form) : form :=
    @nthF form FormOps (@add_round_constants form FormOps ofZf (4 + k) S) 0.
  Definition stepF := @partial_round_fast_gen form FormOps ofZf sbS.
  Definition preF (k : nat) (S : list form) : form := @nthF form FormOps S 0.

  Definition X0 : list form := map symf (seq 0 12).
  Definition sym_naive : list form * list form := run_trace stepN preN 0 22 X0.
  Definition sym_fast : list form * list form :=
    run_trace stepF preF 0 22
      (@mds_partial_layer_init form FormOps ofZf (@partial_first_constant_layer form FormOps ofZf X0)).

  Lemma run_trace_snd step pre : forall n k S,
    snd (run_trace step pre k n S) = fold_left (fun S k => step k S) (seq k n) S.
  Proof.
    induction n as [|n IH]; intros k S; cbn [run_trace seq fold_left]; [reflexivity|].
    specialize (IH (Datatypes.S k) (step k S)).
    destruct (run_trace step pre (Datatypes.S k) n (step k S)) as [tr S']. exact IH.
  Qed.

  (* ---- concrete S-box outputs of the textbook run *)
  Variable sbN sbFc : F -> F.          (* the S-box as written in the two programs *)
  Hypothesis sb_same : forall x, sbN x = sbFc x.

  Definition cstepN := @partial_round_spec_gen F FO ofZ (fun _ => sbN).
  Definition cstepF := @partial_round_fast_gen F FO ofZ (fun _ => sbFc).

  Fixpoint naive_ys (k n : nat) (c : list F) : list F :=
    match n with
    | O => []
    | Datatypes.S n' =>
      sbN (nthF (@add_round_constants F FO ofZ (4 + k) c) 0) :: naive_ys (Datatypes.S k) n' (cstepN k c)
    end.

  Lemma naive_ys_length : forall n k c, length (naive_ys k n c) = n.
  Proof. induction n; intros; cbn [naive_ys length]; [reflexivity|]. rewrite IHn. reflexivity. Qed.

  Lemma simulate rho : nth CIDX rho 0 = 1 ->
    forall n k cN cF SN SF,
      map (I rho) SN = cN -> map (I rho) SF = cF ->
      fst (run_trace stepN preN k n SN) = fst (run_trace stepF preF k n SF) ->
      (forall j, (j < n)%nat -> nth (12 + k + j) rho 0 = nth j (naive_ys k n cN) 0) ->
      map (I rho) (snd (run_trace stepN preN k n SN)) = fold_left (fun c k => cstepN k c) (seq k n) cN /\
      map (I rho) (snd (run_trace stepF preF k n SF)) = fold_left (fun c k => cstepF k c) (seq k n) cF.
  Proof.
    intros Hone. induction n as [|n IH]; intros k cN cF SN SF HN HF Htr Hy.
    - cbn [run_trace snd seq fold_left]. split; assumption.
    - cbn [run_trace] in Htr |- *.
      destruct (run_trace stepN preN (Datatypes.S k) n (stepN k SN)) as [trN SN'] eqn:EN.
      destruct (run_trace stepF preF (Datatypes.S k) n (stepF k SF)) as [trF SF'] eqn:EF.
      cbn [fst snd] in Htr |- *. injection Htr as Hpre Htl.
      cbn [seq fold_left].
      (* the common S-box input *)
      assert (HpN : I rho (preN k SN) = nthF (@add_round_constants F FO ofZ (4 + k) cN) 0).
      { unfold preN. rewrite I_nthF, (I_add_round_constants rho Hone), HN. reflexivity. }
      assert (HpF : I rho (preF k SF) = nthF cF 0).
      { unfold preF. rewrite I_nthF, HF. reflexivity. }
      assert (Hy0 : nth (12 + k) rho 0 = sbN (nthF (@add_round_constants F FO ofZ (4 + k) cN) 0)).
      { specialize (Hy O (Nat.lt_0_succ n)). cbn [naive_ys nth] in Hy. rewrite Nat.add_0_r in Hy. exact Hy. }
      assert (HsN : map (I rho) (stepN k SN) = cstepN k cN).
      { unfold stepN, cstepN. subst cN. apply I_partial_round_spec; [exact Hone|].
        unfold sbS. rewrite I_symf. exact Hy0. }
      assert (HsF : map (I rho) (stepF k SF) = cstepF k cF).
      { unfold stepF, cstepF. subst cF. apply I_partial_round_fast; [exact Hone|].
        unfold sbS. rewrite I_symf, Hy0. rewrite sb_same. f_equal.
        rewrite <- HpN. rewrite Hpre. exact HpF. }
      specialize (IH (Datatypes.S k) (cstepN k cN) (cstepF k cF) (stepN k SN) (stepF k SF) HsN HsF).
      rewrite EN, EF in IH. cbn [fst snd] in IH. apply IH; [exact Htl|].
      intros j Hj. specialize (Hy (Datatypes.S j) (proj1 (Nat.succ_lt_mono j n) Hj)).
      cbn [naive_ys nth] in Hy. rewrite <- Hy. f_equal. lia.
  Qed.

  Lemma map_I_X0 rho x : length x = 12%nat -> firstn 12 rho = x -> map (I rho) X0 = x.
  Proof.
    intros Hl Hx. unfold X0. rewrite map_map.
    do 13 (destruct x as [|? x]; try discriminate Hl).
    do 12 (destruct rho as [|? rho]; try discriminate Hx).
    cbn [firstn] in Hx. injection Hx as -> -> -> -> -> -> -> -> -> -> -> ->.
    cbn [seq map]. rewrite !I_symf. reflexivity.
  Qed.

  (* the soundness lemma: equal symbolic runs => equal concrete runs, for every input state *)
  Theorem sym_sound : sym_naive = sym_fast ->
    forall x, length x = 12%nat ->
      @partial_rounds_gen F FO ofZ (fun _ => sbFc) x = @partial_rounds_spec_gen F FO ofZ (fun _ => sbN) x.
  Proof.
    intros Hsym x Hl.
    set (rho := x ++ naive_ys 0 22 x ++ [1]).
    assert (Hone : nth CIDX rho 0 = 1).
    { unfold rho, CIDX. rewrite app_nth2 by lia. rewrite Hl. rewrite app_nth2 by (rewrite naive_ys_length; lia).
      rewrite naive_ys_length. reflexivity. }
    assert (HX : map (I rho) X0 = x).
    { apply map_I_X0; [exact Hl|]. unfold rho. rewrite <- Hl. rewrite firstn_app, Nat.sub_diag, firstn_all.
      cbn [firstn]. apply app_nil_r. }
    unfold sym_naive, sym_fast in Hsym.
    set (SF0 := @mds_partial_layer_init form FormOps ofZf (@partial_first_constant_layer form FormOps ofZf X0)) in *.
    set (cF0 := @mds_partial_layer_init F FO ofZ (@partial_first_constant_layer F FO ofZ x)).
    assert (HF0 : map (I rho) SF0 = cF0).
    { unfold SF0, cF0. rewrite (I_mds_partial_layer_init rho), (I_partial_first_constant_layer rho Hone), HX.
      reflexivity. }
    destruct (simulate rho Hone 22 0 x cF0 X0 SF0 HX HF0) as [HN HF].
    - rewrite Hsym. reflexivity.
    - intros j Hj. unfold rho. rewrite app_nth2 by lia. rewrite Hl.
      replace (12 + 0 + j - 12)%nat with j by lia.
      rewrite app_nth1 by (rewrite naive_ys_length; exact Hj). reflexivity.
    - unfold partial_rounds_gen, partial_rounds_spec_gen. fold cF0.
      change (fold_left (fun c k => cstepF k c) (seq 0 22) cF0 = fold_left (fun c k => cstepN k c) (seq 0 22) x).
      rewrite <- HN, <- HF. rewrite Hsym. reflexivity.
  Qed.
End Sound.
