(* Concrete small values showing that the hypotheses of the C03b / C18b theorems are satisfiable:
   a well-formed common data record, a proof of exactly the shape it determines, challenges of
   the right lengths, query points with non-vanishing denominators - and a point at which the
   remaining panic site (inverse of zero) is reached. *)
From Coq Require Import ZArith List Bool Lia Arith PeanoNat.
From Verif Require Import Base.Field Model.Fp Model.Fp2 Model.FieldGeneric Model.PoseidonSpec
  Model.Fri Model.Gates Model.Plonk Proofs.Fp2Field Proofs.FriShape Proofs.PlonkVerifier Proofs.PlonkShape.
Import ListNotations.
Local Open Scope nat_scope.

Local Opaque poseidon p_hash_or_noop p_two_to_one p_hash_no_pad duplexing get_challenges.

Definition ex_fri_config : fri_config :=
  {| rate_bits := 1; cap_height := 1; proof_of_work_bits := 0;
     reduction_strategy := ConstantArityBits 1 1; num_query_rounds := 1 |}.

Definition ex_params : fri_params :=
  {| config := ex_fri_config; hiding := false; degree_bits := 2; reduction_arity_bits := [1] |}.

(* 4 wires of which 3 routed, quotient degree factor 2: ceil(3/2) - 1 = 1 partial product *)
Definition ex_cd : common_data :=
  {| cd_config := {| num_wires := 4; num_routed_wires := 3; cfg_num_constants := 2;
                     use_base_arithmetic_gate := true; security_bits := 100; num_challenges := 2;
                     zero_knowledge := false; max_quotient_degree_factor := 2; cfg_fri := ex_fri_config |};
     cd_fri_params := ex_params; cd_gates := [NoopGate]; cd_selector_indices := [0]; cd_groups := [(0, 1)];
     quotient_degree_factor := 2; num_gate_constraints := 0; cd_num_constants := 1; num_public_inputs := 0;
     k_is := [toFp 1; toFp 7; toFp 49]; num_partial_products := 1; num_lookup_polys := 0;
     num_lookup_selectors := 0; luts := [] |}.

Definition d0 : digest := repeat (toFp 0) 4.
Definition cap2 : list digest := [d0; d0].
Definition e2 (n : Z) : Fp2 := (toFp n, toFp 0).

Definition ex_vo : verifier_only := {| constants_sigmas_cap := cap2; circuit_digest := d0 |}.

Definition ex_round : fri_query_round :=
  {| qr_initial := repeat (repeat (toFp 1) 4, [d0; d0]) 4;
     qr_steps := [ {| fs_evals := [e2 1; e2 2]; fs_siblings := [d0] |} ] |}.

Definition ex_pr : proof :=
  {| wires_cap := cap2; zs_pp_cap := cap2; quotient_cap := cap2;
     openings := {| os_constants := [e2 1]; os_sigmas := [e2 1; e2 2; e2 3];
                    os_wires := [e2 1; e2 2; e2 3; e2 4]; os_zs := [e2 1; e2 1];
                    os_zs_next := [e2 1; e2 1]; os_partial_products := [e2 1; e2 1];
                    os_quotient := [e2 0; e2 0; e2 0; e2 0]; os_lookup_zs := []; os_lookup_zs_next := [] |};
     opening_proof := {| fp_caps := [cap2]; fp_rounds := [ex_round]; fp_final := [e2 1; e2 2];
                         fp_pow_witness := toFp 0 |};
     public_inputs := [] |}.

Definition ex_zeta : Fp2 := (toFp 5, toFp 3).       (* not in the base field *)

Definition ex_ch : proof_challenges :=
  {| plonk_betas := [toFp 2; toFp 3]; plonk_gammas := [toFp 4; toFp 5]; plonk_alphas := [toFp 6; toFp 7];
     plonk_deltas := []; plonk_zeta := ex_zeta;
     pc_fri := {| fri_alpha := e2 9; fri_betas := [e2 11]; fri_pow_response := toFp 0;
                  fri_query_indices := [5] |} |}.

Lemma ex_cd_wf : cd_wf ex_cd.
Proof. constructor; cbn; try lia; reflexivity. Qed.

Lemma ex_vo_wf : vo_wf ex_cd ex_vo.
Proof. reflexivity. Qed.

Lemma ex_shape_valid : validate_proof_shape ex_cd ex_pr = true.
Proof. reflexivity. Qed.

Lemma ex_fri_shape_valid zeta :
  validate_fri_proof_shape (get_fri_instance ex_cd zeta) ex_params (opening_proof ex_pr) = true.
Proof. reflexivity. Qed.

Lemma ex_proof_shape : proof_shape ex_cd ex_pr.
Proof. reflexivity. Qed.

Lemma ex_challenge_lengths :
  length (fri_betas (pc_fri ex_ch)) = length (fp_caps (opening_proof ex_pr))
  /\ length (fri_betas (pc_fri ex_ch)) = length (reduction_arity_bits ex_params)
  /\ Forall (fun x => x < 2 ^ lde_bits ex_params) (fri_query_indices (pc_fri ex_ch))
  /\ length (plonk_betas ex_ch) = num_challenges (cd_config ex_cd)
  /\ length (plonk_gammas ex_ch) = num_challenges (cd_config ex_cd).
Proof. repeat split; try reflexivity. repeat constructor. Qed.

(* zeta and g*zeta lie outside the base field, so no query point meets them *)
Lemma ex_denominators_nonzero :
  denominators_nonzero (get_fri_instance ex_cd (plonk_zeta ex_ch)) ex_params (fri_query_indices (pc_fri ex_ch)).
Proof.
  intros x b [<-|[]] [<-|[<-|[]]]; vm_compute; reflexivity.
Qed.

(* the vanishing polynomial of the example is computed without a panic *)
Lemma ex_vanishing_some :
  eval_vanishing_poly ex_cd (plonk_zeta ex_ch) (openings ex_pr) [] ex_ch <> None.
Proof. apply vanishing_no_panic; [exact ex_cd_wf|exact ex_shape_valid]. Qed.

Lemma ex_verify_no_panic pih : forall s, verify_with_challenges ex_cd ex_vo ex_pr pih ex_ch <> Panic s.
Proof.
  apply verify_no_panic.
  - exact ex_cd_wf.
  - exact ex_vo_wf.
  - exact ex_shape_valid.
  - reflexivity.
  - repeat constructor.
  - exact ex_denominators_nonzero.
Qed.

(* without the shape check the zip_eq of check_partial_products panics: partial products dropped *)
Definition ex_pr_short : proof := set_fri
  {| wires_cap := cap2; zs_pp_cap := cap2; quotient_cap := cap2;
     openings := {| os_constants := [e2 1]; os_sigmas := [e2 1; e2 2; e2 3];
                    os_wires := [e2 1; e2 2; e2 3; e2 4]; os_zs := [e2 1; e2 1];
                    os_zs_next := [e2 1; e2 1]; os_partial_products := [];
                    os_quotient := [e2 0; e2 0; e2 0; e2 0]; os_lookup_zs := []; os_lookup_zs_next := [] |};
     opening_proof := opening_proof ex_pr; public_inputs := [] |} (opening_proof ex_pr).

Lemma ex_short_rejected_by_shape : validate_proof_shape ex_cd ex_pr_short = false.
Proof. reflexivity. Qed.

Lemma ex_short_would_panic pih :
  verify_with_challenges ex_cd ex_vo ex_pr_short pih ex_ch = Panic 10.
Proof.
  rewrite verify_with_challenges_unfold.
  assert (E : eval_vanishing_poly ex_cd (plonk_zeta ex_ch) (openings ex_pr_short) (map of_fp pih) ex_ch = None).
  { unfold eval_vanishing_poly. cbv zeta.
    match goal with |- context [forallb ?f ?l] => assert (Hall : forallb f l = false) end.
    { cbn [ex_cd cd_config num_challenges seq map forallb].
      match goal with |- context [check_partial_products ?n ?d ?p ?a ?b ?m] =>
        replace (check_partial_products n d p a b m) with (@None (list Fp2)) end.
      - rewrite andb_false_r. reflexivity.
      - symmetry. apply check_partial_products_none; [cbn; lia|rewrite !map_length; reflexivity|].
        rewrite map_length, seq_length. cbn. lia. }
    rewrite Hall. reflexivity. }
  rewrite E. reflexivity.
Qed.

(* the remaining panic site is reachable: an opening point equal to a query point *)
Lemma ex_zero_denominator_reached p x alpha r :
  fri_combine_initial {| oracles := []; batches := [ {| point := fp2_of_base (subgroup_point p x); polynomials := [] |} ] |}
                      p [] alpha (subgroup_point p x) [r] = inr (EPanic 1).
Proof.
  unfold fri_combine_initial. apply combine_batches_zero_denominator_panics; [cbn; lia|].
  eexists. split; [left; reflexivity|]. cbn [point]. apply f_eqb_spec. apply f_sub_diag.
Qed.

(* an accepting Merkle check exists for every choice of the hash functions: a two-leaf tree *)
Lemma ex_merkle_accepts (Hh : list Fp -> digest) (T : digest -> digest -> digest) l0 l1 :
  Fri.verify_merkle_proof_to_cap Hh T l0 0 [T (Hh l0) (Hh l1)] [Hh l1] = Some true.
Proof.
  unfold Fri.verify_merkle_proof_to_cap. cbn [merkle_walk Nat.odd Nat.even Nat.div2 negb nth_error].
  f_equal. unfold digest_eqb. rewrite Nat.eqb_refl. cbn [andb].
  apply forallb_forall. intros [a b] Hin.
  assert (a = b).
  { revert Hin. generalize (T (Hh l0) (Hh l1)). intros d. induction d as [|y d IH]; cbn; [tauto|].
    intros [E|Hin]; [inversion E; reflexivity|auto]. }
  subst. cbn [fst snd]. apply f_eqb_spec. reflexivity.
Qed.
