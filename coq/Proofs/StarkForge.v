(* C09: why the quotient commitment is indispensable.  If the quotient openings are not bound to polynomials
   fixed before zeta (the situation before the repair 9aa99bf: no quotient cap, so nothing observed and nothing
   Merkle-checked), the verifier's identity check can be satisfied for ANY values of the constraint accumulators -
   i.e. for any trace, satisfying or not - by choosing the openings after zeta.  [forged_quotient] is the choice
   harness/src/c09.rs forge_uncommitted_quotient makes (t_0(zeta) = vanishing / Z_H(zeta), the other chunks 0). *)
From Coq Require Import ZArith List Bool Lia Arith Ring Field.
From Verif Require Import Base.Field Base.Poly Model.Stark Proofs.Stark.
Import ListNotations.
Local Open Scope field_scope.

Section Forge.
  Context {F : Type} {FO : FieldOps F} {FL : FieldLaws F}.
  Add Field Fforge : (@F_field_theory F FO FL).

  Definition forged_chunk (qdf : nat) (t : F) : list F := t :: repeat 0 (qdf - 1).
  Definition forged_quotient (qdf : nat) (zh : F) (van : list F) : list F :=
    flat_map (fun v => forged_chunk qdf (v / zh)) van.

  Lemma forged_chunk_length qdf t : qdf <> 0%nat -> length (forged_chunk qdf t) = qdf.
  Proof. intros H. unfold forged_chunk. cbn [length]. rewrite repeat_length. lia. Qed.

  Lemma peval_repeat_zero : forall n (x : F), peval (repeat 0 n) x = 0.
  Proof. induction n as [|n IH]; intros x; cbn [repeat peval]; [reflexivity|]. rewrite IH. ring. Qed.

  Lemma peval_forged_chunk qdf t (x : F) : peval (forged_chunk qdf t) x = t.
  Proof. unfold forged_chunk. cbn [peval]. rewrite peval_repeat_zero. ring. Qed.

  Lemma forged_quotient_length qdf zh van :
    qdf <> 0%nat -> length (forged_quotient qdf zh van) = (qdf * length van)%nat.
  Proof.
    intros H. unfold forged_quotient. induction van as [|v vs IH]; cbn [flat_map length]; [lia|].
    rewrite app_length, IH, forged_chunk_length by exact H. lia.
  Qed.

  Lemma chunks_fuel_forged qdf zh : qdf <> 0%nat -> forall van fuel,
    (length van <= fuel)%nat ->
    chunks_fuel fuel qdf (forged_quotient qdf zh van) = map (fun v => forged_chunk qdf (v / zh)) van.
  Proof.
    intros Hq. induction van as [|v vs IH]; intros fuel Hf.
    - destruct fuel; reflexivity.
    - destruct fuel as [|fuel]; [cbn in Hf; lia|].
      unfold forged_quotient. cbn [flat_map map].
      remember (forged_chunk qdf (v / zh)) as ck eqn:Eck.
      assert (Hlen : length ck = qdf) by (subst ck; apply forged_chunk_length; exact Hq).
      cbn [chunks_fuel].
      destruct (ck ++ flat_map (fun v0 => forged_chunk qdf (v0 / zh)) vs) as [|x xs] eqn:El.
      + destruct ck; [cbn in Hlen; lia|discriminate].
      + rewrite <- El. rewrite <- Hlen at 1 3.
        rewrite firstn_app, Nat.sub_diag, firstn_all, firstn_O, app_nil_r.
        rewrite skipn_app, Nat.sub_diag, skipn_all, skipn_O. cbn [app].
        f_equal. apply IH. cbn in Hf. lia.
  Qed.

  Lemma check_chunks_forged qdf (zh zn : F) : zh <> 0 -> forall vs pre,
    check_chunks (pre ++ vs) (length pre) (map (fun v => forged_chunk qdf (v / zh)) vs) zh zn = Some true.
  Proof.
    intros Hz. induction vs as [|v vs IH]; intros pre; [reflexivity|].
    cbn [map check_chunks].
    rewrite nth_error_app2, Nat.sub_diag by lia. cbn [nth_error].
    rewrite reduce_with_powers_peval, peval_forged_chunk.
    assert (E : (v =? zh * (v / zh)) = true) by (apply f_eqb_spec; field; exact Hz).
    rewrite E.
    replace (pre ++ v :: vs) with ((pre ++ [v]) ++ vs) by (rewrite <- app_assoc; reflexivity).
    replace (S (length pre)) with (length (pre ++ [v])) by (rewrite app_length; cbn; lia).
    apply IH.
  Qed.

  (* for ANY accumulator values there are quotient openings of the right number that pass the identity check *)
  Theorem uncommitted_quotient_always_passes : forall (log_n qdf : nat) (zeta : F) (van : list F),
    qdf <> 0%nat -> exp_power_of_2 zeta log_n - 1 <> 0 ->
    let q := forged_quotient qdf (exp_power_of_2 zeta log_n - 1) van in
    length q = (qdf * length van)%nat /\ quotient_check log_n qdf zeta van (Some q) = Some true.
  Proof.
    intros log_n qdf zeta van Hq Hz q. split; [apply forged_quotient_length; exact Hq|].
    unfold quotient_check, chunks. destruct qdf as [|k]; [congruence|].
    subst q. rewrite chunks_fuel_forged.
    - apply (check_chunks_forged (S k) _ _ Hz van []).
    - discriminate.
    - rewrite forged_quotient_length by discriminate. nia.
  Qed.
End Forge.
