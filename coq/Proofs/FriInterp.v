(* Correctness of the barycentric interpolation of field/src/interpolation.rs
   (barycentric_weights, interpolate) as modelled in Model/Fri.v, over an abstract field:
   for pairwise distinct nodes the value returned at ANY x is the value of the Lagrange
   interpolant (a coefficient list of length <= n through all the points), hence - by the
   root bound of Base/Poly.v - the value of every polynomial with at most n coefficients that
   produced the ordinates.  Every number n of nodes.  No axioms. *)
From Coq Require Import List Lia Arith Bool Ring Field.
From Verif Require Import Base.Field Base.Poly Model.FieldGeneric Proofs.FieldGeneric.
Import ListNotations.
Local Open Scope field_scope.

(* ---- list facts *)
Lemma skipn_nth_cons {A} (d : A) : forall (l : list A) a, (a < length l)%nat ->
  skipn a l = nth a l d :: skipn (S a) l.
Proof.
  induction l as [|h t IH]; intros a Ha; cbn [length] in Ha; [lia|].
  destruct a as [|a]; [reflexivity|]. cbn [skipn nth]. rewrite (IH a) by lia. reflexivity.
Qed.

Lemma map_nth_seq {A} (d : A) (l : list A) : forall len a, (a + len <= length l)%nat ->
  map (fun j => nth j l d) (seq a len) = firstn len (skipn a l).
Proof.
  induction len as [|len IH]; intros a Ha; [reflexivity|].
  cbn [seq map]. rewrite (skipn_nth_cons d l a) by lia. cbn [firstn]. f_equal.
  apply IH. lia.
Qed.

Lemma filter_true_id {A} (f : A -> bool) (l : list A) :
  (forall x, In x l -> f x = true) -> filter f l = l.
Proof.
  induction l as [|h t IH]; intros Hf; [reflexivity|]. cbn [filter].
  rewrite (Hf h) by (left; reflexivity). f_equal. apply IH. intros x Hx. apply Hf. right. exact Hx.
Qed.

Lemma nth_map_seq {B} (f : nat -> B) (d : B) : forall n a i, (i < n)%nat ->
  nth i (map f (seq a n)) d = f (a + i)%nat.
Proof.
  induction n as [|n IH]; intros a i Hi; [lia|]. cbn [seq map].
  destruct i as [|i]; cbn [nth]; [f_equal; lia|]. rewrite IH by lia. f_equal. lia.
Qed.

Definition others {A} (i : nat) (l : list A) : list A := firstn i l ++ skipn (S i) l.

Lemma others_split {A} (d : A) (l : list A) i : (i < length l)%nat ->
  l = firstn i l ++ nth i l d :: skipn (S i) l.
Proof. intros Hi. rewrite <- (skipn_nth_cons d l i Hi). symmetry. apply firstn_skipn. Qed.

Lemma others_length {A} (l : list A) i : (i < length l)%nat -> length (others i l) = (length l - 1)%nat.
Proof. intros Hi. unfold others. rewrite app_length, firstn_length, skipn_length. lia. Qed.

Lemma filter_others {A} (d : A) (l : list A) i : (i < length l)%nat ->
  map (fun j => nth j l d) (filter (fun j => negb (Nat.eqb j i)) (seq 0 (length l))) = others i l.
Proof.
  intros Hi. replace (length l) with (i + S (length l - S i))%nat at 1 by lia.
  rewrite seq_app. cbn [seq Nat.add]. rewrite filter_app. cbn [filter].
  rewrite Nat.eqb_refl. cbn [negb].
  rewrite !filter_true_id.
  - rewrite map_app. unfold others. f_equal.
    + rewrite (map_nth_seq d l i 0) by lia. reflexivity.
    + rewrite (map_nth_seq d l (length l - S i) (S i)) by lia.
      apply firstn_all2. rewrite skipn_length. lia.
  - intros x Hx. apply in_seq in Hx. apply negb_true_iff, Nat.eqb_neq. lia.
  - intros x Hx. apply in_seq in Hx. apply negb_true_iff, Nat.eqb_neq. lia.
Qed.

Lemma others_In {A} (d : A) (l : list A) i k : (i < length l)%nat -> (k < length l)%nat -> k <> i ->
  In (nth k l d) (others i l).
Proof.
  intros Hi Hk Hne. unfold others. apply in_or_app.
  destruct (Nat.lt_ge_cases k i) as [Hlt|Hge].
  - left. replace (nth k l d) with (nth k (firstn i l) d).
    + apply nth_In. rewrite firstn_length. lia.
    + rewrite <- (firstn_skipn i l) at 2. rewrite app_nth1; [reflexivity|]. rewrite firstn_length. lia.
  - right. replace (nth k l d) with (nth (k - S i) (skipn (S i) l) d).
    + apply nth_In. rewrite skipn_length. lia.
    + rewrite <- (firstn_skipn (S i) l) at 2. rewrite app_nth2; rewrite firstn_length; [|lia].
      f_equal. lia.
Qed.

Lemma others_NoDup_notin {A} (d : A) (l : list A) i : NoDup l -> (i < length l)%nat ->
  ~ In (nth i l d) (others i l).
Proof.
  intros Hnd Hi. rewrite (others_split d l i Hi) in Hnd.
  apply NoDup_remove_2 in Hnd. exact Hnd.
Qed.

Section Interp.
  Context {F : Type} `{FL : FieldLaws F}.
  Add Field Ffi : (@F_field_theory F _ FL).

  (* ---- the code (same terms as Model/Fri.v, over any field) *)
  Definition g_bary_denoms (xs : list F) : list F :=
    map (fun i => fold_right fmul 1
                    (map (fun j => nth i xs 0 - nth j xs 0)
                         (filter (fun j => negb (Nat.eqb j i)) (seq 0 (length xs)))))
        (seq 0 (length xs)).
  Definition g_barycentric_weights (xs : list F) : list F :=
    batch_multiplicative_inverse (g_bary_denoms xs).

  Definition g_interpolate (xs ys : list F) (x : F) (ws : list F) : F :=
    match find (fun p => (fst p =? x)) (combine xs ys) with
    | Some p => snd p
    | None =>
      fold_right fmul 1 (map (fun xi => x - xi) xs)
      * fold_right fadd 0
          (map (fun i => nth i ws 0 * finv (x - nth i xs 0) * nth i ys 0) (seq 0 (length xs)))
    end.

  (* ---- sums and products *)
  Lemma fprod_In_zero (l : list F) : In 0 l -> fprod l = 0.
  Proof.
    induction l as [|h t IH]; intros Hin; [contradiction|]. cbn [fprod fold_right].
    destruct Hin as [->|Hin]; [ring|]. fold (fprod t). rewrite IH by exact Hin. ring.
  Qed.

  Lemma fsum_scale (c : F) {A} (f : A -> F) (l : list A) :
    c * fsum (map f l) = fsum (map (fun a => c * f a) l).
  Proof.
    induction l as [|h t IH]; cbn [map fsum fold_right]; [ring|].
    fold (fsum (map f t)). fold (fsum (map (fun a => c * f a) t)). rewrite <- IH. ring.
  Qed.

  Lemma fsum_ext_in {A} (f g : A -> F) (l : list A) :
    (forall a, In a l -> f a = g a) -> fsum (map f l) = fsum (map g l).
  Proof. intros Hfg. f_equal. apply map_ext_in. exact Hfg. Qed.

  Lemma fsum_all_zero {A} (f : A -> F) (l : list A) :
    (forall a, In a l -> f a = 0) -> fsum (map f l) = 0.
  Proof.
    induction l as [|h t IH]; intros Hz; [reflexivity|].
    cbn [map fsum fold_right]. fold (fsum (map f t)).
    rewrite IH by (intros a Ha; apply Hz; right; exact Ha).
    rewrite (Hz h) by (left; reflexivity). ring.
  Qed.

  Lemma fsum_single (f : nat -> F) (l : list nat) (k : nat) :
    NoDup l -> In k l -> (forall i, In i l -> i <> k -> f i = 0) -> fsum (map f l) = f k.
  Proof.
    induction l as [|h t IH]; intros Hnd Hin Hz; [contradiction|].
    cbn [map fsum fold_right]. fold (fsum (map f t)).
    apply NoDup_cons_iff in Hnd. destruct Hnd as [Hnotin Hnd].
    destruct Hin as [->|Hin].
    - rewrite fsum_all_zero; [ring|].
      intros i Hi. apply Hz; [right; exact Hi|]. intros ->. contradiction.
    - rewrite IH; auto.
      + rewrite (Hz h); [ring | left; reflexivity | intros ->; contradiction].
      + intros i Hi. apply Hz. right. exact Hi.
  Qed.

  (* ---- products of linear factors as polynomials *)
  Definition plin (z : F) (q : poly) : poly := padd (pscale (- z) q) (0 :: q).

  Lemma peval_plin z q x : peval (plin z q) x = (x - z) * peval q x.
  Proof. unfold plin. rewrite peval_padd, peval_pscale. cbn [peval]. ring. Qed.

  Lemma plin_length z (q : poly) : length (plin z q) = S (length q).
  Proof. unfold plin. rewrite padd_length, pscale_length. cbn [length]. lia. Qed.

  Definition plin_prod (zs : list F) : poly := fold_right plin [1] zs.

  Lemma peval_plin_prod zs x : peval (plin_prod zs) x = fprod (map (fun z => x - z) zs).
  Proof.
    induction zs as [|z zs IH]; cbn [plin_prod fold_right map fprod].
    - cbn [peval]. ring.
    - fold (plin_prod zs). rewrite peval_plin, IH. reflexivity.
  Qed.

  Lemma plin_prod_length zs : length (plin_prod zs) = S (length zs).
  Proof.
    induction zs as [|z zs IH]; [reflexivity|]. cbn [plin_prod fold_right]. fold (plin_prod zs).
    rewrite plin_length, IH. reflexivity.
  Qed.

  Lemma padd_all_length (n : nat) (qs : list poly) :
    Forall (fun q : poly => (length q <= n)%nat) qs -> (length (fold_right padd [] qs) <= n)%nat.
  Proof.
    induction 1 as [|q qs Hq _ IH]; cbn [fold_right]; [cbn [length]; lia|].
    rewrite padd_length. lia.
  Qed.

  Lemma peval_padd_all (qs : list poly) x :
    peval (fold_right padd [] qs) x = fsum (map (fun q => peval q x) qs).
  Proof.
    induction qs as [|q qs IH]; cbn [fold_right map fsum]; [reflexivity|].
    rewrite peval_padd, IH. reflexivity.
  Qed.

  (* ---- the Lagrange interpolant with weights ws *)
  Definition lagrange (xs ys ws : list F) : poly :=
    fold_right padd []
      (map (fun i => pscale (nth i ws 0 * nth i ys 0) (plin_prod (others i xs))) (seq 0 (length xs))).

  Lemma lagrange_length xs ys ws : (length (lagrange xs ys ws) <= length xs)%nat.
  Proof.
    unfold lagrange. apply padd_all_length. apply Forall_forall. intros q Hq.
    apply in_map_iff in Hq. destruct Hq as (i & <- & Hi). apply in_seq in Hi.
    rewrite pscale_length, plin_prod_length, others_length by lia. lia.
  Qed.

  Lemma peval_lagrange xs ys ws x :
    peval (lagrange xs ys ws) x
    = fsum (map (fun i => nth i ws 0 * nth i ys 0 * fprod (map (fun z => x - z) (others i xs)))
                (seq 0 (length xs))).
  Proof.
    unfold lagrange. rewrite peval_padd_all, map_map. apply fsum_ext_in. intros i _.
    rewrite peval_pscale, peval_plin_prod. reflexivity.
  Qed.

  (* l(x) = (x - x_i) * prod_{j <> i} (x - x_j) *)
  Lemma full_prod_split xs x i : (i < length xs)%nat ->
    fprod (map (fun xi => x - xi) xs) = (x - nth i xs 0) * fprod (map (fun z => x - z) (others i xs)).
  Proof.
    intros Hi. rewrite (others_split 0 xs i Hi) at 1. unfold others.
    rewrite !map_app, !fprod_app. cbn [map fprod fold_right].
    fold (fprod (map (fun z => x - z) (skipn (S i) xs))). ring.
  Qed.

  (* ---- the weights *)
  Lemma g_bary_denoms_nth xs i : (i < length xs)%nat ->
    nth i (g_bary_denoms xs) 0 = fprod (map (fun z => nth i xs 0 - z) (others i xs)).
  Proof.
    intros Hi. unfold g_bary_denoms. rewrite nth_map_seq by exact Hi. cbn [Nat.add].
    rewrite <- (filter_others 0 xs i Hi), map_map. reflexivity.
  Qed.

  Lemma g_bary_denoms_nonzero xs : NoDup xs -> Forall (fun d => d <> 0) (g_bary_denoms xs).
  Proof.
    intros Hnd. apply Forall_forall. intros d Hd.
    destruct (In_nth _ _ 0 Hd) as (i & Hi & <-).
    unfold g_bary_denoms in Hi. rewrite map_length, seq_length in Hi.
    rewrite g_bary_denoms_nth by exact Hi.
    apply fprod_neq_0. apply Forall_forall. intros t Ht.
    apply in_map_iff in Ht. destruct Ht as (z & <- & Hz).
    intros E. apply (proj1 (f_sub_eq_0 _ _)) in E. subst z.
    exact (others_NoDup_notin 0 xs i Hnd Hi Hz).
  Qed.

  Lemma g_weights_spec xs i : NoDup xs -> (i < length xs)%nat ->
    nth i (g_barycentric_weights xs) 0 * fprod (map (fun z => nth i xs 0 - z) (others i xs)) = 1.
  Proof.
    intros Hnd Hi. unfold g_barycentric_weights.
    destruct (batch_inverse_correct (g_bary_denoms xs) (g_bary_denoms_nonzero xs Hnd)) as [_ Hinv].
    rewrite <- (g_bary_denoms_nth xs i Hi). apply Hinv.
    unfold g_bary_denoms. rewrite map_length, seq_length. exact Hi.
  Qed.

  Lemma g_weights_length xs : NoDup xs -> length (g_barycentric_weights xs) = length xs.
  Proof.
    intros Hnd. unfold g_barycentric_weights.
    destruct (batch_inverse_correct (g_bary_denoms xs) (g_bary_denoms_nonzero xs Hnd)) as [Hl _].
    rewrite Hl. unfold g_bary_denoms. rewrite map_length, seq_length. reflexivity.
  Qed.

  (* ---- the interpolant passes through the points *)
  Lemma lagrange_at_node xs ys k : NoDup xs -> (k < length xs)%nat ->
    peval (lagrange xs ys (g_barycentric_weights xs)) (nth k xs 0) = nth k ys 0.
  Proof.
    intros Hnd Hk. rewrite peval_lagrange.
    rewrite (fsum_single _ (seq 0 (length xs)) k).
    - transitivity (nth k ys 0 * (nth k (g_barycentric_weights xs) 0
                                  * fprod (map (fun z => nth k xs 0 - z) (others k xs)))); [ring|].
      rewrite g_weights_spec by assumption. ring.
    - apply seq_NoDup.
    - apply in_seq. lia.
    - intros i Hi Hne. apply in_seq in Hi.
      rewrite (fprod_In_zero (map (fun z => nth k xs 0 - z) (others i xs))); [ring|].
      apply in_map_iff. exists (nth k xs 0). split; [ring|].
      apply others_In; lia.
  Qed.

  (* ---- interpolate returns the value of the interpolant, on and off the nodes *)
  Lemma find_node_none xs ys x : ~ In x xs ->
    find (fun p : F * F => (fst p =? x)) (combine xs ys) = None.
  Proof.
    intros Hn. destruct (find _ _) as [p|] eqn:E; [|reflexivity].
    apply find_some in E. destruct E as [Hin He]. apply f_eqb_spec in He.
    destruct p as [a b]. cbn [fst] in He. subst a. apply in_combine_l in Hin. contradiction.
  Qed.

  Theorem interpolate_is_lagrange xs ys x : NoDup xs -> length ys = length xs ->
    g_interpolate xs ys x (g_barycentric_weights xs)
    = peval (lagrange xs ys (g_barycentric_weights xs)) x.
  Proof.
    intros Hnd Hlen. unfold g_interpolate.
    destruct (find (fun p : F * F => (fst p =? x)) (combine xs ys)) as [p|] eqn:E.
    - (* a node: the stored ordinate *)
      apply find_some in E. destruct E as [Hin He]. apply f_eqb_spec in He.
      destruct (In_nth _ _ (0, 0) Hin) as (k & Hk & Hp).
      rewrite combine_length, Hlen, Nat.min_id in Hk.
      rewrite combine_nth in Hp by (symmetry; exact Hlen). subst p. cbn [fst snd] in *. subst x.
      symmetry. apply lagrange_at_node; assumption.
    - (* off the nodes: the barycentric formula *)
      assert (Hx : forall i, (i < length xs)%nat -> x - nth i xs 0 <> 0).
      { intros i Hi Ez. apply (proj1 (f_sub_eq_0 _ _)) in Ez.
        assert (Hin : In (x, nth i ys 0) (combine xs ys)).
        { rewrite Ez. rewrite <- combine_nth by (symmetry; exact Hlen).
          apply nth_In. rewrite combine_length, Hlen, Nat.min_id. exact Hi. }
        pose proof (find_none _ _ E _ Hin) as Hf. cbn [fst] in Hf.
        rewrite feqb_refl in Hf. discriminate Hf. }
      rewrite peval_lagrange.
      change (fold_right fmul 1 (map (fun xi => x - xi) xs)) with (fprod (map (fun xi => x - xi) xs)).
      match goal with |- _ * fold_right fadd 0 ?l = _ => change (fold_right fadd 0 l) with (fsum l) end.
      rewrite fsum_scale. apply fsum_ext_in. intros i Hi. apply in_seq in Hi.
      rewrite (full_prod_split xs x i) by lia. field. apply Hx. lia.
  Qed.

  (* uniqueness: the values of any polynomial with at most n coefficients are recovered *)
  Theorem interpolate_poly (p : poly) xs x : NoDup xs -> (length p <= length xs)%nat ->
    g_interpolate xs (map (peval p) xs) x (g_barycentric_weights xs) = peval p x.
  Proof.
    intros Hnd Hlen. rewrite interpolate_is_lagrange by (auto; apply map_length).
    apply (poly_eq_bound _ _ xs Hnd).
    - intros t Ht. destruct (In_nth _ _ 0 Ht) as (k & Hk & <-).
      rewrite lagrange_at_node by assumption.
      rewrite (nth_indep _ 0 (peval p 0)) by (rewrite map_length; exact Hk).
      apply (map_nth (peval p)).
    - pose proof (lagrange_length xs (map (peval p) xs) (g_barycentric_weights xs)). lia.
  Qed.

  (* on a node the stored ordinate is returned whatever the weights are *)
  Lemma interpolate_on_node xs ys ws k : NoDup xs -> length ys = length xs -> (k < length xs)%nat ->
    g_interpolate xs ys (nth k xs 0) ws = nth k ys 0.
  Proof.
    intros Hnd Hlen Hk. unfold g_interpolate.
    destruct (find (fun p : F * F => (fst p =? nth k xs 0)) (combine xs ys)) as [p|] eqn:E.
    - apply find_some in E. destruct E as [Hin He]. apply f_eqb_spec in He.
      destruct (In_nth _ _ (0, 0) Hin) as (j & Hj & Hp).
      rewrite combine_length, Hlen, Nat.min_id in Hj.
      rewrite combine_nth in Hp by (symmetry; exact Hlen). subst p. cbn [fst snd] in *.
      assert (j = k); [|subst; reflexivity].
      apply (proj1 (NoDup_nth xs 0) Hnd); assumption.
    - exfalso.
      assert (Hin : In (nth k xs 0, nth k ys 0) (combine xs ys)).
      { rewrite <- combine_nth by (symmetry; exact Hlen).
        apply nth_In. rewrite combine_length, Hlen, Nat.min_id. exact Hk. }
      pose proof (find_none _ _ E _ Hin) as Hf. cbn [fst] in Hf.
      rewrite feqb_refl in Hf. discriminate Hf.
  Qed.
End Interp.
