(* C07 - BaseSumGate<B>: the limbs the generator writes are pinned through the sum constraint
   (delta * B^i <> 0) together with the range products.  Side conditions, stated on an abstract
   field with an embedding of the integers below its characteristic bound p (class BaseLaws) and
   discharged for Goldilocks in Proofs/Gates.v: 1 <= B < p; the generated row is satisfying when the
   sum fits in num_limbs limbs (the generator's debug_assert). *)
From Coq Require Import ZArith List Lia Arith Bool FinFun.
From Verif Require Import Base.Field Model.FieldGeneric Model.Gates Proofs.GatesLib Proofs.GatesSimple.
Import ListNotations.
Local Open Scope nat_scope.

(* what the proofs need to know about of_base / to_canon: a ring homomorphism Z -> K that is
   injective on [0, p), with to_canon a section of it *)
Class BaseLaws (K : Type) `{FO : FieldOps K} {OB : OfBase K} {TC : ToCanon K} (p : Z) : Prop := {
  bl_p : (1 < p)%Z;
  of_base_add : forall a b, of_base (a + b)%Z = (of_base a + of_base b)%F;
  of_base_mul : forall a b, of_base (a * b)%Z = (of_base a * of_base b)%F;
  of_base_0 : of_base 0%Z = 0%F;
  of_base_1 : of_base 1%Z = 1%F;
  of_base_inj : forall a b, (0 <= a < p)%Z -> (0 <= b < p)%Z -> of_base a = of_base b -> a = b;
  to_canon_range : forall x, (0 <= to_canon x < p)%Z;
  of_base_to_canon : forall x, of_base (to_canon x) = x;
}.

Section ZDigits.
  Open Scope Z_scope.
  Fixpoint zreduce (ds : list Z) (B : Z) : Z :=
    match ds with [] => 0 | d :: t => zreduce t B * B + d end.

  Lemma zreduce_base_limbs B : 0 < B -> forall n x, 0 <= x ->
    zreduce (base_limbs B n x) B = x mod B ^ Z.of_nat n.
  Proof.
    intros HB. induction n as [|n IH]; intros x Hx.
    - cbn [base_limbs zreduce]. change (Z.of_nat 0) with 0. rewrite Z.pow_0_r, Z.mod_1_r. reflexivity.
    - cbn [base_limbs zreduce]. rewrite IH by (apply Z.div_pos; lia).
      rewrite Nat2Z.inj_succ, Z.pow_succ_r by lia.
      rewrite Z.rem_mul_r by (try lia; apply Z.pow_nonzero; lia). lia.
  Qed.

  Lemma base_limbs_range B : 0 < B -> forall n x d, In d (base_limbs B n x) -> 0 <= d < B.
  Proof.
    intros HB. induction n as [|n IH]; intros x d Hd; cbn [base_limbs In] in Hd; [tauto|].
    destruct Hd as [<-|Hd]; [apply Z.mod_pos_bound; exact HB | apply (IH _ _ Hd)].
  Qed.

  Lemma base_limbs_length B : forall n x, length (base_limbs B n x) = n.
  Proof. induction n; intros x; cbn [base_limbs length]; [reflexivity|]. rewrite IHn. reflexivity. Qed.

  Lemma fold_div B : 0 < B -> forall (l : list nat) x, 0 <= x ->
    fold_left (fun acc _ => acc / B) l x = x / B ^ Z.of_nat (length l).
  Proof.
    intros HB. induction l as [|a l IH]; intros x Hx; cbn [fold_left length].
    - change (Z.of_nat 0) with 0. rewrite Z.pow_0_r, Z.div_1_r. reflexivity.
    - rewrite IH by (apply Z.div_pos; lia). rewrite Nat2Z.inj_succ, Z.pow_succ_r by lia.
      rewrite Z.div_div by (try lia; apply Z.pow_pos_nonneg; lia). reflexivity.
  Qed.
End ZDigits.

Section BaseSum.
  Context {K : Type} `{FL : FieldLaws K} {OB : OfBase K} {TC : ToCanon K}.
  Variable p : Z.
  Context {BL : BaseLaws K p}.
  Add Field Kf_bs : (@F_field_theory K _ FL).

  Lemma of_base_neq a b : (0 <= a < p)%Z -> (0 <= b < p)%Z -> a <> b -> (of_base a : K) <> of_base b.
  Proof. intros Ha Hb Hn E. apply Hn. apply (of_base_inj a b Ha Hb E). Qed.

  Lemma of_base_sub a b : (of_base (a - b)%Z : K) = (of_base a - of_base b)%F.
  Proof.
    assert (E : (of_base (a - b)%Z + of_base b)%F = (of_base a : K)).
    { rewrite <- of_base_add. f_equal. lia. }
    rewrite <- E. ring.
  Qed.

  Lemma reduce_hom (ds : list Z) (B : Z) :
    reduce_with_powers (map of_base ds) (of_base B) = (of_base (zreduce ds B) : K).
  Proof.
    induction ds as [|d t IH]; cbn [map reduce_with_powers fold_right zreduce].
    - symmetry. apply of_base_0.
    - unfold reduce_with_powers in IH. rewrite IH. rewrite of_base_add, of_base_mul. reflexivity.
  Qed.

  (* the sum is linear in each limb *)
  Lemma reduce_diff (alpha : K) : forall (l l' : list K) i,
    length l = length l' -> i < length l ->
    (forall j, j <> i -> nth j l 0%F = nth j l' 0%F) ->
    reduce_with_powers l alpha
    = (reduce_with_powers l' alpha + (nth i l 0 - nth i l' 0) * fpow alpha i)%F.
  Proof.
    unfold reduce_with_powers.
    induction l as [|a l IH]; intros l' i Hl Hi Hj; cbn [length] in *; [lia|].
    destruct l' as [|a' l']; [discriminate|]. cbn [length] in Hl. cbn [fold_right].
    destruct i as [|i].
    - assert (El : l = l').
      { apply (nth_ext l l' 0%F 0%F); [lia|]. intros k Hk. apply (Hj (S k)). lia. }
      subst l'. cbn [nth fpow]. ring.
    - assert (Ea : a = a') by (apply (Hj 0); lia). subst a'.
      rewrite (IH l' i) by (try lia; intros k Hk; apply (Hj (S k)); lia).
      cbn [nth fpow]. ring.
  Qed.

  Lemma range_product_zero (B : nat) (v : K) :
    range_product B v = 0%F <-> exists j, j < B /\ v = ofN j.
  Proof.
    unfold range_product.
    rewrite (fold_prod_zero (fun i => (v - ofN i)%F) (seq 0 B) 1%F). split.
    - intros [E|[j [Hj Ej]]]; [exfalso; apply f_1_neq_0; exact E|].
      apply in_seq in Hj. exists j. split; [lia|]. apply f_sub_eq_0. exact Ej.
    - intros [j [Hj Ej]]. right. exists j. split; [apply in_seq; lia|]. apply f_sub_eq_0. exact Ej.
  Qed.

  Definition ok_base_sum (B n : nat) (consts row pi : list K) : Prop :=
    (to_canon (nthF row 0) < Z.of_nat B ^ Z.of_nat n)%Z.

  Definition bs_digits (B n : nat) (row : list K) : list Z :=
    base_limbs (Z.of_nat B) n (to_canon (nthF row 0)).

  Lemma bs_writes_eq B n consts row : 1 <= B ->
    gate_writes (BaseSumGate B n) consts row = Some (combine (seq 1 n) (map of_base (bs_digits B n row))).
  Proof.
    intros HB. cbn [gate_writes]. destruct (Nat.eqb_spec B 0); [lia|]. reflexivity.
  Qed.

  Lemma bs_in_writes B n row j v :
    In (j, v) (combine (seq 1 n) (map of_base (bs_digits B n row)))
    <-> exists i, i < n /\ j = 1 + i /\ v = of_base (nth i (bs_digits B n row) 0%Z).
  Proof.
    assert (Hlen : length (map (of_base (K:=K)) (bs_digits B n row)) = n).
    { rewrite map_length. apply base_limbs_length. }
    rewrite (in_combine_seq 1 n _ j v Hlen). split.
    - intros [i [Hi [Ej Ev]]]. exists i. split; [exact Hi|]. split; [exact Ej|].
      rewrite Ev. unfold nthF. rewrite (nth_indep _ 0%F (of_base 0%Z)) by lia. apply map_nth.
    - intros [i [Hi [Ej Ev]]]. exists i. split; [exact Hi|]. split; [exact Ej|].
      rewrite Ev. rewrite (nth_indep _ 0%F (of_base 0%Z)) by lia. symmetry. apply map_nth.
  Qed.

  Lemma ofN_nonzero (B : nat) : 1 <= B -> (Z.of_nat B < p)%Z -> (ofN B : K) <> 0%F.
  Proof.
    intros H1 H2. unfold ofN. rewrite <- of_base_0. apply of_base_neq; lia.
  Qed.

  (* the limbs of a row as a list, and the generated limbs *)
  Definition bs_limbs (n : nat) (row : list K) : list K := map (nthF row) (seq 1 n).

  Lemma bs_limbs_nth n row i : i < n -> nth i (bs_limbs n row) 0%F = nthF row (1 + i).
  Proof.
    intros Hi. unfold bs_limbs.
    rewrite (nth_indep _ 0%F (nthF row 0)) by (rewrite map_length, seq_length; exact Hi).
    rewrite map_nth. rewrite seq_nth by exact Hi. reflexivity.
  Qed.

  Lemma bs_gen_nth B n row i : i < n ->
    nth i (map of_base (bs_digits B n row)) 0%F = (of_base (nth i (bs_digits B n row) 0%Z) : K).
  Proof.
    intros Hi. rewrite (nth_indep _ 0%F (of_base 0%Z)) by (rewrite map_length; unfold bs_digits; rewrite base_limbs_length; exact Hi).
    apply map_nth.
  Qed.

  Lemma bs_gen_sum B n row : 1 <= B -> ok_base_sum B n [] row [] ->
    reduce_with_powers (map of_base (bs_digits B n row)) (ofN B) = nthF row 0.
  Proof.
    intros HB Hok. unfold ofN. rewrite reduce_hom. unfold bs_digits.
    pose proof (to_canon_range (nthF row 0)) as Hr.
    rewrite zreduce_base_limbs by lia. unfold ok_base_sum in Hok.
    rewrite Z.mod_small by lia. apply of_base_to_canon.
  Qed.

  Lemma base_sum_spec B n : 1 <= B -> (Z.of_nat B < p)%Z ->
    gate_spec (BaseSumGate B n) (ok_base_sum B n).
  Proof.
    intros HB HBp.
    assert (Hw0 : ~ In 0 (gate_written (BaseSumGate B n))).
    { cbn [gate_written]. rewrite in_seq. lia. }
    assert (Hdlen : forall r, length (bs_digits B n r) = n) by (intros r; apply base_limbs_length).
    constructor.
    - intros consts r1 r2 He. rewrite !bs_writes_eq by exact HB. unfold bs_digits. rewrite (He 0 Hw0). reflexivity.
    - intros consts pi r1 r2 He Hok. unfold ok_base_sum in *. rewrite <- (He 0 Hw0). exact Hok.
    - intros consts r wr i v Hw Hin. rewrite bs_writes_eq in Hw by exact HB. apply Some_eq in Hw; subst wr.
      apply bs_in_writes in Hin. destruct Hin as [k [Hk [Ei _]]]. cbn [gate_written gate_num_wires].
      rewrite in_seq. lia.
    - intros consts r wr w Hw Hin. rewrite bs_writes_eq in Hw by exact HB. apply Some_eq in Hw; subst wr.
      cbn [gate_written] in Hin. apply in_seq in Hin.
      exists (of_base (nth (w - 1) (bs_digits B n r) 0%Z)). apply bs_in_writes.
      exists (w - 1). split; [lia|]. split; [lia | reflexivity].
    - intros consts r wr Hw. rewrite bs_writes_eq in Hw by exact HB. apply Some_eq in Hw; subst wr.
      apply functional_NoDup. rewrite map_fst_combine by (rewrite seq_length, map_length, Hdlen; reflexivity).
      apply seq_NoDup.
    - (* satisfaction *)
      intros consts pi r wr Hok Hw Ha. rewrite bs_writes_eq in Hw by exact HB. apply Some_eq in Hw; subst wr.
      cbn [gate_eval_unfiltered]. unfold eval_base_sum.
      assert (El : map (nthF r) (seq 1 n) = map of_base (bs_digits B n r)).
      { apply (nth_ext _ _ 0%F 0%F); [rewrite !map_length, seq_length, Hdlen; reflexivity|].
        intros i Hi. rewrite map_length, seq_length in Hi.
        change (map (nthF r) (seq 1 n)) with (bs_limbs n r).
        rewrite (bs_limbs_nth n r i Hi), (bs_gen_nth B n r i Hi).
        apply Ha. apply bs_in_writes. exists i. auto. }
      rewrite El. constructor.
      + rewrite (bs_gen_sum B n r HB Hok). ring.
      + apply zero_all_map. intros v Hv. apply in_map_iff in Hv. destruct Hv as [d [<- Hd]].
        apply range_product_zero.
        pose proof (base_limbs_range (Z.of_nat B) ltac:(lia) n _ d Hd) as Hr.
        exists (Z.to_nat d). split; [lia|]. unfold ofN. f_equal. lia.
    - (* one limb replaced: the sum constraint alone is violated *)
      intros consts pi r wr w gv Hok Hw Hin Hex Hne.
      rewrite bs_writes_eq in Hw by exact HB. apply Some_eq in Hw; subst wr.
      apply bs_in_writes in Hin. destruct Hin as [i [Hi [Ew Egv]]]. subst w.
      cbn [gate_eval_unfiltered]. unfold eval_base_sum. apply Exists_cons_hd.
      fold (bs_limbs n r).
      rewrite (reduce_diff (ofN B) (bs_limbs n r) (map of_base (bs_digits B n r)) i).
      + rewrite (bs_gen_sum B n r HB Hok). rewrite (bs_limbs_nth n r i Hi), (bs_gen_nth B n r i Hi).
        rewrite <- Egv. intros E.
        assert (E2 : ((nthF r (1 + i) - gv) * fpow (ofN B) i)%F = 0%F) by (rewrite <- E; ring).
        apply f_mul_eq_0 in E2. destruct E2 as [E2|E2].
        * apply Hne. apply f_sub_eq_0. exact E2.
        * apply (fpow_neq_0 (ofN B) i); [apply ofN_nonzero; assumption | exact E2].
      + unfold bs_limbs. rewrite !map_length, seq_length, Hdlen. reflexivity.
      + unfold bs_limbs. rewrite map_length, seq_length. exact Hi.
      + intros j Hj. destruct (Nat.lt_ge_cases j n) as [Hjn|Hjn].
        * rewrite (bs_limbs_nth n r j Hjn), (bs_gen_nth B n r j Hjn).
          apply Hex; [|lia]. apply bs_in_writes. exists j. auto.
        * rewrite !nth_overflow; [reflexivity | rewrite map_length, Hdlen; lia
                                  | unfold bs_limbs; rewrite map_length, seq_length; lia].
  Qed.
End BaseSum.
