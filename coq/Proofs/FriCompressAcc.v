(* Accepted FRI proofs round-trip through compress / decompress, or exhibit a hash collision.
   verify_fri_proof checks every initial opening and every coset opening against ONE cap per oracle
   / per layer; by Proofs/MerkleOpeningsConsistent.v such a set of openings either yields a
   collision (as a value) or is the set of openings of one partial tree, on which path compression
   is invertible (Proofs/MerkleCompressionPartial.v); the round trip is then the abstract theorem
   round_trip_gen of Proofs/FriCompress.v with the leaf / path / coset functions read off the proof. *)
From Coq Require Import ZArith List Bool Lia Arith.
From Verif Require Import Base.Field Model.Fp Model.Fp2 Model.FieldGeneric Model.Fri Model.Merkle Model.FriCompress
  Proofs.Merkle Proofs.MerkleCompression Proofs.MerkleOpeningsConsistent Proofs.Fri Proofs.FriCompress.
Import ListNotations.
Local Open Scope nat_scope.

Lemma Fp_eq_dec (a b : Fp) : {a = b} + {a <> b}.
Proof.
  destruct (Z.eq_dec (fval a) (fval b)) as [E|Hne]; [left; apply Fp_ext; exact E|].
  right. intros ->. apply Hne. reflexivity.
Qed.
Definition leaf_dec : forall a b : list Fp, {a = b} + {a <> b} := list_eq_dec Fp_eq_dec.

Lemma in_combine_nth {A B} : forall (l1 : list A) (l2 : list B) x y,
  In (x, y) (combine l1 l2) -> exists i, nth_error l1 i = Some x /\ nth_error l2 i = Some y.
Proof.
  induction l1 as [|a l1 IH]; intros [|b l2] x y Hin; try destruct Hin.
  - injection H as <- <-. exists 0. split; reflexivity.
  - destruct (IH l2 x y H) as (i & H1 & H2). exists (S i). split; assumption.
Qed.

Lemma skipn_nth_error {A} : forall (l : list A) j c, nth_error l j = Some c -> skipn j l = c :: skipn (S j) l.
Proof.
  induction l as [|a l IH]; intros [|j] c E; try discriminate.
  - cbn in E. injection E as ->. reflexivity.
  - cbn [nth_error] in E. cbn [skipn]. apply IH. exact E.
Qed.

(* a coset of the wrong size (never the case for a stored, shape-valid coset) is replaced by zeros *)
Definition fix_len (a : nat) (l : list Fp2) : list Fp2 :=
  if length l =? 2 ^ a then l else repeat (fzero : Fp2) (2 ^ a).

Lemma fix_len_length a l : length (fix_len a l) = 2 ^ a.
Proof. unfold fix_len. destruct (Nat.eqb_spec (length l) (2 ^ a)); [assumption|apply repeat_length]. Qed.

Lemma fix_len_id a l : length l = 2 ^ a -> fix_len a l = l.
Proof. intros E. unfold fix_len. rewrite E, Nat.eqb_refl. reflexivity. Qed.

Section Accepted.
  Variable H : list Fp -> digest.
  Variable T2 : digest -> digest -> digest.
  Variable h n : nat.

  Notation coll := (fri_collision H T2).
  Notation vmp := (Fri.verify_merkle_proof_to_cap H T2).
  Definition dz : digest := [].
  Notation opnF := (opn Fp digest).
  Notation OConsF := (OCons Fp digest H T2 dz).
  Notation AccF := (Acc Fp digest H T2 digest_eqb).
  Notation lfo := (lf_of Fp digest).
  Notation ptho := (pth_of Fp digest H T2 dz).

  Lemma acc_of_vmp k cap x (l : list Fp) (sb : list digest) :
    x < 2 ^ k -> length sb = k - h -> vmp l x cap sb = Some true -> AccF k h cap (x, l, sb).
  Proof.
    intros Hx Hl Hv. unfold Acc, ox, ol, op. cbn [fst snd]. repeat split; auto.
    apply (proj1 (verify_merkle_bridge H T2 l x cap sb)). exact Hv.
  Qed.

  (* ---------------------------------------------------------------------------------------- *)
  (* the initial trees                                                                          *)
  Variable xqs : list (nat * fri_query_round).          (* (index, round) of every query *)
  Hypothesis xqs_ne : xqs <> [].
  Variable NT : nat.
  Variable caps : list (list digest).
  Hypothesis h_le_n : h <= n.
  Hypothesis HI : forall x q, In (x, q) xqs ->
    x < 2 ^ n /\ length (qr_initial q) = NT
    /\ forall t ev sb, nth_error (qr_initial q) t = Some (ev, sb) ->
         length sb = n - h /\ exists cap, nth_error caps t = Some cap /\ vmp ev x cap sb = Some true.

  Definition O_init (t : nat) : list opnF :=
    map (fun xq => (fst xq, fst (nth t (qr_initial (snd xq)) d0), snd (nth t (qr_initial (snd xq)) d0))) xqs.

  Lemma init_dec t : t < NT -> coll + {OConsF n h (O_init t)}.
  Proof.
    intros Ht.
    destruct (nth_error caps t) as [cap|] eqn:Ec.
    - apply (accepted_openings_cps Fp digest H T2 digest_eqb digest_eqb_spec leaf_dec dz n h h_le_n cap).
      + unfold O_init. destruct xqs; [contradiction|discriminate].
      + intros o Ho. unfold O_init in Ho. apply in_map_iff in Ho. destruct Ho as ([x q] & <- & Hin).
        cbn [fst snd]. destruct (HI x q Hin) as (Hx & Hlen & Hall).
        assert (Hn : nth_error (qr_initial q) t = Some (nth t (qr_initial q) d0))
          by (apply nth_error_nth'; lia).
        destruct (nth t (qr_initial q) d0) as [ev sb] eqn:En.
        destruct (Hall t ev sb Hn) as (Hl & cap' & Ec' & Hv). rewrite Ec in Ec'. injection Ec' as <-.
        cbn [fst snd]. apply acc_of_vmp; assumption.
    - (* no cap for an oracle that every round opens: impossible under HI *)
      exfalso. destruct xqs as [|[x q] r]; [contradiction|].
      destruct (HI x q (or_introl eq_refl)) as (_ & Hlen & Hall).
      assert (Hn : nth_error (qr_initial q) t = Some (nth t (qr_initial q) d0)) by (apply nth_error_nth'; lia).
      destruct (nth t (qr_initial q) d0) as [ev sb]. destruct (Hall t ev sb Hn) as (_ & cap & Ec' & _). congruence.
  Qed.

  Lemma init_all_dec : coll + {forall t, t < NT -> OConsF n h (O_init t)}.
  Proof.
    destruct (bounded_dec coll (fun t => t < NT -> OConsF n h (O_init t))
             (fun t => match lt_dec t NT with
                       | left Hlt => match init_dec t Hlt with inleft c => inleft c | inright Hc => inright (fun _ => Hc) end
                       | right Hge => inright (fun Hlt => False_ind _ (Hge Hlt))
                       end) NT) as [c|Hall]; [left; exact c|right].
    intros t Ht. exact (Hall t Ht Ht).
  Qed.

  (* ---------------------------------------------------------------------------------------- *)
  (* the commit-phase layers.  rs = (index, remaining steps) of every query                     *)
  Definition dstep0 : fri_query_step := {| fs_evals := []; fs_siblings := [] |}.

  Definition O_layer (s a : nat) (rs : list (nat * list fri_query_step)) : list opnF :=
    map (fun xs => (fst xs / 2 ^ (s + a), flatten2 (fs_evals (hd dstep0 (snd xs))), fs_siblings (hd dstep0 (snd xs)))) rs.
  Definition rs_tl (rs : list (nat * list fri_query_step)) : list (nat * list fri_query_step) :=
    map (fun xs => (fst xs, tl (snd xs))) rs.

  (* what acceptance and shape validation say about the steps of one query, layer by layer *)
  Fixpoint steps_acc (lcaps : list (list digest)) (s k : nat) (arities : list nat)
           (steps : list fri_query_step) (x : nat) : Prop :=
    match arities, steps with
    | [], [] => True
    | a :: at', st :: stt =>
      exists cap lct,
        lcaps = cap :: lct /\ length (fs_evals st) = 2 ^ a /\ length (fs_siblings st) = k - a - h
        /\ vmp (flatten2 (fs_evals st)) (x / 2 ^ (s + a)) cap (fs_siblings st) = Some true
        /\ steps_acc lct (s + a) (k - a) at' stt x
    | _, _ => False
    end.

  Fixpoint LCons (s k : nat) (arities : list nat) (rs : list (nat * list fri_query_step)) : Prop :=
    match arities with
    | [] => True
    | a :: at' => OConsF (k - a) h (O_layer s a rs) /\ LCons (s + a) (k - a) at' (rs_tl rs)
    end.

  Lemma layers_dec : forall arities lcaps s k rs,
    s + k = n -> fold_right Nat.add 0 arities + h <= k -> rs <> [] ->
    (forall x sts, In (x, sts) rs -> x < 2 ^ n /\ steps_acc lcaps s k arities sts x) ->
    coll + {LCons s k arities rs}.
  Proof.
    induction arities as [|a at' IH]; intros lcaps s k rs Hsk Hsum Hne Hall; [right; exact I|].
    cbn [fold_right] in Hsum. cbn [LCons].
    destruct lcaps as [|cap lct].
    { exfalso. destruct rs as [|[x sts] r]; [contradiction|].
      destruct (Hall x sts (or_introl eq_refl)) as (_ & Hs). destruct sts as [|st stt]; cbn [steps_acc] in Hs; [exact Hs|].
      destruct Hs as (c & l & E & _). discriminate E. }
    assert (Hhead : forall x sts, In (x, sts) rs ->
              exists st stt, sts = st :: stt /\ length (fs_evals st) = 2 ^ a /\ length (fs_siblings st) = k - a - h
                /\ vmp (flatten2 (fs_evals st)) (x / 2 ^ (s + a)) cap (fs_siblings st) = Some true
                /\ steps_acc lct (s + a) (k - a) at' stt x).
    { intros x sts Hin. destruct (Hall x sts Hin) as (_ & Hs). destruct sts as [|st stt]; cbn [steps_acc] in Hs; [contradiction|].
      destruct Hs as (c & l & E & H1 & H2 & H3 & H4). injection E as <- <-. exists st, stt. auto. }
    destruct (accepted_openings_cps Fp digest H T2 digest_eqb digest_eqb_spec leaf_dec dz (k - a) h ltac:(lia) cap
                (O_layer s a rs)) as [c|HO]; [| |left; exact c|].
    - unfold O_layer. destruct rs; [contradiction|discriminate].
    - intros o Ho. unfold O_layer in Ho. apply in_map_iff in Ho. destruct Ho as ([x sts] & <- & Hin). cbn [fst snd].
      destruct (Hhead x sts Hin) as (st & stt & -> & _ & Hl & Hv & _). cbn [hd].
      apply acc_of_vmp; [|exact Hl|exact Hv].
      apply div_pow_lt. replace (s + a + (k - a)) with n by lia. exact (proj1 (Hall _ _ Hin)).
    - destruct (IH lct (s + a) (k - a) (rs_tl rs)) as [c|HL]; [lia|lia| | |left; exact c|right; split; assumption].
      + unfold rs_tl. destruct rs; [contradiction|discriminate].
      + intros x stt Hin. unfold rs_tl in Hin. apply in_map_iff in Hin. destruct Hin as ([x' sts] & E & Hin).
        cbn [fst snd] in E. injection E as <- <-. split; [exact (proj1 (Hall _ _ Hin))|].
        destruct (Hhead x' sts Hin) as (st & stt & -> & _ & _ & _ & Hrest). exact Hrest.
  Qed.

  (* the layers as functions of the coset index *)
  Fixpoint acc_layers (s k : nat) (arities : list nat) (rs : list (nat * list fri_query_step)) : list layer_fn :=
    match arities with
    | [] => []
    | a :: at' =>
      (fun c => fix_len a (unflatten2 (lfo (O_layer s a rs) c)), ptho (k - a) h (O_layer s a rs))
      :: acc_layers (s + a) (k - a) at' (rs_tl rs)
    end.

  Lemma acc_flayers_ok : forall arities s k rs,
    fold_right Nat.add 0 arities + h <= k -> flayers_ok h k arities (acc_layers s k arities rs).
  Proof.
    induction arities as [|a at' IH]; intros s k rs Hsum; cbn [fold_right] in Hsum; cbn [acc_layers flayers_ok]; [lia|].
    split; [lia|]. split; [intros c _; cbn [fst]; apply fix_len_length|]. apply IH. lia.
  Qed.

  Lemma map_fst_rs_tl rs : map fst (rs_tl rs) = map fst rs.
  Proof. unfold rs_tl. rewrite map_map. reflexivity. Qed.

  Lemma acc_lcps : forall arities lcaps s k rs,
    (forall x sts, In (x, sts) rs -> steps_acc lcaps s k arities sts x) ->
    LCons s k arities rs ->
    forall lv, In lv (levels s k arities (acc_layers s k arities rs)) ->
      CPS H T2 h (lv_k lv) (fun c => flatten2 (lv_cos lv c)) (lv_pth lv) (map (ci lv) (map fst rs)).
  Proof.
    induction arities as [|a at' IH]; intros lcaps s k rs Hall HL lv Hlv; cbn [acc_layers levels] in Hlv; [destruct Hlv|].
    cbn [LCons] in HL. destruct HL as [HO HL].
    assert (Hhead : forall x sts, In (x, sts) rs ->
              exists st stt cap lct, sts = st :: stt /\ lcaps = cap :: lct /\ length (fs_evals st) = 2 ^ a
                /\ steps_acc lct (s + a) (k - a) at' stt x).
    { intros x sts Hin. pose proof (Hall x sts Hin) as Hs. destruct sts as [|st stt]; cbn [steps_acc] in Hs; [contradiction|].
      destruct Hs as (c & l & E & H1 & H2 & H3 & H4). exists st, stt, c, l. auto. }
    destruct Hlv as [<-|Hlv].
    - cbn [lv_k lv_cos lv_pth fst snd]. destruct HO as [Hfn (cps & Ec & Ed)].
      assert (Ek : map (ox Fp digest) (O_layer s a rs)
                   = map (ci {| lv_s := s; lv_a := a; lv_k := k - a;
                                lv_cos := fun c => fix_len a (unflatten2 (lfo (O_layer s a rs) c));
                                lv_pth := ptho (k - a) h (O_layer s a rs) |}) (map fst rs)).
      { unfold O_layer. rewrite !map_map. reflexivity. }
      rewrite Ek in Ec, Ed. exists cps. split; [exact Ec|].
      rewrite <- Ed. f_equal. rewrite <- Ek. apply map_ext_in. intros c Hc.
      apply in_map_iff in Hc. destruct Hc as (o & <- & Ho).
      destruct (Hfn o Ho) as [El _].
      pose proof Ho as Ho'. unfold O_layer in Ho'. apply in_map_iff in Ho'. destruct Ho' as ([x sts] & Eo & Hin).
      destruct (Hhead x sts Hin) as (st & stt & cap & lct & -> & _ & Hlen & _). cbn [fst snd hd] in Eo. subst o.
      unfold ol, ox in *. cbn [fst snd] in *.
      rewrite <- El, unflatten2_flatten2, (fix_len_id a _ Hlen). reflexivity.
    - rewrite <- map_fst_rs_tl.
      destruct rs as [|[x0 sts0] r0] eqn:Ers.
      + (* no queries: every CPS statement is about the empty key list; not needed, but true only
           vacuously - the caller has rs <> [] *)
        cbn [map]. destruct (IH [] (s + a) (k - a) (rs_tl []) ltac:(intros x sts []) HL lv Hlv) as (cps & E1 & E2).
        exists cps. split; assumption.
      + destruct (Hhead x0 sts0 (or_introl eq_refl)) as (_ & _ & cap & lct & _ & Elc & _).
        rewrite <- Ers in *. apply (IH lct (s + a) (k - a) (rs_tl rs)); [|exact HL|exact Hlv].
        intros x stt Hin. unfold rs_tl in Hin. apply in_map_iff in Hin. destruct Hin as ([x' sts] & E & Hin).
        cbn [fst snd] in E. injection E as <- <-.
        destruct (Hhead x' sts Hin) as (st & stt & cap' & lct' & -> & Elc' & _ & Hrest).
        rewrite Elc in Elc'. injection Elc' as <- <-. exact Hrest.
  Qed.

  Lemma acc_gen_steps : forall arities lcaps s k rs,
    (forall x sts, In (x, sts) rs -> steps_acc lcaps s k arities sts x) ->
    LCons s k arities rs ->
    forall x sts, In (x, sts) rs -> sts = gen_steps (levels s k arities (acc_layers s k arities rs)) x.
  Proof.
    induction arities as [|a at' IH]; intros lcaps s k rs Hall HL x sts Hin.
    - pose proof (Hall x sts Hin) as Hs. destruct sts; cbn [steps_acc] in Hs; [reflexivity|contradiction].
    - cbn [LCons] in HL. destruct HL as [HO HL]. cbn [acc_layers levels gen_steps map].
      pose proof (Hall x sts Hin) as Hs. destruct sts as [|st stt]; cbn [steps_acc] in Hs; [contradiction|].
      destruct Hs as (cap & lct & Elc & Hlen & _ & _ & Hrest).
      assert (Ho : In (x / 2 ^ (s + a), flatten2 (fs_evals st), fs_siblings st) (O_layer s a rs)).
      { unfold O_layer. apply in_map_iff. exists (x, st :: stt). split; [reflexivity|exact Hin]. }
      destruct (proj1 HO _ Ho) as [El Ep]. unfold ol, ox, op in El, Ep. cbn [fst snd] in El, Ep.
      f_equal.
      + unfold coset, lopen, ci. cbn [lv_s lv_a lv_cos lv_pth fst snd].
        rewrite <- El, <- Ep, unflatten2_flatten2, (fix_len_id a _ Hlen). destruct st; reflexivity.
      + fold (gen_steps (levels (s + a) (k - a) at' (acc_layers (s + a) (k - a) at' (rs_tl rs))) x).
        apply (IH lct (s + a) (k - a) (rs_tl rs)); [|exact HL|].
        * intros x' stt' Hin'. unfold rs_tl in Hin'. apply in_map_iff in Hin'. destruct Hin' as ([x'' sts''] & E & Hin').
          cbn [fst snd] in E. injection E as <- <-.
          pose proof (Hall x'' sts'' Hin') as Hs'. destruct sts'' as [|st' stt'']; cbn [steps_acc] in Hs'; [contradiction|].
          destruct Hs' as (cap' & lct' & Elc' & _ & _ & _ & Hrest'). rewrite Elc in Elc'. injection Elc' as <- <-.
          exact Hrest'.
        * unfold rs_tl. apply in_map_iff. exists (x, st :: stt). split; [reflexivity|exact Hin].
  Qed.
End Accepted.

(* ======================================================================================== *)
Section Final.
  Variable H : list Fp -> digest.
  Variable T2 : digest -> digest -> digest.

  Lemma steps_accept_acc h : forall arities steps caps betas layer s k x sx oe r,
    steps_accept H T2 caps steps arities betas layer (x / 2 ^ s) sx oe r ->
    steps_shape_ok steps arities k h = true ->
    fold_right Nat.add 0 arities + h <= k ->
    steps_acc H T2 h (skipn layer caps) s k arities steps x.
  Proof.
    induction arities as [|a at' IH]; intros steps caps betas layer s k x sx oe r Hacc Hsh Hsum.
    - destruct steps; cbn [steps_shape_ok] in Hsh; [exact I|discriminate Hsh].
    - destruct steps as [|st stt]; cbn [steps_accept] in Hacc; [contradiction|].
      destruct Hacc as (beta & cap & ev & _ & Hcap & _ & _ & Hv & Hk).
      cbn [steps_shape_ok] in Hsh. apply andb_prop in Hsh. destruct Hsh as [Hsh Hrest].
      apply andb_prop in Hsh. destruct Hsh as [Hlen Hsl]. apply Nat.eqb_eq in Hlen. apply Nat.eqb_eq in Hsl.
      cbn [fold_right] in Hsum. cbn [steps_acc].
      exists cap, (skipn (S layer) caps). rewrite div_pow_add in Hv, Hk.
      split; [apply skipn_nth_error; exact Hcap|]. split; [exact Hlen|]. split; [lia|]. split; [exact Hv|].
      apply (IH stt caps betas (S layer) (s + a) (k - a) x _ _ _ Hk Hrest). lia.
  Qed.

  Lemma map_fst_combine_len {A B} : forall (a : list A) (b : list B), length a = length b -> map fst (combine a b) = a.
  Proof.
    induction a as [|x a IH]; intros [|y b] Hl; cbn [length] in Hl; try discriminate; [reflexivity|].
    cbn [combine map fst]. f_equal. apply IH. lia.
  Qed.

  Lemma map_snd_combine_len {A B} : forall (a : list A) (b : list B), length a = length b -> map snd (combine a b) = b.
  Proof.
    induction a as [|x a IH]; intros [|y b] Hl; cbn [length] in Hl; try discriminate; [reflexivity|].
    cbn [combine map snd]. f_equal. apply IH. lia.
  Qed.

  (* accepted by verify_fri_proof  =>  a hash collision (as a value), or the round trip *)
  Theorem accepted_round_trip_or_collision inst openings ch caps pr p :
    verify_fri_proof H T2 inst openings ch caps pr p = inl tt ->
    inst_wf inst ->
    length (fri_query_indices ch) = length (fp_rounds pr) ->
    fri_query_indices ch <> [] ->
    (forall x, In x (fri_query_indices ch) -> x < 2 ^ lde_bits p) ->
    length (oracles inst) <= length caps ->
    total_arities p + cap_height (config p) <= lde_bits p ->
    fri_collision H T2
    + {exists cp inferred,
         compress pr (fri_query_indices ch) p = Some cp
         /\ get_inferred_elements inst openings ch cp p = Some inferred
         /\ decompress H T2 cp (fri_query_indices ch) inferred p = Some pr}.
  Proof.
    intros Hacc Hwf Hlen Hne Hlt Hcaps Hsum.
    set (idx := fri_query_indices ch) in *. set (rounds := fp_rounds pr) in *.
    set (h := cap_height (config p)) in *. set (n := lde_bits p) in *.
    set (arities := reduction_arity_bits p) in *. set (NT := length (oracles inst)) in *.
    set (xqs := combine idx rounds).
    set (rs := map (fun xq : nat * fri_query_round => (fst xq, qr_steps (snd xq))) xqs).
    unfold total_arities in Hsum. fold arities in Hsum.
    assert (Hhn : h <= n) by lia.
    pose proof (accepted_fold_ok H T2 inst openings ch caps pr p Hwf Hacc Hlen) as Hfold.
    pose proof (proj1 (accept_iff_all_checks H T2 inst openings ch caps pr p) Hacc) as (Hshape & _ & _ & Hrounds).
    unfold validate_fri_proof_shape in Hshape.
    apply andb_prop in Hshape. destruct Hshape as [Hshape _]. apply andb_prop in Hshape. destruct Hshape as [_ Hrs].
    rewrite forallb_forall in Hrs.
    (* what acceptance says about every (index, round) *)
    assert (Hxq : forall x q, In (x, q) xqs ->
              x < 2 ^ n /\ round_shape_ok inst p q = true
              /\ exists i, fri_verifier_query_round H T2 inst ch (precomputed_reduced_openings openings (fri_alpha ch))
                             caps pr p i x q = inl tt).
    { intros x q Hin. destruct (in_combine_nth _ _ _ _ Hin) as (i & Hx & Hq).
      split; [apply Hlt; exact (nth_error_In _ _ Hx)|]. split; [apply Hrs; exact (nth_error_In _ _ Hq)|].
      exists i. exact (Hrounds i x q Hx Hq). }
    assert (Hxne : xqs <> []).
    { unfold xqs. destruct idx as [|x0 ir]; [contradiction|]. destruct rounds as [|q0 rr]; [discriminate Hlen|discriminate]. }
    assert (HI : forall x q, In (x, q) xqs ->
              x < 2 ^ n /\ length (qr_initial q) = NT
              /\ forall t ev sb, nth_error (qr_initial q) t = Some (ev, sb) ->
                   length sb = n - h /\ exists cap, nth_error caps t = Some cap
                                                    /\ Fri.verify_merkle_proof_to_cap H T2 ev x cap sb = Some true).
    { intros x q Hin. destruct (Hxq x q Hin) as (Hx & Hsq & i & Hqr). split; [exact Hx|].
      apply round_accept_iff in Hqr. destruct Hqr as (Hinit & _).
      unfold round_shape_ok in Hsq. apply andb_prop in Hsq. destruct Hsq as [Hsq _].
      apply andb_prop in Hsq. destruct Hsq as [Hsq _]. apply andb_prop in Hsq. destruct Hsq as [Hl Hleaf].
      apply Nat.eqb_eq in Hl. split; [exact Hl|].
      intros t ev sb Hn.
      assert (Ht : t < NT) by (unfold NT; rewrite <- Hl; apply nth_error_Some; rewrite Hn; discriminate).
      assert (Hll : exists len, nth_error (leaf_lens inst p) t = Some len).
      { unfold leaf_lens. rewrite nth_error_map. destruct (nth_error (oracles inst) t) eqn:Eo; [eexists; reflexivity|].
        apply nth_error_None in Eo. unfold NT in Ht. lia. }
      destruct Hll as (len & Hll).
      pose proof (forallb_combine_nth _ _ _ _ _ _ Hleaf Hn Hll) as Hf. cbn [fst snd] in Hf.
      apply andb_prop in Hf. destruct Hf as [_ Hf]. apply Nat.eqb_eq in Hf.
      split; [fold h n in Hf; lia|].
      destruct (nth_error caps t) as [cap|] eqn:Ec.
      - exists cap. split; [reflexivity|]. exact (Hinit t ev sb cap Hn Ec).
      - apply nth_error_None in Ec. lia. }
    assert (HS : forall x sts, In (x, sts) rs -> x < 2 ^ n /\ steps_acc H T2 h (fp_caps pr) 0 n arities sts x).
    { intros x sts Hin. unfold rs in Hin. apply in_map_iff in Hin. destruct Hin as ([x' q] & E & Hin).
      cbn [fst snd] in E. injection E as <- <-. destruct (Hxq x' q Hin) as (Hx & Hsq & i & Hqr). split; [exact Hx|].
      apply round_accept_iff in Hqr. destruct Hqr as (_ & oe & sx & ev & _ & Hst & _).
      unfold round_shape_ok in Hsq. apply andb_prop in Hsq. destruct Hsq as [_ Hss].
      pose proof (steps_accept_acc h arities (qr_steps q) (fp_caps pr) (fri_betas ch) 0 0 n x') as Hsa.
      rewrite Nat.pow_0_r, Nat.div_1_r in Hsa. apply (Hsa _ _ _ Hst Hss). lia. }
    destruct (init_all_dec H T2 h n xqs Hxne NT caps Hhn HI) as [c|HOI]; [left; exact c|].
    destruct (layers_dec H T2 h n Hhn arities (fp_caps pr) 0 n rs eq_refl Hsum
                ltac:(unfold rs; destruct xqs; [contradiction|discriminate]) HS) as [c|HL]; [left; exact c|].
    right.
    assert (Efst : map fst xqs = idx) by (apply map_fst_combine_len; exact Hlen).
    assert (Esnd : map snd xqs = rounds) by (apply map_snd_combine_len; exact Hlen).
    assert (Ers : map fst rs = idx) by (unfold rs; rewrite map_map; exact Efst).
    set (ileaf := fun t => lf_of Fp digest (O_init xqs t)).
    set (ipath := fun t => pth_of Fp digest H T2 dz n h (O_init xqs t)).
    set (layers := acc_layers H T2 h 0 n arities rs).
    assert (HS' : forall x sts, In (x, sts) rs -> steps_acc H T2 h (fp_caps pr) 0 n arities sts x)
      by (intros x sts Hin; exact (proj2 (HS x sts Hin))).
    apply (round_trip_gen H T2 h n NT ileaf ipath idx Hne Hlt) with (arities := arities) (layers := layers);
      try reflexivity; try exact Hfold.
    - intros t Ht. destruct (HOI t Ht) as [_ (cps & Ec & Ed)].
      assert (Ek : map (ox Fp digest) (O_init xqs t) = idx) by (unfold O_init; rewrite map_map; exact Efst).
      rewrite Ek in Ec, Ed. exists cps. split; assumption.
    - apply (acc_flayers_ok H T2 h n Hhn). exact Hsum.
    - intros lv Hlv. rewrite <- Ers. exact (acc_lcps H T2 h arities (fp_caps pr) 0 n rs HS' HL lv Hlv).
    - fold rounds. rewrite <- Esnd, <- Efst, map_map. apply map_ext_in. intros [x q] Hin. cbn [fst snd].
      destruct (HI x q Hin) as (_ & Hl & _).
      assert (Hq1 : qr_initial q = gen_initial NT ileaf ipath x).
      { unfold gen_initial. rewrite <- (map_id (qr_initial q)) at 1.
        rewrite (map_nth_seq (fun e => e) d0 (qr_initial q)). rewrite Hl.
        apply map_ext_in. intros t Ht. apply in_seq in Ht.
        assert (Ho : In (x, fst (nth t (qr_initial q) d0), snd (nth t (qr_initial q) d0)) (O_init xqs t)).
        { unfold O_init. apply in_map_iff. exists (x, q). split; [reflexivity|exact Hin]. }
        destruct (proj1 (HOI t ltac:(lia)) _ Ho) as [El Ep]. unfold ol, ox, op in El, Ep. cbn [fst snd] in El, Ep.
        unfold ileaf, ipath. rewrite <- El, <- Ep. destruct (nth t (qr_initial q) d0); reflexivity. }
      assert (Hq2 : qr_steps q = gen_steps (levels 0 n arities layers) x).
      { apply (acc_gen_steps H T2 h arities (fp_caps pr) 0 n rs HS' HL x (qr_steps q)).
        unfold rs. apply in_map_iff. exists (x, q). split; [reflexivity|exact Hin]. }
      destruct q as [qi qs]. cbn [qr_initial qr_steps] in Hq1, Hq2. unfold gen_round. congruence.
  Qed.
End Final.
