From Coq Require Import List Arith Bool Lia.
From Verif Require Import Model.Dedup.
Import ListNotations.

Section DedupProofs.
  Variable V : Type.
  Notation lookup := (lookup V).
  Notation or_insert := (or_insert V).
  Notation compress := (compress V).
  Notation decompress := (decompress V).
  Notation consistent := (consistent V).

  Lemma lookup_app m1 m2 k :
    lookup (m1 ++ m2) k = match lookup m1 k with Some v => Some v | None => lookup m2 k end.
  Proof.
    induction m1 as [|[k' v] t IH]; simpl; [reflexivity|].
    destruct (Nat.eqb k k'); [reflexivity|apply IH].
  Qed.

  Lemma lookup_In m k v : lookup m k = Some v -> In (k, v) m.
  Proof.
    induction m as [|[k' v'] t IH]; simpl; [discriminate|].
    destruct (Nat.eqb_spec k k') as [->|Hne]; intros E.
    - inversion E; subst. left; reflexivity.
    - right. apply IH. exact E.
  Qed.

  Lemma or_insert_keeps m k v k0 v0 : lookup m k0 = Some v0 -> lookup (or_insert m k v) k0 = Some v0.
  Proof.
    intros H. unfold or_insert. destruct (lookup m k); [exact H|].
    rewrite lookup_app, H. reflexivity.
  Qed.

  Lemma or_insert_In m k v kv : In kv (or_insert m k v) -> In kv m \/ kv = (k, v).
  Proof.
    unfold or_insert. destruct (lookup m k); [tauto|].
    rewrite in_app_iff. simpl. intuition.
  Qed.

  Lemma or_insert_bound m k v : exists v', lookup (or_insert m k v) k = Some v'.
  Proof.
    unfold or_insert. destruct (lookup m k) eqn:E; [eauto|].
    exists v. rewrite lookup_app, E. simpl. rewrite Nat.eqb_refl. reflexivity.
  Qed.

  (* invariant of the fold: every binding of the map comes from m0 or from the processed prefix,
     and bindings once present never change *)
  Lemma fold_keeps l : forall m k v,
    lookup m k = Some v ->
    lookup (fold_left (fun m kv => or_insert m (fst kv) (snd kv)) l m) k = Some v.
  Proof.
    induction l as [|[k' v'] t IH]; intros m k v H; simpl; [exact H|].
    apply IH. apply or_insert_keeps. exact H.
  Qed.

  Lemma fold_In l : forall m kv,
    In kv (fold_left (fun m kv => or_insert m (fst kv) (snd kv)) l m) -> In kv m \/ In kv l.
  Proof.
    induction l as [|[k' v'] t IH]; intros m kv H; simpl in *; [tauto|].
    apply IH in H. destruct H as [H|H]; [|tauto].
    apply or_insert_In in H. simpl in H. intuition.
  Qed.

  Lemma fold_bound l : forall m k v, In (k, v) l ->
    exists v', lookup (fold_left (fun m kv => or_insert m (fst kv) (snd kv)) l m) k = Some v'.
  Proof.
    induction l as [|[k' v'] t IH]; intros m k v H; simpl in *; [tauto|].
    destruct H as [H|H].
    - inversion H; subst. destruct (or_insert_bound m k v) as (v'' & E).
      exists v''. apply fold_keeps. exact E.
    - eapply IH. exact H.
  Qed.

  (* lossless on consistent data: every query gets its own data back *)
  Theorem decompress_compress l : consistent l ->
    decompress (compress l) (map fst l) = map (fun kv => Some (snd kv)) l.
  Proof.
    intros Hc. unfold decompress, compress. rewrite map_map.
    apply map_ext_in. intros [k v] Hin. simpl.
    destruct (fold_bound l [] k v Hin) as (v' & E). rewrite E. f_equal.
    apply lookup_In in E. apply fold_In in E. destruct E as [E|E]; [inversion E|].
    exact (Hc k v' v E Hin).
  Qed.

  (* and lossy exactly on inconsistent data: a later query whose data differ from the first
     occurrence of its key is replaced by the first occurrence *)
  Theorem compress_first_wins k v1 v2 l : v1 <> v2 ->
    decompress (compress ((k, v1) :: l ++ [(k, v2)])) [k] = [Some v1].
  Proof.
    intros _. unfold decompress, compress. simpl.
    rewrite (fold_keeps (l ++ [(k, v2)]) (or_insert [] k v1) k v1); [reflexivity|].
    unfold or_insert. simpl. rewrite Nat.eqb_refl. reflexivity.
  Qed.
End DedupProofs.
