(* Executable model of the batched FRI verifier (plonky2/src/batch_fri/verifier.rs): one FRI proof
   for instances of decreasing degrees; the reduced openings of a smaller instance enter the fold
   at the layer where the codeword has shrunk to its size:  old_eval * beta_i + eval.
   Reuses Model/Fri.v; the initial Merkle check is the batch proof of Model/Merkle.v. *)
From Coq Require Import ZArith List Bool Lia.
From Verif Require Import Base.Field Base.Reader Gen.FieldConsts Model.Fp Model.Fp2 Model.FieldGeneric
  Model.PoseidonSpec Model.Fri Model.Plonk Model.C05Run.
From Verif Require Model.Merkle.
Import ListNotations.
Local Open Scope nat_scope.

Section WithHash.
  Variable hash_or_noop : list Fp -> digest.
  Variable two_to_one : digest -> digest -> digest.
  Local Open Scope field_scope.

  Definition bverify_initial (degree_bits : list nat) (insts : list fri_instance) (x_index : nat)
             (initial : list (list Fp * list digest)) (caps : list (list digest)) (round : nat) : res unit :=
    let fix go (oi : nat) (ini : list (list Fp * list digest)) (cs : list (list digest)) : res unit :=
        match ini, cs with
        | (evals, sibs) :: it, cap :: ct =>
          (* leaves of this oracle: consecutive slices of `evals`, one per instance *)
          let leaves := fst (fold_left (fun (st : list (list Fp) * nat) inst =>
                                         let '(acc, off) := st in
                                         let np := num_polys (nth oi (oracles inst) {| num_polys := 0; blinding := false |}) in
                                         (acc ++ [firstn np (skipn off evals)], (off + np)%nat))
                                      insts ([], 0%nat)) in
          match Merkle.verify_batch_merkle_proof_to_cap Fp digest hash_or_noop two_to_one digest_eqb (fun d => d)
                                                        false leaves degree_bits x_index cap sibs with
          | Merkle.VOk => go (S oi) it ct
          | Merkle.VErr => err (EInitialMerkle round oi)
          | Merkle.VPanic => err (EPanic 20)
          end
        | _, _ => ok tt
        end in
    go 0%nat initial caps.

  Definition subgroup_point (n x_index : nat) : Fp :=
    coset_shift * exp_u64 (primitive_root_of_unity n) (N.of_nat (reverse_bits x_index n)).

  (* the loop of batch_fri_verifier_query_round *)
  Fixpoint bquery_steps (round : nat) (degree_bits : list nat) (insts : list fri_instance)
           (reduced : list (list Fp2)) (alpha : Fp2) (p : fri_params) (initial : list (list Fp * list digest))
           (caps : list (list digest)) (steps : list fri_query_step) (arities : list nat) (betas : list Fp2)
           (layer : nat) (x_index n batch_index : nat) (subgroup_x : Fp) (old_eval : Fp2)
    : res (Fp * Fp2 * nat) :=
    match arities, steps with
    | [], _ => ok (subgroup_x, old_eval, batch_index)
    | a :: at', s :: st =>
      let arity := (2 ^ a)%nat in
      let coset_index := (x_index / arity)%nat in
      let within := (x_index mod arity)%nat in
      match nth_error (fs_evals s) within, nth_error betas layer, nth_error caps layer with
      | Some e, Some beta, Some cap =>
        do! _ <- ensure (e =? old_eval) (EConsistency round layer) ;;
        do! ev <- compute_evaluation subgroup_x within a (fs_evals s) beta ;;
        match verify_merkle_proof_to_cap hash_or_noop two_to_one (flatten2 (fs_evals s)) coset_index cap (fs_siblings s) with
        | None => err (EPanic 2)
        | Some false => err (EStepMerkle round layer)
        | Some true =>
          let sx := exp_power_of_2 subgroup_x a in
          let n' := (n - a)%nat in
          let inject := Nat.ltb batch_index (length degree_bits) && Nat.eqb n' (nth batch_index degree_bits 0%nat) in
          if inject then
            match nth_error insts batch_index, nth_error reduced batch_index with
            | Some inst, Some red =>
              do! ev2 <- fri_combine_initial inst p initial alpha (subgroup_point n' coset_index) red ;;
              bquery_steps round degree_bits insts reduced alpha p initial caps st at' betas (S layer)
                           coset_index n' (S batch_index) sx (ev * beta + ev2)
            | _, _ => err (EPanic 21)
            end
          else
            bquery_steps round degree_bits insts reduced alpha p initial caps st at' betas (S layer)
                         coset_index n' batch_index sx ev
        end
      | _, _, _ => err (EPanic 3)
      end
    | _ :: _, [] => err (EPanic 4)
    end.

  Definition bquery_round (degree_bits : list nat) (insts : list fri_instance) (ch : fri_challenges)
             (reduced : list (list Fp2)) (initial_caps : list (list digest)) (pr : fri_proof) (p : fri_params)
             (round x_index : nat) (q : fri_query_round) : res unit :=
    do! _ <- bverify_initial degree_bits insts x_index (qr_initial q) initial_caps round ;;
    let n := nth 0 degree_bits 0%nat in
    let sx := subgroup_point n x_index in
    match insts, reduced with
    | inst0 :: _, red0 :: _ =>
      do! old_eval <- fri_combine_initial inst0 p (qr_initial q) (fri_alpha ch) sx red0 ;;
      do! r <- bquery_steps round degree_bits insts reduced (fri_alpha ch) p (qr_initial q) (fp_caps pr) (qr_steps q)
                            (reduction_arity_bits p) (fri_betas ch) 0 x_index n 1 sx old_eval ;;
      let '(sx', ev, bi) := r in
      if negb (Nat.eqb bi (length insts)) then err (EPanic 22)       (* assert_eq!: wrong number of folded instances *)
      else ensure (peval2 (fp_final pr) (fp2_of_base sx') =? ev) (EFinal round)
    | _, _ => err (EPanic 23)
    end.

  Fixpoint bverify_rounds degree_bits insts ch reduced initial_caps pr p (round : nat)
           (idxs : list nat) (rounds : list fri_query_round) : res unit :=
    match idxs, rounds with
    | i :: it, q :: qt =>
      do! _ <- bquery_round degree_bits insts ch reduced initial_caps pr p round i q ;;
      bverify_rounds degree_bits insts ch reduced initial_caps pr p (S round) it qt
    | _, _ => ok tt
    end.

  (* validate_batch_fri_proof_shape: leaf lengths are summed over the instances *)
  Definition bleaf_lens (insts : list fri_instance) (p : fri_params) : list nat :=
    match insts with
    | [] => []
    | i0 :: _ =>
      map (fun oi => fold_right Nat.add 0%nat
                       (map (fun inst => let o := nth oi (oracles inst) {| num_polys := 0; blinding := false |} in
                                         (num_polys o + salt_size (blinding o && hiding p))%nat) insts))
          (seq 0 (length (oracles i0)))
    end.

  Definition bround_shape_ok (insts : list fri_instance) (p : fri_params) (q : fri_query_round) : bool :=
    let ch := cap_height (config p) in
    forallb (fun inst => Nat.eqb (length (qr_initial q)) (length (oracles inst))) insts
    && forallb (fun pr => Nat.eqb (length (fst (fst pr))) (snd pr)
                          && Nat.eqb (length (snd (fst pr)) + ch) (lde_bits p))
               (combine (qr_initial q) (bleaf_lens insts p))
    && Nat.eqb (length (qr_steps q)) (length (reduction_arity_bits p))
    && steps_shape_ok (qr_steps q) (reduction_arity_bits p) (lde_bits p) ch.

  Definition validate_batch_shape (insts : list fri_instance) (p : fri_params) (pr : fri_proof) : bool :=
    Nat.eqb (length (fp_caps pr)) (length (reduction_arity_bits p))
    && forallb (fun c => Nat.eqb (length c) (2 ^ cap_height (config p))) (fp_caps pr)
    && forallb (bround_shape_ok insts p) (fp_rounds pr)
    && Nat.eqb (length (fp_final pr)) (final_poly_len p).

  Definition verify_batch_fri_proof (degree_bits : list nat) (insts : list fri_instance)
             (openings : list (list (list Fp2))) (ch : fri_challenges) (initial_caps : list (list digest))
             (pr : fri_proof) (p : fri_params) : res unit :=
    do! _ <- ensure (validate_batch_shape insts p pr) (EShape 0) ;;
    do! _ <- ensure (pow_ok (fri_pow_response ch) (proof_of_work_bits (config p))) EPow ;;
    do! _ <- ensure (Nat.eqb (num_query_rounds (config p)) (length (fp_rounds pr))) ENumRounds ;;
    let reduced := map (fun o => precomputed_reduced_openings o (fri_alpha ch)) openings in
    let dbits := map (fun d => (d + rate_bits (config p))%nat) degree_bits in
    bverify_rounds dbits insts ch reduced initial_caps pr p 0 (fri_query_indices ch) (fp_rounds pr).
End WithHash.

Definition run_batchfriverify (a : list Z) : option (list Z) :=
  let rd :=
      rdo dbits <- rd_list rd_nat ;;
      rdo insts <- rd_list rd_instance_fri ;;
      rdo ops <- rd_list (rd_list (rd_list rd_fp2)) ;;
      rdo ch <- rd_fri_challenges ;;
      rdo caps <- rd_list rd_cap ;;
      rdo pr <- rd_fri_proof ;;
      rdo p <- rd_fri_params ;;
      rret (dbits, insts, ops, ch, caps, pr, p) in
  match run_reader rd a with
  | Some (dbits, insts, ops, ch, caps, pr, p) =>
    match fri_code (verify_batch_fri_proof p_hash_or_noop p_two_to_one dbits insts ops ch caps pr p) with
    | Some c => Some [c]
    | None => None
    end
  | None => None
  end.
