(* C02 correspondence: the real util::partial_products::check_partial_products (via
   plonk::verif_hooks) on random Fp2 inputs vs Model/Permutation.v.
   cpp: max_degree  #nums nums..  #dens dens..  #partials partials..  z_x z_gx  -> the terms; None = panic (zip_eq) *)
From Coq Require Import ZArith List.
From Verif Require Import Base.Field Base.Reader Model.Fp Model.Fp2 Model.Permutation.
Import ListNotations.
Open Scope Z_scope.

Definition c02_rd_fp2 : R Fp2 := rdo a <- rd_z ;; rdo b <- rd_z ;; rret (fp2_of_Z a b).

Definition run_cpp (a : list Z) : option (list Z) :=
  let r :=
    rdo md <- rd_nat ;;
    rdo nums <- rd_list c02_rd_fp2 ;; rdo dens <- rd_list c02_rd_fp2 ;; rdo parts <- rd_list c02_rd_fp2 ;;
    rdo zx <- c02_rd_fp2 ;; rdo zgx <- c02_rd_fp2 ;;
    rret (check_partial_products nums dens parts zx zgx md) in
  match run_reader r a with
  | Some (Some ts) => Some (flat_map (fun x => [fval (fst x); fval (snd x)]) ts)
  | _ => None
  end.
