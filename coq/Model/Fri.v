(* Executable model of the FRI verifier (plonky2/src/fri/{verifier,validate_shape,challenges}.rs,
   hash/merkle_proofs.rs verify_merkle_proof_to_cap, field/src/interpolation.rs) over the
   Goldilocks field and its quadratic extension, with the hash functions as parameters.
   The order of checks is the code's; the result names the first failing check. *)
From Coq Require Import ZArith List Bool Lia.
From Verif Require Import Base.Field Gen.FieldConsts Model.Fp Model.Fp2 Model.FieldGeneric.
Import ListNotations.
Local Open Scope nat_scope.

Definition digest := list Fp.

Inductive strategy : Type :=
| Fixed (arities : list nat)
| ConstantArityBits (arity_bits final_poly_bits : nat)
| MinSize (max_arity_bits : option nat).

Record fri_config := {
  rate_bits : nat; cap_height : nat; proof_of_work_bits : nat;
  reduction_strategy : strategy; num_query_rounds : nat }.

Record fri_params := {
  config : fri_config; hiding : bool; degree_bits : nat; reduction_arity_bits : list nat }.

Record fri_query_step := { fs_evals : list Fp2; fs_siblings : list digest }.
Record fri_query_round := {
  qr_initial : list (list Fp * list digest);      (* per oracle: leaf evals, Merkle path *)
  qr_steps : list fri_query_step }.
Record fri_proof := {
  fp_caps : list (list digest);
  fp_rounds : list fri_query_round;
  fp_final : list Fp2;
  fp_pow_witness : Fp }.

Record oracle_info := { num_polys : nat; blinding : bool }.
Record poly_info := { oracle_index : nat; polynomial_index : nat }.
Record batch_info := { point : Fp2; polynomials : list poly_info }.
Record fri_instance := { oracles : list oracle_info; batches : list batch_info }.
Record fri_challenges := {
  fri_alpha : Fp2; fri_betas : list Fp2; fri_pow_response : Fp; fri_query_indices : list nat }.

(* which check failed *)
Inductive fri_error : Type :=
| EShape (what : nat) | EPow | ENumRounds | EInitialMerkle (round oracle : nat)
| EConsistency (round layer : nat) | EStepMerkle (round layer : nat) | EFinal (round : nat)
| EPanic (site : nat).      (* a partial operation of the real code would fail (index, inverse of 0) *)

Definition res (A : Type) := (A + fri_error)%type.
Definition ok {A} (a : A) : res A := inl a.
Definition err {A} (e : fri_error) : res A := inr e.
Definition rbindr {A B} (m : res A) (k : A -> res B) : res B :=
  match m with inl a => k a | inr e => inr e end.
Notation "'do!' x <- m ;; k" := (rbindr m (fun x => k)) (at level 200, x pattern, right associativity).
Definition ensure (b : bool) (e : fri_error) : res unit := if b then ok tt else err e.

Definition SALT_SIZE : nat := 4.
Definition salt_size (salted : bool) : nat := if salted then SALT_SIZE else 0.
Definition lde_bits (p : fri_params) : nat := degree_bits p + rate_bits (config p).
Definition total_arities (p : fri_params) : nat := fold_right Nat.add 0 (reduction_arity_bits p).
Definition final_poly_len (p : fri_params) : nat := 2 ^ (degree_bits p - total_arities p).

(* ================= shapes and index arithmetic (no field operations) *)
(* ---- shape validation (validate_fri_proof_shape for a single instance) *)
Definition leaf_lens (inst : fri_instance) (p : fri_params) : list nat :=
  map (fun o => num_polys o + salt_size (blinding o && hiding p)) (oracles inst).

Fixpoint steps_shape_ok (steps : list fri_query_step) (arities : list nat) (cw_bits ch : nat) : bool :=
  match steps, arities with
  | [], [] => true
  | s :: st, a :: at' =>
    let cw' := cw_bits - a in
    Nat.eqb (length (fs_evals s)) (2 ^ a) && Nat.eqb (length (fs_siblings s) + ch) cw'
    && steps_shape_ok st at' cw' ch
  | _, _ => false
  end.

Definition round_shape_ok (inst : fri_instance) (p : fri_params) (q : fri_query_round) : bool :=
  let ch := cap_height (config p) in
  Nat.eqb (length (qr_initial q)) (length (oracles inst))
  && forallb (fun pr => Nat.eqb (length (fst (fst pr))) (snd pr)
                        && Nat.eqb (length (snd (fst pr)) + ch) (lde_bits p))
             (combine (qr_initial q) (leaf_lens inst p))
  && Nat.eqb (length (qr_steps q)) (length (reduction_arity_bits p))
  && steps_shape_ok (qr_steps q) (reduction_arity_bits p) (lde_bits p) ch.

Definition validate_fri_proof_shape (inst : fri_instance) (p : fri_params) (pr : fri_proof) : bool :=
  Nat.eqb (length (fp_caps pr)) (length (reduction_arity_bits p))
  && forallb (fun c => Nat.eqb (length c) (2 ^ cap_height (config p))) (fp_caps pr)
  && forallb (round_shape_ok inst p) (fp_rounds pr)
  && Nat.eqb (length (fp_final pr)) (final_poly_len p).


(* ---- reverse_bits, roots of unity *)
Fixpoint reverse_bits_aux (n bits acc : nat) : nat :=
  match bits with
  | O => acc
  | S b => reverse_bits_aux (Nat.div2 n) b (2 * acc + (if Nat.odd n then 1 else 0))
  end.
Definition reverse_bits (n bits : nat) : nat := reverse_bits_aux n bits 0.


Section WithHash.
  Variable hash_or_noop : list Fp -> digest.
  Variable two_to_one : digest -> digest -> digest.

  Local Open Scope field_scope.

  Definition digest_eqb (a b : digest) : bool :=
    Nat.eqb (length a) (length b) && forallb (fun p => (fst p =? snd p)) (combine a b).

  (* verify_merkle_proof_to_cap: the bit walk; the final cap index is what remains of the index *)
  Fixpoint merkle_walk (cur : digest) (idx : nat) (sibs : list digest) : digest * nat :=
    match sibs with
    | [] => (cur, idx)
    | s :: t =>
      let cur' := if Nat.odd idx then two_to_one s cur else two_to_one cur s in
      merkle_walk cur' (Nat.div2 idx) t
    end.

  Definition verify_merkle_proof_to_cap (leaf : list Fp) (idx : nat) (cap : list digest)
             (sibs : list digest) : option bool :=
    let '(d, ci) := merkle_walk (hash_or_noop leaf) idx sibs in
    match nth_error cap ci with
    | Some c => Some (digest_eqb d c)
    | None => None          (* merkle_cap.0[leaf_index] out of range: panic in the real code *)
    end.

  (* ---- proof of work: leading_zeros(canonical u64) >= bits  <->  value < 2^(64 - bits) *)
  Definition pow_ok (resp : Fp) (bits : nat) : bool :=
    (fval resp <? 2 ^ (64 - Z.of_nat bits))%Z.

  (* ---- reducing factor: reduce xs = sum_i alpha^i x_i (Horner from the right) *)
  Definition reduce (alpha : Fp2) (xs : list Fp2) : Fp2 :=
    fold_right (fun x acc => acc * alpha + x) 0 xs.

  Definition precomputed_reduced_openings (openings : list (list Fp2)) (alpha : Fp2) : list Fp2 :=
    map (reduce alpha) openings.

  Definition unsalted_evals (initial : list (list Fp * list digest)) (oi : nat) (salted : bool) : list Fp :=
    let ev := fst (nth oi initial ([], [])) in
    firstn (length ev - salt_size salted)%nat ev.

  (* fri_combine_initial *)
  Fixpoint combine_batches (inst : fri_instance) (p : fri_params) (initial : list (list Fp * list digest))
           (alpha subgroup_x : Fp2) (bs : list batch_info) (reduced : list Fp2) (sum : Fp2) : res Fp2 :=
    match bs, reduced with
    | b :: bt, ro :: rt =>
      let evals := map (fun pi =>
                          let salted := hiding p && blinding (nth (oracle_index pi) (oracles inst) {| num_polys := 0; blinding := false |}) in
                          fp2_of_base (nth (polynomial_index pi) (unsalted_evals initial (oracle_index pi) salted) 0))
                       (polynomials b) in
      let reduced_evals := reduce alpha evals in
      let numerator := reduced_evals - ro in
      let denominator := subgroup_x - point b in
      if (denominator =? 0) then err (EPanic 1) else
      let sum' := fpow alpha (length evals) * sum + numerator * finv denominator in
      combine_batches inst p initial alpha subgroup_x bt rt sum'
    | _, _ => ok sum
    end.

  Definition fri_combine_initial inst p initial alpha (subgroup_x : Fp) reduced : res Fp2 :=
    combine_batches inst p initial alpha (fp2_of_base subgroup_x) (batches inst) reduced 0.

  Definition two_adicity : nat := Z.to_nat TWO_ADICITY.
  Definition primitive_root_of_unity (n_log : nat) : Fp :=
    exp_power_of_2 (toFp POWER_OF_TWO_GENERATOR) (two_adicity - n_log)%nat.
  Definition coset_shift : Fp := toFp MULTIPLICATIVE_GROUP_GENERATOR.

  Definition reverse_index_bits {A} (l : list A) (d : A) (bits : nat) : list A :=
    map (fun i => nth (reverse_bits i bits) l d) (seq 0 (length l)).

  (* barycentric interpolation at beta of points (x_i, y_i) (interpolation.rs) *)
  Definition barycentric_weights (xs : list Fp2) : list Fp2 :=
    batch_multiplicative_inverse
      (map (fun i => fold_right fmul 1
                      (map (fun j => nth i xs 0 - nth j xs 0)
                           (filter (fun j => negb (Nat.eqb j i)) (seq 0 (length xs)))))
           (seq 0 (length xs))).

  Definition interpolate (xs ys : list Fp2) (x : Fp2) (ws : list Fp2) : res Fp2 :=
    match find (fun p => (fst p =? x)) (combine xs ys) with
    | Some p => ok (snd p)
    | None =>
      let l_x := fold_right fmul 1 (map (fun xi => x - xi) xs) in
      let sum := fold_right fadd 0
                   (map (fun i => nth i ws 0 * finv (x - nth i xs 0) * nth i ys 0) (seq 0 (length xs))) in
      ok (l_x * sum)
    end.

  (* compute_evaluation *)
  Definition compute_evaluation (x : Fp) (x_index_within_coset arity_bits : nat) (evals : list Fp2)
             (beta : Fp2) : res Fp2 :=
    let arity := (2 ^ arity_bits)%nat in
    let g := primitive_root_of_unity arity_bits in
    let evals' := reverse_index_bits evals 0 arity_bits in
    let rev_idx := reverse_bits x_index_within_coset arity_bits in
    let coset_start := x * exp_u64 g (N.of_nat (arity - rev_idx)%nat) in
    let xs := map (fun y => fp2_of_base (coset_start * y)) (powers g arity) in
    interpolate xs evals' beta (barycentric_weights xs).

  Definition flatten2 (l : list Fp2) : list Fp := flat_map (fun e => [fst e; snd e]) l.

  Definition peval2 (coeffs : list Fp2) (x : Fp2) : Fp2 :=
    fold_right (fun c acc => acc * x + c) 0 coeffs.

  (* the reduction loop of fri_verifier_query_round *)
  Fixpoint query_steps (round : nat) (caps : list (list digest)) (steps : list fri_query_step)
           (arities : list nat) (betas : list Fp2) (layer : nat)
           (x_index : nat) (subgroup_x : Fp) (old_eval : Fp2) : res (Fp * Fp2) :=
    match arities, steps with
    | [], _ => ok (subgroup_x, old_eval)
    | a :: at', s :: st =>
      let arity := (2 ^ a)%nat in
      let coset_index := (x_index / arity)%nat in
      let within := (x_index mod arity)%nat in
      match nth_error (fs_evals s) within, nth_error betas layer, nth_error caps layer with
      | Some e, Some beta, Some cap =>
        do! _ <- ensure (e =? old_eval) (EConsistency round layer) ;;
        do! ev <- compute_evaluation subgroup_x within a (fs_evals s) beta ;;
        match verify_merkle_proof_to_cap (flatten2 (fs_evals s)) coset_index cap (fs_siblings s) with
        | None => err (EPanic 2)
        | Some false => err (EStepMerkle round layer)
        | Some true =>
          query_steps round caps st at' betas (S layer) coset_index (exp_power_of_2 subgroup_x a) ev
        end
      | _, _, _ => err (EPanic 3)
      end
    | _ :: _, [] => err (EPanic 4)
    end.

  Fixpoint verify_initial (round : nat) (x_index : nat) (initial : list (list Fp * list digest))
           (caps : list (list digest)) (oi : nat) : res unit :=
    match initial, caps with
    | (evals, sibs) :: it, cap :: ct =>
      match verify_merkle_proof_to_cap evals x_index cap sibs with
      | None => err (EPanic 5)
      | Some false => err (EInitialMerkle round oi)
      | Some true => verify_initial round x_index it ct (S oi)
      end
    | _, _ => ok tt          (* zip: stops at the shorter list *)
    end.

  Definition fri_verifier_query_round (inst : fri_instance) (ch : fri_challenges) (reduced : list Fp2)
             (initial_caps : list (list digest)) (pr : fri_proof) (p : fri_params)
             (round x_index : nat) (q : fri_query_round) : res unit :=
    do! _ <- verify_initial round x_index (qr_initial q) initial_caps 0 ;;
    let log_n := lde_bits p in
    let subgroup_x :=
        coset_shift * exp_u64 (primitive_root_of_unity log_n) (N.of_nat (reverse_bits x_index log_n)) in
    do! old_eval <- fri_combine_initial inst p (qr_initial q) (fri_alpha ch) subgroup_x reduced ;;
    do! r <- query_steps round (fp_caps pr) (qr_steps q) (reduction_arity_bits p) (fri_betas ch) 0
                         x_index subgroup_x old_eval ;;
    let '(sx, ev) := r in
    ensure (peval2 (fp_final pr) (fp2_of_base sx) =? ev) (EFinal round).

  Fixpoint verify_rounds inst ch reduced initial_caps pr p (round : nat)
           (idxs : list nat) (rounds : list fri_query_round) : res unit :=
    match idxs, rounds with
    | i :: it, q :: qt =>
      do! _ <- fri_verifier_query_round inst ch reduced initial_caps pr p round i q ;;
      verify_rounds inst ch reduced initial_caps pr p (S round) it qt
    | _, _ => ok tt
    end.

  (* verify_fri_proof *)
  Definition verify_fri_proof (inst : fri_instance) (openings : list (list Fp2)) (ch : fri_challenges)
             (initial_caps : list (list digest)) (pr : fri_proof) (p : fri_params) : res unit :=
    do! _ <- ensure (validate_fri_proof_shape inst p pr) (EShape 0) ;;
    do! _ <- ensure (pow_ok (fri_pow_response ch) (proof_of_work_bits (config p))) EPow ;;
    do! _ <- ensure (Nat.eqb (num_query_rounds (config p)) (length (fp_rounds pr))) ENumRounds ;;
    let reduced := precomputed_reduced_openings openings (fri_alpha ch) in
    verify_rounds inst ch reduced initial_caps pr p 0 (fri_query_indices ch) (fp_rounds pr).
End WithHash.
