(* C05 correspondence, part 3: the honest model prover (Model/FriProver.v) against the real one.
   op friprove.  Input: the same dump as op friverify (instance, openings, challenges, initial caps,
   FRI proof, params - see harness/src/c05.rs `dump`) of a REAL proof produced by
   PolynomialBatch::prove_openings, followed by the coefficient vectors of the oracle polynomials
   as  n_oracles, then per oracle n_polys, then per polynomial len c_0 .. c_{len-1}.
   Output: [1] when the model prover, run with the proof's challenges and pow_witness on these
   polynomials, produces exactly the same openings, initial caps and FRI proof (caps, every query
   round with leaf values / Merkle paths / step evaluations, final polynomial); [0] when it produces
   something else; [2] when params.hiding is set (blinding is not modelled); None when the model
   prover fails or the input is malformed. *)
From Coq Require Import ZArith List Bool.
From Verif Require Import Base.Field Base.Reader Model.Fp Model.Fp2 Model.PoseidonSpec Model.Fri Model.Plonk
  Model.C05Run Model.FriProver.
Import ListNotations.
Local Open Scope nat_scope.

Definition enc_list {A} (f : A -> list Z) (l : list A) : list Z := Z.of_nat (length l) :: flat_map f l.
Definition enc_fp (x : Fp) : list Z := [fval x].
Definition enc_fp2 (x : Fp2) : list Z := [fval (fst x); fval (snd x)].
Definition enc_digest (d : digest) : list Z := enc_list enc_fp d.
Definition enc_cap (c : list digest) : list Z := enc_list enc_digest c.
Definition enc_fri_proof (pr : fri_proof) : list Z :=
  enc_list enc_cap (fp_caps pr)
  ++ enc_list (fun q => enc_list (fun il => enc_list enc_fp (fst il) ++ enc_list enc_digest (snd il)) (qr_initial q)
                        ++ enc_list (fun s => enc_list enc_fp2 (fs_evals s) ++ enc_list enc_digest (fs_siblings s))
                                    (qr_steps q))
              (fp_rounds pr)
  ++ enc_list enc_fp2 (fp_final pr) ++ enc_fp (fp_pow_witness pr).

Fixpoint zlist_eqb (a b : list Z) : bool :=
  match a, b with
  | [], [] => true
  | x :: a', y :: b' => Z.eqb x y && zlist_eqb a' b'
  | _, _ => false
  end.

Definition run_friprove (a : list Z) : option (list Z) :=
  let rd :=
      rdo inst <- rd_instance_fri ;;
      rdo ops <- rd_list (rd_list rd_fp2) ;;
      rdo ch <- rd_fri_challenges ;;
      rdo caps <- rd_list rd_cap ;;
      rdo pr <- rd_fri_proof ;;
      rdo p <- rd_fri_params ;;
      rdo polys <- rd_list (rd_list (rd_list rd_fp)) ;;
      rret (inst, ops, ch, caps, pr, p, polys) in
  match run_reader rd a with
  | Some (inst, ops, ch, caps, pr, p, polys) =>
    if hiding p then Some [2%Z] else
    match honest_prove p_hash_or_noop p_two_to_one inst p polys ch (fp_pow_witness pr) with
    | Some out =>
      let same :=
          zlist_eqb (enc_list (enc_list enc_fp2) (ho_openings out)) (enc_list (enc_list enc_fp2) ops)
          && zlist_eqb (enc_list enc_cap (ho_caps out)) (enc_list enc_cap caps)
          && zlist_eqb (enc_fri_proof (ho_proof out)) (enc_fri_proof pr) in
      Some [if same then 1%Z else 0%Z]
    | None => None
    end
  | None => None
  end.
