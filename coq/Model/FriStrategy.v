(* Executable model of plonky2/src/fri/reduction_strategies.rs
   (FriReductionStrategy::reduction_arity_bits, min_size_arity_bits, min_size_arity_bits_helper,
   relative_proof_size) and of FriConfig::fri_params (fri/mod.rs).

   Bit counts (degree_bits, rate_bits, cap_height, arities) are [nat]; the proof-size estimates
   of the MinSize search are [Z] (they are only compared with each other).
   Partial operations of the real code are visible in the outcome:
     [Panic]  - an `assert!` fails or a `usize` subtraction underflows (debug build: overflow panic;
                release build: the subtraction wraps, and in every such place of this file the very
                next `assert!` then fails, see the comments at each site);
     [NoFuel] - the model ran out of fuel.  With the fuel chosen by [reduction_arity_bits] this
                happens exactly when the real loop does not terminate (ConstantArityBits(0, _)
                whose loop condition holds pushes 0 forever), see Proofs/FriStrategy.v.
   NOT modelled: overflow of `usize` ADDITIONS / MULTIPLICATIONS / shifts (e.g. `1 << arity_bits`
   for arity_bits >= 64, or sizes beyond 2^64).  They need degree_bits + rate_bits >= 2^6 or
   astronomically many queries; [relative_proof_size_small] (Proofs/FriStrategy.v) bounds the
   estimates below 2^64 on the domain degree_bits + rate_bits <= 40, num_queries <= 2^16. *)
From Coq Require Import ZArith List Bool Lia Arith.
From Verif Require Import Model.Fri.
Import ListNotations.
Local Open Scope nat_scope.

Inductive outcome (A : Type) : Type :=
| Done (a : A)
| Panic
| NoFuel.
Arguments Done {A} a.
Arguments Panic {A}.
Arguments NoFuel {A}.

Definition sum_list (l : list nat) : nat := fold_right Nat.add 0 l.

(* ---- ConstantArityBits(arity_bits, final_poly_bits):
        while degree_bits > final_poly_bits && degree_bits + rate_bits - arity_bits >= cap_height {
            result.push(arity_bits); assert!(degree_bits >= arity_bits); degree_bits -= arity_bits; } *)
Fixpoint constant_arity_loop (fuel degree_bits rate_bits cap_height arity_bits final_poly_bits : nat)
  : outcome (list nat) :=
  match fuel with
  | O => NoFuel
  | S fuel' =>
    if final_poly_bits <? degree_bits then
      (* degree_bits + rate_bits - arity_bits underflows: debug panics here; release wraps to a
         huge value, the comparison with cap_height succeeds (cap_height < 2^64 - 2^63), the arity
         is pushed and the assert below fails *)
      if degree_bits + rate_bits <? arity_bits then Panic
      else if cap_height <=? degree_bits + rate_bits - arity_bits then
        if arity_bits <=? degree_bits then
          match constant_arity_loop fuel' (degree_bits - arity_bits) rate_bits cap_height arity_bits
                                    final_poly_bits with
          | Done l => Done (arity_bits :: l)
          | Panic => Panic
          | NoFuel => NoFuel
          end
        else Panic                                    (* assert!(degree_bits >= arity_bits) *)
      else Done []
    else Done []
  end.

(* ---- relative_proof_size *)
Definition D_EXT : Z := 4.        (* `const D: usize = 4` inside relative_proof_size *)

(* the for loop; state (current_layer_bits, total_elems); None = `current_layer_bits -= arity_bits`
   underflows (debug panic; a release build continues with the wrapped value).  The callers in
   this file never reach this case: Proofs/FriStrategy.v [relative_proof_size_some] *)
Fixpoint rps_loop (num_queries : Z) (arities : list nat) (current_layer_bits : nat) (total : Z)
  : option (nat * Z) :=
  match arities with
  | [] => Some (current_layer_bits, total)
  | a :: t =>
    let arity := (2 ^ Z.of_nat a)%Z in
    let total := (total + (arity - 1) * D_EXT * num_queries)%Z in
    let total := (total + Z.of_nat current_layer_bits * 4 * num_queries)%Z in
    if current_layer_bits <? a then None
    else rps_loop num_queries t (current_layer_bits - a) total
  end.

Definition relative_proof_size (degree_bits rate_bits : nat) (num_queries : Z) (arities : list nat)
  : option Z :=
  match rps_loop num_queries arities (degree_bits + rate_bits) 0%Z with
  | Some (clb, total) =>
    if clb <? rate_bits then None                    (* assert!(current_layer_bits >= rate_bits) *)
    else Some (total + D_EXT * 2 ^ Z.of_nat (clb - rate_bits))%Z
  | None => None
  end.

(* ---- min_size_arity_bits_helper *)
(* `for next_arity_bits in 1..=max_arity_bits { let (arity_bits, size) = helper(.., prefix ++ [next]);
        if size < best_size { best_arity_bits = arity_bits; best_size = size; } }`
   with the recursive call abstracted as [rec] *)
Fixpoint for_best (rec : nat -> outcome (list nat * Z)) (cands : list nat) (best : list nat * Z)
  : outcome (list nat * Z) :=
  match cands with
  | [] => Done best
  | next :: cs =>
    match rec next with
    | Done (ab, size) => for_best rec cs (if (size <? snd best)%Z then (ab, size) else best)
    | Panic => Panic
    | NoFuel => NoFuel
    end
  end.

Fixpoint min_size_arity_bits_helper (fuel degree_bits rate_bits : nat) (num_queries : Z)
         (global_max_arity_bits : nat) (prefix : list nat) : outcome (list nat * Z) :=
  match fuel with
  | O => NoFuel
  | S fuel' =>
    let sum_of_arities := sum_list prefix in
    (* current_layer_bits = degree_bits + rate_bits - sum_of_arities underflows: debug panic (a
       release build continues with the wrapped value); unreachable from min_size_arity_bits,
       Proofs/FriStrategy.v [min_size_helper_done] *)
    if degree_bits + rate_bits <? sum_of_arities then Panic else
    let current_layer_bits := degree_bits + rate_bits - sum_of_arities in
    if current_layer_bits <? rate_bits then Panic else    (* assert!(current_layer_bits >= rate_bits) *)
    match relative_proof_size degree_bits rate_bits num_queries prefix with
    | None => Panic
    | Some best_size =>
      (* prefix.last().copied().unwrap_or(global_max_arity_bits).min(current_layer_bits - rate_bits) *)
      let max_arity_bits := Nat.min (last prefix global_max_arity_bits) (current_layer_bits - rate_bits) in
      for_best (fun next => min_size_arity_bits_helper fuel' degree_bits rate_bits num_queries
                              max_arity_bits (prefix ++ [next]))
               (seq 1 max_arity_bits) (prefix, best_size)
    end
  end.

(* min_size_arity_bits: max_arity_bits = opt_max_arity_bits.unwrap_or(4); the recursion depth is at
   most degree_bits + 1 (each level adds an arity >= 1 and the sum never exceeds degree_bits) *)
Definition min_size_arity_bits (degree_bits rate_bits : nat) (num_queries : Z)
           (opt_max_arity_bits : option nat) : outcome (list nat) :=
  let max_arity_bits := match opt_max_arity_bits with Some m => m | None => 4 end in
  match min_size_arity_bits_helper (S degree_bits) degree_bits rate_bits num_queries max_arity_bits [] with
  | Done (ab, _) => Done ab
  | Panic => Panic
  | NoFuel => NoFuel
  end.

(* ---- FriReductionStrategy::reduction_arity_bits *)
Definition reduction_arity_bits_of (s : strategy) (degree_bits rate_bits cap_height : nat) (num_queries : Z)
  : outcome (list nat) :=
  match s with
  | Fixed arities => Done arities                         (* returned as is: NOT validated *)
  | ConstantArityBits arity_bits final_poly_bits =>
    constant_arity_loop (S degree_bits) degree_bits rate_bits cap_height arity_bits final_poly_bits
  | MinSize opt_max => min_size_arity_bits degree_bits rate_bits num_queries opt_max
  end.

(* ---- FriConfig::fri_params *)
Definition fri_params_of (cfg : fri_config) (degree_bits : nat) (hiding : bool) : outcome fri_params :=
  match reduction_arity_bits_of (reduction_strategy cfg) degree_bits (rate_bits cfg) (cap_height cfg)
                                (Z.of_nat (num_query_rounds cfg)) with
  | Done ab => Done {| config := cfg; hiding := hiding; degree_bits := degree_bits;
                       reduction_arity_bits := ab |}
  | Panic => Panic
  | NoFuel => NoFuel
  end.
