(* C15 model, part 3: PolynomialCoeffs / PolynomialValues operations of
   /repo/field/src/polynomial/mod.rs and division.rs, /repo/field/src/interpolation.rs,
   /repo/field/src/zero_poly_coset.rs and /repo/field/src/cosets.rs over [FieldOps] + [TwoAdic].
   Coefficient vectors are lists, low degree first, with the code's length handling (lengths are
   observable: padded / trimmed / power-of-two sized results).  [None] = panic of the real code
   (release build: `debug_assert`s are not modelled, see eval_with_powers). *)
From Coq Require Import NArith List.
From Verif Require Import Base.Field Model.FieldGeneric Model.BitRev Model.FFT.
Import ListNotations.

Section PolyOps.
  Context {F : Type} `{FO : FieldOps F} `{TA : TwoAdic F}.
  Local Open Scope field_scope.

  Notation "x <- e ;; k" := (bind e (fun x => k)) (at level 61, e at next level, right associativity).

  Definition is_zero_f (x : F) : bool := x =? 0.
  Definition is_nonzero_f (x : F) : bool := negb (x =? 0).
  (* Field::inverse = try_inverse().expect(..) *)
  Definition inverse (x : F) : option F := if x =? 0 then None else Some (finv x).

  Definition poly_is_zero (p : list F) : bool := forallb is_zero_f p.

  (* coeffs.iter().rev().fold(ZERO, |acc, &c| acc * x + c) *)
  Definition eval (coeffs : list F) (x : F) : F :=
    fold_left (fun acc c => acc * x + c) (rev coeffs) 0.

  (* let acc = coeffs[0]; coeffs[1..].iter().zip(powers).fold(acc, |acc, (&x, &c)| acc + c * x)
     (the debug_assert_eq on the lengths is not part of the release build; zip truncates) *)
  Definition eval_with_powers (coeffs powers : list F) : option F :=
    match coeffs with
    | [] => None
    | c0 :: rest => Some (fold_left (fun acc xc => acc + snd xc * fst xc) (combine rest powers) c0)
    end.

  (* (0..len).rev().find(|&i| coeffs[i].is_nonzero()).map_or(0, |i| i + 1) *)
  Fixpoint degree_plus_one (p : list F) : nat :=
    match p with
    | [] => O
    | c :: p' =>
      match degree_plus_one p' with
      | O => if is_nonzero_f c then 1%nat else O
      | S d => S (S d)
      end
    end.

  Definition trimmed (p : list F) : list F := firstn (degree_plus_one p) p.
  Definition trim := trimmed.

  (* ensure!(self.len() >= len); ensure!(self.coeffs[len..].iter().all(F::is_zero)); truncate.
     Result: inl = Ok(new coeffs), inr tt = Err *)
  Definition trim_to_len (p : list F) (len : nat) : list F + unit :=
    if Nat.ltb (length p) len then inr tt
    else if forallb is_zero_f (skipn len p) then inl (firstn len p) else inr tt.

  (* coeffs.iter().rev().find(|x| x.is_nonzero()).map_or(ZERO, |x| *x) *)
  Definition lead (p : list F) : F :=
    match find is_nonzero_f (rev p) with Some x => x | None => 0 end.

  Definition poly_rev (p : list F) : list F := rev (trimmed p).

  (* impl Add for &PolynomialCoeffs *)
  Definition poly_add (a b : list F) : option (list F) :=
    let len := Nat.max (length a) (length b) in
    a' <- padded a len ;;
    b' <- padded b len ;;
    Some (zip_with fadd a' b').

  (* impl Sub: coeffs = self.padded(len); for (i, &c) in rhs.coeffs.iter().enumerate() { coeffs[i] -= c } *)
  Fixpoint sub_prefix (coeffs rhs : list F) : option (list F) :=
    match rhs with
    | [] => Some coeffs
    | c :: rhs' =>
      match coeffs with
      | [] => None
      | x :: coeffs' => match sub_prefix coeffs' rhs' with Some t => Some ((x - c) :: t) | None => None end
      end
    end.
  Definition poly_sub (a b : list F) : option (list F) :=
    let len := Nat.max (length a) (length b) in
    a' <- padded a len ;;
    sub_prefix a' b.

  (* impl Mul<F>: coeffs.iter().map(|&x| rhs * x) *)
  Definition poly_scalar_mul (a : list F) (rhs : F) : list F := map (fun x => rhs * x) a.

  (* usize::next_power_of_two *)
  Definition log2_ceil (n : N) : N := N.size (n - 1).
  Definition next_power_of_two (n : nat) : nat := Nat.pow 2 (N.to_nat (log2_ceil (N.of_nat n))).

  (* impl Mul for &PolynomialCoeffs: pad both to (len a + len b).next_power_of_two(), fft, pointwise, ifft *)
  Definition poly_mul (a b : list F) : option (list F) :=
    let new_len := next_power_of_two (length a + length b) in
    a' <- padded a new_len ;;
    b' <- padded b new_len ;;
    a_evals <- fft_with_options a' None None ;;
    b_evals <- fft_with_options b' None None ;;
    let mul_evals := zip_with fmul a_evals b_evals in
    ifft_with_options mul_evals None None.

  (* ---- division.rs *)
  (* coeffs.iter().rev().scan(ZERO, |acc, c| acc := acc * z + c; yield acc); pop; reverse *)
  Fixpoint scan_horner (l : list F) (z acc : F) : list F :=
    match l with
    | [] => []
    | c :: l' => let acc' := acc * z + c in acc' :: scan_horner l' z acc'
    end.
  Definition divide_by_linear (coeffs : list F) (z : F) : list F :=
    let bs := scan_horner (rev coeffs) z 0 in
    rev (removelast bs).

  (* slices coeffs[..l] / coeffs[l..] / drain: panic when l > len *)
  Definition slice_to (p : list F) (l : nat) : option (list F) :=
    if Nat.ltb (length p) l then None else Some (firstn l p).
  Definition slice_from (p : list F) (l : nat) : option (list F) :=
    if Nat.ltb (length p) l then None else Some (skipn l p).

  Definition inv_mod_xn_step (h : list F) (a : list F) (i : nat) : option (list F) :=
    let l := Nat.pow 2 i in
    h0 <- slice_to h l ;;
    h1 <- slice_from h l ;;
    c <- poly_mul a h0 ;;
    c <- (if Nat.eqb l (length c) then Some [0] else slice_from c l) ;;
    let h1 := trimmed h1 in
    tmp <- poly_mul a h1 ;;
    tmp <- poly_add tmp c ;;
    let tmp := trimmed (map fneg tmp) in
    b <- poly_mul a tmp ;;
    let b := trimmed b in
    let b := if Nat.ltb l (length b) then firstn l b else b in
    (* b.coeffs.resize(l, F::ZERO): the correction stays aligned at x^l (repair of /repo commit 119d559) *)
    let b := b ++ repeat 0 (l - length b) in
    Some (a ++ b).

  Definition inv_mod_xn (p : list F) (n : nat) : option (list F) :=
    if Nat.eqb n 0 then None
    else
      match p with
      | [] => None
      | c0 :: _ =>
        if is_zero_f c0 then None
        else if Nat.eqb (degree_plus_one p) 1 then (i0 <- inverse c0 ;; Some [i0])
        else
          h <- (if Nat.ltb (length p) n then padded p n else Some p) ;;
          h0 <- nth_error h 0 ;;
          i0 <- inverse h0 ;;
          a <- foldM (inv_mod_xn_step h) (seq 0 (N.to_nat (log2_ceil (N.of_nat n)))) [i0] ;;
          (* a.coeffs.drain(n..) *)
          slice_to a n
      end.

  Definition div_rem (a b : list F) : option (list F * list F) :=
    let a_d := degree_plus_one a in
    let b_d := degree_plus_one b in
    if Nat.eqb a_d 0 then Some ([0], [])
    else if Nat.eqb b_d 0 then None
    else if Nat.ltb a_d b_d then Some ([0], a)
    else if Nat.eqb b_d 1 then
      b0 <- nth_error b 0 ;;
      i0 <- inverse b0 ;;
      Some (poly_scalar_mul a i0, [])
    else
      let rev_b := poly_rev b in
      rev_b_inv <- inv_mod_xn rev_b (a_d - b_d + 1) ;;
      rhs <- slice_to (poly_rev a) (S (a_d - b_d)) ;;
      prod <- poly_mul rev_b_inv rhs ;;
      rev_q <- slice_to prod (S (a_d - b_d)) ;;
      (* rev_q.coeffs.into_iter().rev(): reversed as it is, no trim (repair of /repo commit 119d559) *)
      let q := rev rev_q in
      qb <- poly_mul q b ;;
      r <- poly_sub a qb ;;
      Some (trimmed q, trimmed r).

  (* one pass of the while loop of div_rem_long_division *)
  Fixpoint sub_scaled_at (rem : list F) (at_ : nat) (q : F) (b : list F) : option (list F) :=
    match at_ with
    | S k => match rem with
             | [] => match b with [] => Some [] | _ => None end
             | x :: rem' => match sub_scaled_at rem' k q b with Some t => Some (x :: t) | None => None end
             end
    | O =>
      match b with
      | [] => Some rem
      | d :: b' =>
        match rem with
        | [] => None
        | x :: rem' => match sub_scaled_at rem' O q b' with Some t => Some ((x - q * d) :: t) | None => None end
        end
      end
    end.

  Fixpoint long_div_loop (fuel : nat) (b : list F) (b_d : nat) (inv_lead : F) (quotient remainder : list F)
    : option (list F * list F) :=
    if orb (poly_is_zero remainder) (Nat.ltb (degree_plus_one remainder) b_d) then Some (quotient, remainder)
    else
      match fuel with
      | O => None     (* not reached: every pass lowers the degree of the remainder *)
      | S f =>
        let cur_q_coeff := lead remainder * inv_lead in
        let cur_q_degree := (degree_plus_one remainder - b_d)%nat in
        if Nat.leb (length quotient) cur_q_degree then None
        else
          let quotient := set_nth quotient cur_q_degree cur_q_coeff in
          match sub_scaled_at remainder cur_q_degree cur_q_coeff b with
          | None => None
          | Some rem' => long_div_loop f b b_d inv_lead quotient (trimmed rem')
          end
      end.

  Definition div_rem_long_division (a b : list F) : option (list F * list F) :=
    let b := trimmed b in
    let a_d := degree_plus_one a in
    let b_d := degree_plus_one b in
    if Nat.eqb a_d 0 then Some ([0], [])
    else if Nat.eqb b_d 0 then None
    else if Nat.ltb a_d b_d then Some ([0], a)
    else
      let quotient := repeat 0 (a_d - b_d + 1) in
      inv_lead <- inverse (lead b) ;;
      long_div_loop (S (length a)) b b_d inv_lead quotient a.

  (* ---- interpolation.rs *)
  (* batch_multiplicative_inverse panics (inverse of zero) iff some input is zero *)
  Definition batch_inverse_checked (xs : list F) : option (list F) :=
    if existsb is_zero_f xs then None else Some (batch_multiplicative_inverse xs).

  Definition fproduct (l : list F) : F := fold_left fmul l 1.
  Definition fsum_l (l : list F) : F := fold_left fadd l 0.

  Definition barycentric_weights (points : list (F * F)) : option (list F) :=
    let n := length points in
    let xs := map fst points in
    batch_inverse_checked
      (map (fun i =>
              fproduct (map (fun j => nthF xs i - nthF xs j)
                            (filter (fun j => negb (Nat.eqb j i)) (seq 0 n))))
           (seq 0 n)).

  Definition interpolate (points : list (F * F)) (x : F) (weights : list F) : option F :=
    match find (fun p => fst p =? x) points with
    | Some (_, y_i) => Some y_i
    | None =>
      let l_x := fproduct (map (fun p => x - fst p) points) in
      terms <- mapM (fun i =>
                       match nth_error points i, nth_error weights i with
                       | Some (x_i, y_i), Some w_i =>
                         d <- inverse (x - x_i) ;; Some (w_i * d * y_i)
                       | _, _ => None
                       end) (seq 0 (length points)) ;;
      Some (l_x * fsum_l terms)
    end.

  Definition two_adic_subgroup (n_log : nat) : option (list F) :=
    g <- primitive_root_of_unity n_log ;;
    Some (powers g (Nat.pow 2 n_log)).

  Definition interpolant (points : list (F * F)) : option (list F) :=
    let n := length points in
    let n_log := N.to_nat (log2_ceil (N.of_nat n)) in
    subgroup <- two_adic_subgroup n_log ;;
    w <- barycentric_weights points ;;
    evals <- mapM (fun x => interpolate points x w) subgroup ;;
    coeffs <- ifft_with_options evals None None ;;
    Some (trimmed coeffs).

  (* assert_ne!(a0, b0); a1 + (x - a0) * (b1 - a1) / (b0 - a0) *)
  Definition interpolate2 (a0 a1 b0 b1 x : F) : option F :=
    if a0 =? b0 then None
    else d <- inverse (b0 - a0) ;; Some (a1 + (x - a0) * (b1 - a1) * d).

  (* ---- zero_poly_coset.rs *)
  Record ZeroPolyOnCoset := {
    zp_n : F; zp_rate : N; zp_evals : list F; zp_inverses : list F }.

  (* [of_usize] = F::from_canonical_usize *)
  Definition zpoc_new (of_usize : N -> F) (n_log rate_bits : nat) : option ZeroPolyOnCoset :=
    let g_pow_n := exp_power_of_2 ta_coset_shift n_log in
    sub <- two_adic_subgroup rate_bits ;;
    let evals := map (fun x => g_pow_n * x - 1) sub in
    inverses <- batch_inverse_checked evals ;;
    Some {| zp_n := of_usize (N.shiftl 1 (N.of_nat n_log)); zp_rate := N.shiftl 1 (N.of_nat rate_bits);
            zp_evals := evals; zp_inverses := inverses |}.
  Definition zpoc_eval (z : ZeroPolyOnCoset) (i : N) : option F :=
    getN (zp_evals z) (i mod zp_rate z)%N.
  Definition zpoc_eval_inverse (z : ZeroPolyOnCoset) (i : N) : option F :=
    getN (zp_inverses z) (i mod zp_rate z)%N.
  (* self.eval(i) * (self.n * (x - ONE)).inverse() *)
  Definition zpoc_eval_l_0 (z : ZeroPolyOnCoset) (i : N) (x : F) : option F :=
    e <- zpoc_eval z i ;;
    d <- inverse (zp_n z * (x - 1)) ;;
    Some (e * d).

  (* ---- cosets.rs: num_cosets = (order - 1) / (subgroup_size as u32); assert!(num_shifts <= num_cosets);
     MULTIPLICATIVE_GROUP_GENERATOR.powers().take(num_shifts) *)
  Definition get_unique_coset_shifts (order : N) (subgroup_size num_shifts : N) : option (list F) :=
    let d := (subgroup_size mod 4294967296)%N in
    if (d =? 0)%N then None
    else
      let num_cosets := ((order - 1) / d)%N in
      if (num_cosets <? num_shifts)%N then None
      else Some (powers ta_coset_shift (N.to_nat num_shifts)).
End PolyOps.
