(* C05 correspondence, part 2: replay of FriReductionStrategy::reduction_arity_bits
   (plonky2/src/fri/reduction_strategies.rs) against Model/FriStrategy.v.

   Input formats (every entry must satisfy 0 <= z < 65536, otherwise [None]; the range check is
   done BEFORE any [Z.to_nat]):
     [0; n; a_1; ...; a_n; degree_bits; rate_bits; cap_height; num_queries]          Fixed [a_1..a_n]
     [1; arity_bits; final_poly_bits; degree_bits; rate_bits; cap_height; num_queries] ConstantArityBits
     [2; 0; degree_bits; rate_bits; cap_height; num_queries]                          MinSize(None)
     [2; 1; m; degree_bits; rate_bits; cap_height; num_queries]                       MinSize(Some m)
   Output: [Some (len :: arities)] when the model returns [Done], [None] for [Panic] / [NoFuel] /
   malformed input. *)
From Coq Require Import ZArith List.
From Verif Require Import Model.Fri Model.FriStrategy.
Import ListNotations.
Open Scope Z_scope.

Definition arity_in_range (z : Z) : bool := andb (0 <=? z) (z <? 65536).

Definition arity_out (o : outcome (list nat)) : option (list Z) :=
  match o with
  | Done l => Some (Z.of_nat (length l) :: map Z.of_nat l)
  | Panic => None
  | NoFuel => None
  end.

Definition run_strategy (s : strategy) (d r c nq : Z) : option (list Z) :=
  arity_out (reduction_arity_bits_of s (Z.to_nat d) (Z.to_nat r) (Z.to_nat c) nq).

Definition run_arity_bits (args : list Z) : option (list Z) :=
  if forallb arity_in_range args then
    match args with
    | 0 :: n :: rest =>
      let k := Z.to_nat n in
      match skipn k rest with
      | [d; r; c; nq] =>
        (* [skipn k rest] has 4 elements only if [length rest = k + 4]; the explicit test is
           redundant and kept as a guard *)
        if Nat.eqb (length rest) (k + 4)
        then run_strategy (Fixed (map Z.to_nat (firstn k rest))) d r c nq
        else None
      | _ => None
      end
    | [1; a; f; d; r; c; nq] => run_strategy (ConstantArityBits (Z.to_nat a) (Z.to_nat f)) d r c nq
    | [2; 0; d; r; c; nq] => run_strategy (MinSize None) d r c nq
    | [2; 1; m; d; r; c; nq] => run_strategy (MinSize (Some (Z.to_nat m))) d r c nq
    | _ => None
    end
  else None.

(* ---- examples *)
(* ConstantArityBits(4, 5), degree_bits 12, rate_bits 3, cap_height 4 (standard_recursion_config) *)
Example run_cab_4_5_12 : run_arity_bits [1; 4; 5; 12; 3; 4; 28] = Some [2; 4; 4].
Proof. vm_compute. reflexivity. Qed.
(* the cap height stops the loop before final_poly_bits does *)
Example run_cab_cap_stops : run_arity_bits [1; 4; 0; 12; 1; 6; 28] = Some [1; 4].
Proof. vm_compute. reflexivity. Qed.
(* ConstantArityBits(4, 2), degree_bits 3: assert!(degree_bits >= arity_bits) fails *)
Example run_cab_panic : run_arity_bits [1; 4; 2; 3; 3; 2; 28] = None.
Proof. vm_compute. reflexivity. Qed.
(* ConstantArityBits(0, 2), degree_bits 3: the real loop does not terminate (model: NoFuel) *)
Example run_cab_zero : run_arity_bits [1; 0; 2; 3; 3; 2; 28] = None.
Proof. vm_compute. reflexivity. Qed.
(* Fixed is returned as is, even when it does not fit degree_bits *)
Example run_fixed : run_arity_bits [0; 3; 1; 2; 3; 10; 3; 4; 28] = Some [3; 1; 2; 3].
Proof. vm_compute. reflexivity. Qed.
Example run_fixed_not_validated : run_arity_bits [0; 1; 5; 3; 3; 4; 28] = Some [1; 5].
Proof. vm_compute. reflexivity. Qed.
Example run_fixed_empty : run_arity_bits [0; 0; 3; 3; 4; 28] = Some [0].
Proof. vm_compute. reflexivity. Qed.
Example run_fixed_short : run_arity_bits [0; 3; 1; 2; 3; 4; 28] = None.
Proof. vm_compute. reflexivity. Qed.
Example run_fixed_long : run_arity_bits [0; 1; 1; 2; 3; 4; 28; 7] = None.
Proof. vm_compute. reflexivity. Qed.
(* MinSize *)
Example run_minsize_none : run_arity_bits [2; 0; 12; 3; 4; 28] = Some [1; 4].
Proof. vm_compute. reflexivity. Qed.
Example run_minsize_some3 : run_arity_bits [2; 1; 3; 12; 3; 4; 28] = Some [1; 3].
Proof. vm_compute. reflexivity. Qed.
Example run_minsize_20 : run_arity_bits [2; 0; 20; 3; 4; 28] = Some [4; 3; 3; 3; 3].
Proof. vm_compute. reflexivity. Qed.
Example run_minsize_16 : run_arity_bits [2; 0; 16; 1; 4; 84] = Some [2; 3; 3].
Proof. vm_compute. reflexivity. Qed.
Example run_minsize_zero_deg : run_arity_bits [2; 0; 0; 3; 4; 28] = Some [0].
Proof. vm_compute. reflexivity. Qed.
(* out of range / malformed *)
Example run_range_hi : run_arity_bits [1; 4; 5; 65536; 3; 4; 28] = None.
Proof. vm_compute. reflexivity. Qed.
Example run_range_neg : run_arity_bits [1; 4; 5; 12; -1; 4; 28] = None.
Proof. vm_compute. reflexivity. Qed.
Example run_bad_tag : run_arity_bits [3; 4; 5; 12; 3; 4; 28] = None.
Proof. vm_compute. reflexivity. Qed.
Example run_empty : run_arity_bits [] = None.
Proof. vm_compute. reflexivity. Qed.
