(* The Goldilocks prime field as a FieldOps instance: canonical residues of Z modulo
   P = ORDER (regenerated from field/src/goldilocks_field.rs), carried with a boolean
   canonicity proof so that equality is Leibniz (UIP on bool, no axiom). *)
From Coq Require Import ZArith Bool Lia Eqdep_dec Zpow_facts.
From Verif Require Import Base.Field Gen.FieldConsts.
Open Scope Z_scope.

Definition P : Z := ORDER.

Record Fp : Type := mkFp { fval : Z; fcanon : (fval mod P =? fval) = true }.

Lemma canon_mod z : (z mod P mod P =? z mod P) = true.
Proof. apply Z.eqb_eq. apply Z.mod_mod. unfold P, ORDER. lia. Qed.

Definition toFp (z : Z) : Fp := {| fval := z mod P; fcanon := canon_mod z |}.

Lemma Fp_ext a b : fval a = fval b -> a = b.
Proof.
  destruct a as [x Hx], b as [y Hy]. simpl. intros ->.
  f_equal. apply UIP_dec. apply bool_dec.
Qed.

Lemma fval_range a : 0 <= fval a < P.
Proof.
  destruct a as [x Hx]. simpl. apply Z.eqb_eq in Hx. rewrite <- Hx.
  apply Z.mod_pos_bound. unfold P, ORDER. lia.
Qed.

Lemma fval_toFp z : fval (toFp z) = z mod P. Proof. reflexivity. Qed.
Lemma toFp_fval a : toFp (fval a) = a.
Proof. apply Fp_ext. simpl. destruct a as [x Hx]. simpl. apply Z.eqb_eq. exact Hx. Qed.

(* x^(P-2) by binary exponentiation (Zpow_mod of the standard library) *)
Definition fp_inv (a : Fp) : Fp := toFp (Zpow_mod (fval a) (P - 2) P).

Global Instance FpOps : FieldOps Fp := {|
  fzero := toFp 0;
  fone := toFp 1;
  fadd a b := toFp (fval a + fval b);
  fsub a b := toFp (fval a - fval b);
  fmul a b := toFp (fval a * fval b);
  fneg a := toFp (- fval a);
  finv := fp_inv;
  feqb a b := (fval a =? fval b);
|}.
