(* Textbook Poseidon permutation over Goldilocks (width 12, x^7, 4+22+4 rounds) with the
   constants regenerated from /repo (Gen/PoseidonConsts.v), and the overwrite-mode sponge of
   plonky2/src/hash/hashing.rs.  Shared executable specification used by the Merkle / FRI /
   PLONK / STARK verifier models.  (C13 proves the optimised implementation equal to it.) *)
From Coq Require Import ZArith List Lia.
From Verif Require Import Base.Field Gen.FieldConsts Gen.PoseidonConsts Model.Fp.
Import ListNotations.
Local Open Scope field_scope.

Definition WIDTH : nat := Z.to_nat SPONGE_WIDTH.
Definition RATE : nat := Z.to_nat SPONGE_RATE.

Definition rc_fp : list Fp := map toFp ALL_ROUND_CONSTANTS.
Definition mds_circ_fp : list Fp := map toFp MDS_MATRIX_CIRC.
Definition mds_diag_fp : list Fp := map toFp MDS_MATRIX_DIAG.

Definition nthFp (l : list Fp) (i : nat) : Fp := nth i l 0.

Definition sbox (x : Fp) : Fp :=
  let x2 := x * x in let x4 := x2 * x2 in let x3 := x * x2 in x3 * x4.

Definition constant_layer (state : list Fp) (round : nat) : list Fp :=
  map (fun i => nthFp state i + nthFp rc_fp (i + WIDTH * round)) (seq 0 WIDTH).

(* row r of MDS = circulant(MDS_MATRIX_CIRC) + diag(MDS_MATRIX_DIAG):
   res_r = sum_i state[(i + r) mod 12] * circ[i] + state[r] * diag[r] *)
Definition mds_row (state : list Fp) (r : nat) : Fp :=
  fold_right fadd 0 (map (fun i => nthFp state (Nat.modulo (i + r) WIDTH) * nthFp mds_circ_fp i) (seq 0 WIDTH))
  + nthFp state r * nthFp mds_diag_fp r.
Definition mds_layer (state : list Fp) : list Fp := map (mds_row state) (seq 0 WIDTH).

Definition full_round (state : list Fp) (round : nat) : list Fp :=
  mds_layer (map sbox (constant_layer state round)).
Definition partial_round (state : list Fp) (round : nat) : list Fp :=
  let s := constant_layer state round in
  mds_layer (match s with [] => [] | x :: t => sbox x :: t end).

Fixpoint rounds (f : list Fp -> nat -> list Fp) (n : nat) (state : list Fp) (round : nat) : list Fp :=
  match n with O => state | S n' => rounds f n' (f state round) (S round) end.

Definition poseidon (input : list Fp) : list Fp :=
  let hf := Z.to_nat HALF_N_FULL_ROUNDS in
  let np := Z.to_nat N_PARTIAL_ROUNDS in
  let s1 := rounds full_round hf input 0 in
  let s2 := rounds partial_round np s1 hf in
  rounds full_round hf s2 (hf + np).

(* ---- overwrite-mode sponge (hashing.rs) over an abstract permutation *)
Section Sponge.
  Variable permute : list Fp -> list Fp.

  (* overwrite the first |chunk| elements of the state *)
  Definition overwrite (state chunk : list Fp) : list Fp := chunk ++ skipn (length chunk) state.

  Fixpoint absorb (fuel : nat) (state inputs : list Fp) : list Fp :=
    match fuel with
    | O => state
    | S fuel' =>
      match inputs with
      | [] => state
      | _ => absorb fuel' (permute (overwrite state (firstn RATE inputs))) (skipn RATE inputs)
      end
    end.

  Fixpoint squeeze (fuel : nat) (state : list Fp) (n : nat) (acc : list Fp) : list Fp :=
    match fuel with
    | O => acc
    | S fuel' =>
      let acc' := acc ++ firstn (Nat.min RATE (n - length acc)) state in
      if Nat.leb n (length acc') then acc' else squeeze fuel' (permute state) n acc'
    end.

  Definition hash_n_to_m_no_pad (inputs : list Fp) (m : nat) : list Fp :=
    let st := absorb (S (length inputs)) (repeat 0 WIDTH) inputs in
    squeeze (S m) st m [].

  Definition hash_no_pad (inputs : list Fp) : list Fp := hash_n_to_m_no_pad inputs 4.

  (* compress: state = left(4) ++ right(4) ++ zeros(4); permute; first 4 *)
  Definition two_to_one (l r : list Fp) : list Fp :=
    firstn 4 (permute (l ++ r ++ repeat 0 (WIDTH - 8))).

  (* hash_or_noop (config.rs): inputs of at most 4 elements are used verbatim, zero padded *)
  Definition hash_or_noop (inputs : list Fp) : list Fp :=
    if Nat.leb (length inputs) 4 then inputs ++ repeat 0 (4 - length inputs) else hash_no_pad inputs.

  (* hash_pad: append 1, zeros to a multiple of RATE minus one, then 1 *)
  Definition hash_pad (inputs : list Fp) : list Fp :=
    let padded := inputs ++ [1] in
    let z := Nat.modulo (RATE - Nat.modulo (S (length padded)) RATE) RATE in
    hash_no_pad (padded ++ repeat 0 z ++ [1]).
End Sponge.

Definition p_hash_no_pad := hash_no_pad poseidon.
Definition p_two_to_one := two_to_one poseidon.
Definition p_hash_or_noop := hash_or_noop poseidon.
Definition p_hash_pad := hash_pad poseidon.

(* test vector of plonky2/src/hash/poseidon_goldilocks.rs: poseidon(0^12)[0] = 0x3c18a9786cb0b359 *)
Example poseidon_test_vector_zero :
  fval (nthFp (poseidon (repeat 0 12)) 0) = 4330397376401421145%Z.
Proof. vm_compute. reflexivity. Qed.
