(* C15 model, part 2: /repo/field/src/fft.rs and the FFT-facing methods of
   /repo/field/src/polynomial/mod.rs (coset_fft, coset_ifft, lde, lde_onto_coset), over an
   abstract [FieldOps] plus the two-adic data of the `Field` trait ([TwoAdic]).

   Structure mirrors the code: fft_root_table; fft_classic = in-place bit reversal
   (Model/BitRev.v, with the element size deciding small / chunked path), the zero-tail copy loop
   `values[i] = values[i & mask]`, then the butterfly layers lg_half_m = r .. lg_n - 1, each layer
   block by block.  The packed variant's first lg_packed_width layers (`interleave`) perform the
   same butterflies `(u + omega*v, u - omega*v)` with `omega = root_table[lg_half_m][j % half_m]`
   and are modelled by the same layer function (packing is compared by correspondence only).
   [None] = the real code panics (length not a power of two, root table of the wrong length,
   root-table row too short, n_log > TWO_ADICITY, padding to a smaller length, zero shift). *)
From Coq Require Import NArith List.
From Verif Require Import Base.Field Model.FieldGeneric Model.BitRev.
Import ListNotations.

(* the constants / trait methods of `Field` that fft.rs uses *)
Class TwoAdic (F : Type) : Type := {
  ta_two_adicity : nat;          (* F::TWO_ADICITY *)
  ta_generator : F;              (* F::POWER_OF_TWO_GENERATOR *)
  ta_coset_shift : F;            (* F::coset_shift() = MULTIPLICATIVE_GROUP_GENERATOR *)
  ta_inverse_2exp : nat -> F;    (* F::inverse_2exp *)
  ta_size_of : N;                (* size_of::<F>() in bytes *)
}.

Section FFT.
  Context {F : Type} `{FO : FieldOps F} `{TA : TwoAdic F}.
  Local Open Scope field_scope.

  Definition bind {X Y : Type} (o : option X) (f : X -> option Y) : option Y :=
    match o with Some x => f x | None => None end.
  Notation "x <- e ;; k" := (bind e (fun x => k)) (at level 61, e at next level, right associativity).

  (* types.rs: assert!(n_log <= TWO_ADICITY); base.exp_power_of_2(TWO_ADICITY - n_log) *)
  Definition primitive_root_of_unity (n_log : nat) : option F :=
    if Nat.ltb ta_two_adicity n_log then None
    else Some (exp_power_of_2 ta_generator (ta_two_adicity - n_log)).

  Definition log2_strict_nat (n : N) : option nat := option_map N.to_nat (log2_strict n).

  Definition FftRootTable := list (list F).

  Fixpoint squares (b : F) (len : nat) : list F :=
    match len with O => [] | S l => b :: squares (fsquare b) l end.

  Definition fft_root_table (n : N) : option FftRootTable :=
    lg_n <- log2_strict_nat n ;;
    base <- primitive_root_of_unity lg_n ;;
    (* bases.push(base); for _ in 1..lg_n { base = base.square(); bases.push(base) } *)
    let bases := squares base (Nat.max 1 lg_n) in
    mapM (fun lg_m =>
            let half_m := Nat.pow 2 (lg_m - 1) in
            b <- nth_error bases (lg_n - lg_m) ;;
            Some (powers b (Nat.max half_m 2)))
         (seq 1 lg_n).

  (* one block of a layer: for j in 0..half_m { omega = row[j]; t = omega * v[j]; (u + t, u - t) } *)
  Fixpoint butterflies (omega us vs : list F) : option (list F * list F) :=
    match us, vs with
    | [], [] => Some ([], [])
    | u :: us', v :: vs' =>
      match omega with
      | [] => None                      (* omega_table[j] out of range *)
      | w :: om' =>
        match butterflies om' us' vs' with
        | Some (a, b) => let t := w * v in Some ((u + t) :: a, (u - t) :: b)
        | None => None
        end
      end
    | _, _ => None
    end.

  (* for k in (0..n).step_by(m): the block values[k .. k+m] *)
  Fixpoint layer_blocks (fuel : nat) (half_m : nat) (row values : list F) : option (list F) :=
    match values with
    | [] => Some []
    | _ =>
      match fuel with
      | O => None
      | S f =>
        let us := firstn half_m values in
        let rest := skipn half_m values in
        let vs := firstn half_m rest in
        let rest' := skipn half_m rest in
        match butterflies row us vs with
        | None => None
        | Some (a, b) =>
          match layer_blocks f half_m row rest' with
          | None => None
          | Some t => Some (a ++ b ++ t)
          end
        end
      end
    end.

  Definition fft_layer (root_table : FftRootTable) (values : list F) (lg_half_m : nat) : option (list F) :=
    row <- nth_error root_table lg_half_m ;;
    layer_blocks (length values) (Nat.pow 2 lg_half_m) row values.

  (* let mask = !((1 << r) - 1); for i in 0..n { values[i] = values[i & mask]; } *)
  Definition zero_tail_copy (values : list F) (r : nat) : option (list F) :=
    let m := (N.shiftl 1 (N.of_nat r) - 1)%N in
    foldM (fun vals i => v <- getN vals (N.ldiff i m) ;; Some (setN vals i v))
          (range 0 (lenN values)) values.

  Definition fft_classic (values : list F) (r : nat) (root_table : FftRootTable) : option (list F) :=
    values1 <- reverse_index_bits_in_place ta_size_of values ;;
    lg_n <- log2_strict_nat (lenN values1) ;;
    if negb (Nat.eqb (length root_table) lg_n) then None
    else
      values2 <- (if Nat.ltb 0 r then zero_tail_copy values1 r else Some values1) ;;
      foldM (fft_layer root_table) (seq r (lg_n - r)) values2.

  Definition fft_dispatch (input : list F) (zero_factor : option nat) (root_table : option FftRootTable)
    : option (list F) :=
    used_root_table <- (match root_table with Some t => Some t | None => fft_root_table (lenN input) end) ;;
    fft_classic input (match zero_factor with Some r => r | None => O end) used_root_table.

  Definition fft_with_options (poly : list F) (zero_factor : option nat) (root_table : option FftRootTable)
    : option (list F) := fft_dispatch poly zero_factor root_table.

  Definition ifft_with_options (poly : list F) (zero_factor : option nat) (root_table : option FftRootTable)
    : option (list F) :=
    let n := lenN poly in
    lg_n <- log2_strict_nat n ;;
    let n_inv := ta_inverse_2exp lg_n in
    buffer <- fft_dispatch poly zero_factor root_table ;;
    (* buffer[0] *= n_inv; buffer[n / 2] *= n_inv; *)
    b0 <- getN buffer 0 ;;
    let buffer := setN buffer 0 (b0 * n_inv) in
    bh <- getN buffer (n / 2)%N ;;
    let buffer := setN buffer (n / 2)%N (bh * n_inv) in
    foldM (fun buffer i =>
             let j := (n - i)%N in
             bj <- getN buffer j ;;
             bi <- getN buffer i ;;
             let coeffs_i := bj * n_inv in
             let coeffs_j := bi * n_inv in
             Some (setN (setN buffer i coeffs_i) j coeffs_j))
          (range 1 (n / 2)%N) buffer.

  (* ---- polynomial/mod.rs *)
  (* pad(new_len).unwrap() *)
  Definition padded (coeffs : list F) (new_len : nat) : option (list F) :=
    if Nat.ltb new_len (length coeffs) then None
    else Some (coeffs ++ repeat 0 (new_len - length coeffs)).

  (* PolynomialCoeffs::lde: self.padded(self.len() << rate_bits) *)
  Definition coeffs_lde (coeffs : list F) (rate_bits : nat) : option (list F) :=
    padded coeffs (length coeffs * Nat.pow 2 rate_bits).

  Fixpoint zip_with {X Y Z : Type} (f : X -> Y -> Z) (xs : list X) (ys : list Y) : list Z :=
    match xs, ys with
    | x :: xs', y :: ys' => f x y :: zip_with f xs' ys'
    | _, _ => []
    end.

  (* shift.powers().zip(&self.coeffs).map(|(r, &c)| r * c) then fft_with_options *)
  Definition coset_fft_with_options (coeffs : list F) (shift : F) (zero_factor : option nat)
             (root_table : option FftRootTable) : option (list F) :=
    let modified_poly := zip_with fmul (powers shift (length coeffs)) coeffs in
    fft_with_options modified_poly zero_factor root_table.

  (* self.ifft() then coeffs.zip(shift.inverse().powers()): *c *= r ; inverse() panics on zero *)
  Definition coset_ifft_opt (values : list F) (shift : F) : option (list F) :=
    shifted_coeffs <- ifft_with_options values None None ;;
    if shift =? 0 then None
    else Some (zip_with fmul shifted_coeffs (powers (finv shift) (length shifted_coeffs))).

  (* PolynomialValues::lde *)
  Definition lde_opt (values : list F) (rate_bits : nat) : option (list F) :=
    c <- ifft_with_options values None None ;;
    coeffs <- coeffs_lde c rate_bits ;;
    fft_with_options coeffs (Some rate_bits) None.

  Definition lde_onto_coset_opt (values : list F) (rate_bits : nat) : option (list F) :=
    c <- ifft_with_options values None None ;;
    coeffs <- coeffs_lde c rate_bits ;;
    coset_fft_with_options coeffs ta_coset_shift (Some rate_bits) None.

  (* ---- exported total names used by other slices: the value when the real code does not panic
     (Proofs/FFT.v: [fft_with_options cs None None = Some (fft cs)] for length cs = 2^k,
     k <= TWO_ADICITY), the empty list otherwise *)
  Definition or_nil (o : option (list F)) : list F := match o with Some v => v | None => [] end.
  Definition fft (coeffs : list F) : list F := or_nil (fft_with_options coeffs None None).
  Definition ifft (values : list F) : list F := or_nil (ifft_with_options values None None).
  Definition coset_fft (shift : F) (coeffs : list F) : list F :=
    or_nil (coset_fft_with_options coeffs shift None None).
  Definition coset_ifft (shift : F) (values : list F) : list F := or_nil (coset_ifft_opt values shift).
  Definition lde (rate_bits : nat) (values : list F) : list F := or_nil (lde_opt values rate_bits).
  Definition lde_onto_coset (rate_bits : nat) (values : list F) : list F :=
    or_nil (lde_onto_coset_opt values rate_bits).
End FFT.

(* ---- the Goldilocks instance *)
From Coq Require Import ZArith.
From Verif Require Import Gen.FieldConsts Model.Fp.

Global Instance FpTwoAdic : TwoAdic Fp := {|
  ta_two_adicity := Z.to_nat TWO_ADICITY;
  ta_generator := toFp POWER_OF_TWO_GENERATOR;
  ta_coset_shift := toFp MULTIPLICATIVE_GROUP_GENERATOR;
  ta_inverse_2exp := FieldGeneric.inverse_2exp toFp ORDER (Z.to_nat TWO_ADICITY);
  ta_size_of := 8%N;
|}.
