(* C01: the circuit-program DSL (harness/src/dsl.rs) and its direct evaluation over the field.
   [eval_prog] returns the public outputs, or None if an assertion of the program fails. *)
From Coq Require Import ZArith List Bool Lia.
From Verif Require Import Base.Field Base.Reader Model.Fp Model.Fp2 Model.FieldGeneric Model.PoseidonSpec.
Import ListNotations.
Open Scope Z_scope.

Inductive op : Type :=
| OInput | OConst (c : Z) | OAdd (a b : nat) | OSub (a b : nat) | OMul (a b : nat)
| OMulAdd (a b c : nat) | ODiv (a b : nat) | OExpU64 (a : nat) (e : Z) | ONeg (a : nat)
| OSplitLe (a n : nat) | OLeSum (bits : list nat) | ORangeCheck (a n : nat)
| OSelect (b x y : nat) | ORandomAccess (i : nat) (v : list nat) | OIsEqual (a b : nat)
| OHash (v : list nat) | OLookup (t a : nat) | OAssertEq (a b : nat) | OPublic (a : nat)
| OAssertBool (a : nat) | ONot (a : nat) | OAnd (a b : nat) | OInverse (a : nat)
(* family 5: further gadgets *)
| OArith (c0 c1 : Z) (a b c : nat) | OExpBits (a : nat) (bits : list nat) | OMulMany (v : list nat) | OAddMany (v : list nat)
| OExtMul (a0 a1 b0 b1 : nat) | OExtDiv (a0 a1 b0 b1 : nat) | OExtArith (c0 c1 : Z) (a0 a1 b0 b1 d0 d1 : nat)
| OSquare (a : nat) | OCube (a : nat) | OExpPow2 (a k : nat) | OSplitBase4 (a n : nat) | OExp (a e nb : nat).

Record program := { tables : list (list (Z * Z)); inputs : list Z; ops : list op }.

Definition rd_op : R op :=
  rdo code <- rd_z ;;
  match code with
  | 0 => rret OInput
  | 1 => rdo c <- rd_z ;; rret (OConst c)
  | 2 => rdo a <- rd_nat ;; rdo b <- rd_nat ;; rret (OAdd a b)
  | 3 => rdo a <- rd_nat ;; rdo b <- rd_nat ;; rret (OSub a b)
  | 4 => rdo a <- rd_nat ;; rdo b <- rd_nat ;; rret (OMul a b)
  | 5 => rdo a <- rd_nat ;; rdo b <- rd_nat ;; rdo c <- rd_nat ;; rret (OMulAdd a b c)
  | 6 => rdo a <- rd_nat ;; rdo b <- rd_nat ;; rret (ODiv a b)
  | 7 => rdo a <- rd_nat ;; rdo e <- rd_z ;; rret (OExpU64 a e)
  | 8 => rdo a <- rd_nat ;; rret (ONeg a)
  | 10 => rdo a <- rd_nat ;; rdo n <- rd_nat ;; rret (OSplitLe a n)
  | 11 => rdo v <- rd_list rd_nat ;; rret (OLeSum v)
  | 12 => rdo a <- rd_nat ;; rdo n <- rd_nat ;; rret (ORangeCheck a n)
  | 13 => rdo b <- rd_nat ;; rdo x <- rd_nat ;; rdo y <- rd_nat ;; rret (OSelect b x y)
  | 14 => rdo i <- rd_nat ;; rdo v <- rd_list rd_nat ;; rret (ORandomAccess i v)
  | 15 => rdo a <- rd_nat ;; rdo b <- rd_nat ;; rret (OIsEqual a b)
  | 16 => rdo v <- rd_list rd_nat ;; rret (OHash v)
  | 17 => rdo t <- rd_nat ;; rdo a <- rd_nat ;; rret (OLookup t a)
  | 18 => rdo a <- rd_nat ;; rdo b <- rd_nat ;; rret (OAssertEq a b)
  | 19 => rdo a <- rd_nat ;; rret (OPublic a)
  | 20 => rdo a <- rd_nat ;; rret (OAssertBool a)
  | 21 => rdo a <- rd_nat ;; rret (ONot a)
  | 22 => rdo a <- rd_nat ;; rdo b <- rd_nat ;; rret (OAnd a b)
  | 23 => rdo a <- rd_nat ;; rret (OInverse a)
  | 24 => rdo c0 <- rd_z ;; rdo c1 <- rd_z ;; rdo a <- rd_nat ;; rdo b <- rd_nat ;; rdo c <- rd_nat ;; rret (OArith c0 c1 a b c)
  | 25 => rdo a <- rd_nat ;; rdo v <- rd_list rd_nat ;; rret (OExpBits a v)
  | 26 => rdo v <- rd_list rd_nat ;; rret (OMulMany v)
  | 27 => rdo v <- rd_list rd_nat ;; rret (OAddMany v)
  | 28 => rdo a0 <- rd_nat ;; rdo a1 <- rd_nat ;; rdo b0 <- rd_nat ;; rdo b1 <- rd_nat ;; rret (OExtMul a0 a1 b0 b1)
  | 29 => rdo a0 <- rd_nat ;; rdo a1 <- rd_nat ;; rdo b0 <- rd_nat ;; rdo b1 <- rd_nat ;; rret (OExtDiv a0 a1 b0 b1)
  | 30 => rdo c0 <- rd_z ;; rdo c1 <- rd_z ;; rdo a0 <- rd_nat ;; rdo a1 <- rd_nat ;; rdo b0 <- rd_nat ;; rdo b1 <- rd_nat ;;
          rdo d0 <- rd_nat ;; rdo d1 <- rd_nat ;; rret (OExtArith c0 c1 a0 a1 b0 b1 d0 d1)
  | 31 => rdo a <- rd_nat ;; rret (OSquare a)
  | 32 => rdo a <- rd_nat ;; rret (OCube a)
  | 33 => rdo a <- rd_nat ;; rdo k <- rd_nat ;; rret (OExpPow2 a k)
  | 36 => rdo a <- rd_nat ;; rdo n <- rd_nat ;; rret (OSplitBase4 a n)
  | 37 => rdo a <- rd_nat ;; rdo e <- rd_nat ;; rdo nb <- rd_nat ;; rret (OExp a e nb)
  | _ => rfail
  end.

Definition rd_program : R program :=
  rdo ts <- rd_list (rd_list (rd_pair rd_z rd_z)) ;;
  rdo ins <- rd_list rd_z ;;
  rdo os <- rd_list rd_op ;;
  rret {| tables := ts; inputs := ins; ops := os |}.

Local Open Scope field_scope.

(* evaluation state: values (in order of creation), remaining inputs, public outputs *)
Record st := { vals : list Fp; ins : list Z; pubs : list Fp }.

Definition getv (s : st) (i : nat) : option Fp := nth_error (vals s) i.
Definition pushv (s : st) (v : Fp) : st := {| vals := vals s ++ [v]; ins := ins s; pubs := pubs s |}.
Definition pushvs (s : st) (v : list Fp) : st := {| vals := vals s ++ v; ins := ins s; pubs := pubs s |}.
Definition is_bool (x : Fp) : bool := (fval x =? 0)%Z || (fval x =? 1)%Z.
Definition fits (x : Fp) (n : nat) : bool := (fval x <? 2 ^ Z.of_nat n)%Z.

Fixpoint getvs (s : st) (l : list nat) : option (list Fp) :=
  match l with
  | [] => Some []
  | i :: t => match getv s i, getvs s t with Some v, Some vs => Some (v :: vs) | _, _ => None end
  end.

Definition bits_le (x : Z) (n : nat) : list Fp :=
  map (fun i => toFp (Z.land (Z.shiftr x (Z.of_nat i)) 1)) (seq 0 n).

Fixpoint le_sum (bits : list Fp) (w : Fp) : Fp :=
  match bits with [] => 0 | b :: t => b * w + le_sum t (w + w) end.

Definition lookup_table (t : list (Z * Z)) (x : Fp) : option Fp :=
  match find (fun p => (fst p =? fval x)%Z) t with Some p => Some (toFp (snd p)) | None => None end.

(* base-4 digits, little endian *)
Definition digits4_le (x : Z) (n : nat) : list Fp :=
  map (fun i => toFp (Z.land (Z.shiftr x (2 * Z.of_nat i)) 3)) (seq 0 n).
Definition fits4 (x : Fp) (n : nat) : bool := (fval x <? 4 ^ Z.of_nat n)%Z.

(* base^(sum_i bits_i 2^i), bits little endian: square-and-multiply from the top bit *)
Fixpoint exp_bits (base : Fp) (bits : list Fp) : Fp :=
  match bits with
  | [] => 1
  | b :: t => let r := exp_bits base t in (r * r) * (if (fval b =? 1)%Z then base else 1)
  end.

Definition ext_of (x0 x1 : Fp) : Fp2 := (x0, x1).
Definition ext_const (c : Z) : Fp2 := (toFp c, 0).

Definition obind {A B} (o : option A) (k : A -> option B) : option B :=
  match o with Some a => k a | None => None end.
Notation "'odo' x <- m ;; k" := (obind m (fun x => k)) (at level 200, x pattern, right associativity).

Definition step (tabs : list (list (Z * Z))) (s : st) (o : op) : option st :=
  match o with
  | OInput => match ins s with
              | x :: t => Some {| vals := vals s ++ [toFp x]; ins := t; pubs := pubs s |}
              | [] => None end
  | OConst c => Some (pushv s (toFp c))
  | OAdd a b => odo x <- getv s a ;; odo y <- getv s b ;; Some (pushv s (x + y))
  | OSub a b => odo x <- getv s a ;; odo y <- getv s b ;; Some (pushv s (x - y))
  | OMul a b => odo x <- getv s a ;; odo y <- getv s b ;; Some (pushv s (x * y))
  | OMulAdd a b c => odo x <- getv s a ;; odo y <- getv s b ;; odo z <- getv s c ;; Some (pushv s (x * y + z))
  | ODiv a b => odo x <- getv s a ;; odo y <- getv s b ;;
                if (fval y =? 0)%Z then None else Some (pushv s (x * finv y))
  | OExpU64 a e => odo x <- getv s a ;; Some (pushv s (exp_u64 x (Z.to_N e)))
  | ONeg a => odo x <- getv s a ;; Some (pushv s (- x))
  | OSplitLe a n => odo x <- getv s a ;;
                    if fits x n then Some (pushvs s (bits_le (fval x) n)) else None
  | OLeSum bits => odo bs <- getvs s bits ;;
                   if forallb is_bool bs then Some (pushv s (le_sum bs 1)) else None
  | ORangeCheck a n => odo x <- getv s a ;; if fits x n then Some s else None
  | OSelect b x y => odo c <- getv s b ;; odo vx <- getv s x ;; odo vy <- getv s y ;;
                     if is_bool c then Some (pushv s (if (fval c =? 1)%Z then vx else vy)) else None
  | ORandomAccess i v => odo idx <- getv s i ;; odo vs <- getvs s v ;;
                         odo r <- nth_error vs (Z.to_nat (fval idx)) ;;
                         if (fval idx <? Z.of_nat (length vs))%Z then Some (pushv s r) else None
  | OIsEqual a b => odo x <- getv s a ;; odo y <- getv s b ;;
                    Some (pushv s (if (fval x =? fval y)%Z then 1 else 0))
  | OHash v => odo vs <- getvs s v ;; Some (pushvs s (p_hash_no_pad vs))
  | OLookup t a => odo tab <- nth_error tabs t ;; odo x <- getv s a ;;
                   odo r <- lookup_table tab x ;; Some (pushv s r)
  | OAssertEq a b => odo x <- getv s a ;; odo y <- getv s b ;;
                     if (fval x =? fval y)%Z then Some s else None
  | OPublic a => odo x <- getv s a ;; Some {| vals := vals s; ins := ins s; pubs := pubs s ++ [x] |}
  | OAssertBool a => odo x <- getv s a ;; if is_bool x then Some s else None
  | ONot a => odo x <- getv s a ;; if is_bool x then Some (pushv s (1 - x)) else None
  | OAnd a b => odo x <- getv s a ;; odo y <- getv s b ;;
                if is_bool x && is_bool y then Some (pushv s (x * y)) else None
  | OInverse a => odo x <- getv s a ;; if (fval x =? 0)%Z then None else Some (pushv s (finv x))
  | OArith c0 c1 a b c => odo x <- getv s a ;; odo y <- getv s b ;; odo z <- getv s c ;;
                          Some (pushv s (toFp c0 * x * y + toFp c1 * z))
  | OExpBits a bits => odo x <- getv s a ;; odo bs <- getvs s bits ;;
                       if forallb is_bool bs then Some (pushv s (exp_bits x bs)) else None
  | OMulMany v => odo vs <- getvs s v ;; Some (pushv s (fold_left fmul vs 1))
  | OAddMany v => odo vs <- getvs s v ;; Some (pushv s (fold_left fadd vs 0))
  | OExtMul a0 a1 b0 b1 => odo x0 <- getv s a0 ;; odo x1 <- getv s a1 ;; odo y0 <- getv s b0 ;; odo y1 <- getv s b1 ;;
                           let r := (ext_of x0 x1 * ext_of y0 y1) in Some (pushvs s [fst r; snd r])
  | OExtDiv a0 a1 b0 b1 => odo x0 <- getv s a0 ;; odo x1 <- getv s a1 ;; odo y0 <- getv s b0 ;; odo y1 <- getv s b1 ;;
                           if ((fval y0 =? 0)%Z && (fval y1 =? 0)%Z) then None
                           else let r := (ext_of x0 x1 * finv (ext_of y0 y1)) in Some (pushvs s [fst r; snd r])
  | OExtArith c0 c1 a0 a1 b0 b1 d0 d1 =>
      odo x0 <- getv s a0 ;; odo x1 <- getv s a1 ;; odo y0 <- getv s b0 ;; odo y1 <- getv s b1 ;;
      odo z0 <- getv s d0 ;; odo z1 <- getv s d1 ;;
      let r := (ext_const c0 * ext_of x0 x1 * ext_of y0 y1 + ext_const c1 * ext_of z0 z1) in Some (pushvs s [fst r; snd r])
  | OSquare a => odo x <- getv s a ;; Some (pushv s (x * x))
  | OCube a => odo x <- getv s a ;; Some (pushv s (x * x * x))
  | OExpPow2 a k => odo x <- getv s a ;; Some (pushv s (exp_power_of_2 x k))
  | OSplitBase4 a n => odo x <- getv s a ;;
                       if fits4 x n then Some (pushvs s (digits4_le (fval x) n)) else None
  | OExp a e nb => odo x <- getv s a ;; odo ev <- getv s e ;;
                   if fits ev nb then Some (pushv s (exp_u64 x (Z.to_N (fval ev)))) else None
  end.

Fixpoint run_ops (tabs : list (list (Z * Z))) (s : st) (os : list op) : option st :=
  match os with
  | [] => Some s
  | o :: t => odo s' <- step tabs s o ;; run_ops tabs s' t
  end.

Definition eval_prog (p : program) : option (list Fp) :=
  odo s <- run_ops (tables p) {| vals := []; ins := inputs p; pubs := [] |} (ops p) ;;
  Some (pubs s).

Definition run_prog (a : list Z) : option (list Z) :=
  odo p <- run_reader rd_program a ;;
  odo out <- eval_prog p ;;
  Some (map fval out).
