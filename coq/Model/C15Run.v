(* Uniform entry points (list Z -> option (list Z)) for the C15 correspondence run
   (harness/src/c15.rs writes the cases, extract/main.ml replays them).  Field elements are
   canonical u64; [None] = the model says the real code panics. *)
From Coq Require Import ZArith NArith List.
From Verif Require Import Base.Field Gen.FieldConsts Model.Fp Model.FieldGeneric Model.BitRev Model.FFT
  Model.PolyOps.
Import ListNotations.
Open Scope Z_scope.

Definition fps (l : list Z) : list Fp := map toFp l.
Definition zs (l : list Fp) : list Z := map fval l.
Definition ozs (o : option (list Fp)) : option (list Z) := option_map zs o.
Definition oz1 (o : option Fp) : option (list Z) := option_map (fun x => [fval x]) o.
Definition nat_of (z : Z) : nat := Z.to_nat z.
Definition split_at (la : Z) (l : list Z) : list Z * list Z := (firstn (nat_of la) l, skipn (nat_of la) l).

(* ---- util *)
Definition run_revbits (a : list Z) :=
  match a with [n; nb] => option_map (fun r => [Z.of_N r]) (reverse_bits (Z.to_N n) (Z.to_N nb)) | _ => None end.
Definition run_revidx (a : list Z) := reverse_index_bits a.
Definition run_revidx_inplace (a : list Z) :=
  match a with sz :: arr => reverse_index_bits_in_place (Z.to_N sz) arr | _ => None end.
Definition run_transpose (a : list Z) :=
  match a with
  | lb_stride :: lb_size :: x :: arr => transpose_in_place_square arr (Z.to_N lb_stride) (Z.to_N lb_size) (Z.to_N x)
  | _ => None end.

(* ---- fft.rs *)
Definition flatten_table (t : list (list Fp)) : list Z :=
  Z.of_nat (length t) :: concat (map (fun row => Z.of_nat (length row) :: zs row) t).
Definition run_roottable (a : list Z) :=
  match a with [n] => option_map flatten_table (fft_root_table (Z.to_N n)) | _ => None end.

(* table encoding: nrows, then per row: len, entries *)
Fixpoint parse_rows (nrows : nat) (l : list Z) : option (list (list Fp) * list Z) :=
  match nrows with
  | O => Some ([], l)
  | S k =>
    match l with
    | len :: rest =>
      if Nat.ltb (length rest) (nat_of len) then None
      else
        match parse_rows k (skipn (nat_of len) rest) with
        | Some (rows, tl) => Some (fps (firstn (nat_of len) rest) :: rows, tl)
        | None => None
        end
    | [] => None
    end
  end.
Definition zf_of (has_r r : Z) : option nat := if has_r =? 0 then None else Some (nat_of r).

Definition run_fft (a : list Z) := ozs (fft_with_options (fps a) None None).
Definition run_fft_r (a : list Z) :=
  match a with r :: c => ozs (fft_with_options (fps c) (Some (nat_of r)) None) | _ => None end.
Definition run_fftx (a : list Z) :=
  match a with
  | has_r :: r :: nrows :: rest =>
    match parse_rows (nat_of nrows) rest with
    | Some (t, c) => ozs (fft_with_options (fps c) (zf_of has_r r) (Some t))
    | None => None
    end
  | _ => None end.
Definition run_ifft (a : list Z) := ozs (ifft_with_options (fps a) None None).
Definition run_ifft_r (a : list Z) :=
  match a with r :: c => ozs (ifft_with_options (fps c) (Some (nat_of r)) None) | _ => None end.
Definition run_ifftx (a : list Z) :=
  match a with
  | has_r :: r :: nrows :: rest =>
    match parse_rows (nat_of nrows) rest with
    | Some (t, c) => ozs (ifft_with_options (fps c) (zf_of has_r r) (Some t))
    | None => None
    end
  | _ => None end.
Definition run_coset_fft (a : list Z) :=
  match a with s :: c => ozs (coset_fft_with_options (fps c) (toFp s) None None) | _ => None end.
Definition run_coset_fft_r (a : list Z) :=
  match a with s :: r :: c => ozs (coset_fft_with_options (fps c) (toFp s) (Some (nat_of r)) None) | _ => None end.
Definition run_coset_ifft (a : list Z) :=
  match a with s :: v => ozs (coset_ifft_opt (fps v) (toFp s)) | _ => None end.
Definition run_lde (a : list Z) :=
  match a with rb :: v => ozs (lde_opt (fps v) (nat_of rb)) | _ => None end.
Definition run_lde_coset (a : list Z) :=
  match a with rb :: v => ozs (lde_onto_coset_opt (fps v) (nat_of rb)) | _ => None end.
Definition run_clde (a : list Z) :=
  match a with rb :: c => ozs (coeffs_lde (fps c) (nat_of rb)) | _ => None end.
Definition run_prou (a : list Z) :=
  match a with [k] => oz1 (primitive_root_of_unity (nat_of k)) | _ => None end.
Definition run_two_adic_subgroup (a : list Z) :=
  match a with [k] => ozs (two_adic_subgroup (nat_of k)) | _ => None end.

(* ---- polynomial/mod.rs *)
Definition run_eval (a : list Z) :=
  match a with x :: c => Some [fval (eval (fps c) (toFp x))] | _ => None end.
Definition run_evalpow (a : list Z) :=
  match a with la :: rest => let '(c, p) := split_at la rest in oz1 (eval_with_powers (fps c) (fps p)) | _ => None end.
Definition run_polyadd (a : list Z) :=
  match a with la :: rest => let '(x, y) := split_at la rest in ozs (poly_add (fps x) (fps y)) | _ => None end.
Definition run_polysub (a : list Z) :=
  match a with la :: rest => let '(x, y) := split_at la rest in ozs (poly_sub (fps x) (fps y)) | _ => None end.
Definition run_polymul (a : list Z) :=
  match a with la :: rest => let '(x, y) := split_at la rest in ozs (poly_mul (fps x) (fps y)) | _ => None end.
Definition run_scalarmul (a : list Z) :=
  match a with s :: c => Some (zs (poly_scalar_mul (fps c) (toFp s))) | _ => None end.
Definition run_trim (a : list Z) := Some (zs (trimmed (fps a))).
Definition run_trimlen (a : list Z) :=
  match a with
  | len :: c => match trim_to_len (fps c) (nat_of len) with inl r => Some (1 :: zs r) | inr _ => Some [0] end
  | _ => None end.
Definition run_padded (a : list Z) :=
  match a with len :: c => ozs (padded (fps c) (nat_of len)) | _ => None end.
Definition run_degp1 (a : list Z) := Some [Z.of_nat (degree_plus_one (fps a))].
Definition run_lead (a : list Z) := Some [fval (lead (fps a))].

(* ---- division.rs *)
Definition run_divlin (a : list Z) :=
  match a with z :: c => Some (zs (divide_by_linear (fps c) (toFp z))) | _ => None end.
Definition qr (o : option (list Fp * list Fp)) : option (list Z) :=
  option_map (fun '(q, r) => Z.of_nat (length q) :: zs q ++ zs r) o.
Definition run_divrem (a : list Z) :=
  match a with la :: rest => let '(x, y) := split_at la rest in qr (div_rem (fps x) (fps y)) | _ => None end.
Definition run_divremlong (a : list Z) :=
  match a with la :: rest => let '(x, y) := split_at la rest in qr (div_rem_long_division (fps x) (fps y)) | _ => None end.
Definition run_invmodxn (a : list Z) :=
  match a with n :: c => ozs (inv_mod_xn (fps c) (nat_of n)) | _ => None end.

(* ---- interpolation.rs: points as x0 y0 x1 y1 .. *)
Fixpoint pairs (l : list Z) : list (Fp * Fp) :=
  match l with x :: y :: l' => (toFp x, toFp y) :: pairs l' | _ => [] end.
Definition run_interp (a : list Z) := ozs (interpolant (pairs a)).
Definition run_baryw (a : list Z) := ozs (barycentric_weights (pairs a)).
Definition run_interpolate (a : list Z) :=
  match a with
  | x :: pts =>
    match barycentric_weights (pairs pts) with
    | Some w => oz1 (interpolate (pairs pts) (toFp x) w)
    | None => None
    end
  | _ => None end.
Definition run_interp2 (a : list Z) :=
  match a with [a0; a1; b0; b1; x] => oz1 (interpolate2 (toFp a0) (toFp a1) (toFp b0) (toFp b1) (toFp x)) | _ => None end.

(* ---- zero_poly_coset.rs, cosets.rs *)
Definition of_usize (n : N) : Fp := toFp (Z.of_N n).
Definition run_zpoc (a : list Z) :=
  match a with
  | [n_log; rate_bits] =>
    option_map (fun z => zs (zp_evals z) ++ zs (zp_inverses z))
               (zpoc_new of_usize (nat_of n_log) (nat_of rate_bits))
  | _ => None end.
Definition run_zpoc_l0 (a : list Z) :=
  match a with
  | [n_log; rate_bits; i; x] =>
    match zpoc_new of_usize (nat_of n_log) (nat_of rate_bits) with
    | Some z =>
      match zpoc_eval z (Z.to_N i), zpoc_eval_inverse z (Z.to_N i), zpoc_eval_l_0 z (Z.to_N i) (toFp x) with
      | Some e, Some ei, Some l0 => Some [fval e; fval ei; fval l0]
      | _, _, _ => None
      end
    | None => None
    end
  | _ => None end.
Definition run_cosetshifts (a : list Z) :=
  match a with
  | [sg; ns] => ozs (get_unique_coset_shifts (Z.to_N ORDER) (Z.to_N sg) (Z.to_N ns))
  | _ => None end.
