(* C16 correspondence: the real compress + decompress on per-query data vs Model/Dedup.v *)
From Coq Require Import ZArith List.
From Verif Require Import Base.Reader Model.Dedup.
Import ListNotations.
Open Scope Z_scope.

Definition run_dedup (a : list Z) : option (list Z) :=
  match run_reader (rd_list (rd_pair rd_nat rd_z)) a with
  | Some l =>
    let out := decompress Z (compress Z l) (map fst l) in
    if forallb (fun o => match o with Some _ => true | None => false end) out
    then Some (map (fun o => match o with Some v => v | None => 0 end) out) else None
  | None => None
  end.
