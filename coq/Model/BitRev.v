(* C15 model, part 1: the bit-reversal and transpose helpers of /repo/util/src/lib.rs and
   /repo/util/src/transpose_util.rs, and `reverse_bits` of /repo/plonky2/src/util/mod.rs.

   Arrays are lists; `usize` index arithmetic is done in [N] with the shifts / masks of the code
   (all quantities stay far below 2^64 for arrays that fit in memory, the only wrap that the code
   relies on - `wrapping_shr` by 64 - is modelled as such).  A swap is a pair of list updates;
   an index that is out of range for the slice (`arr[i]` panic, or `get_unchecked` undefined
   behaviour inside the `unsafe` blocks) makes the function return [None].
   The constants are copied from the source; checks/c15.py re-parses the source on every run and
   fails if they differ. *)
From Coq Require Import NArith List Bool.
Import ListNotations.
Open Scope N_scope.

(* util/src/lib.rs: const BIT_REVERSE_6BIT, BIG_T_SIZE, SMALL_ARR_SIZE; transpose_util.rs: LB_BLOCK_SIZE *)
Definition BIT_REVERSE_6BIT : list N :=
  [0; 32; 16; 48; 8; 40; 24; 56; 4; 36; 20; 52; 12; 44; 28; 60;
   2; 34; 18; 50; 10; 42; 26; 58; 6; 38; 22; 54; 14; 46; 30; 62;
   1; 33; 17; 49; 9; 41; 25; 57; 5; 37; 21; 53; 13; 45; 29; 61;
   3; 35; 19; 51; 11; 43; 27; 59; 7; 39; 23; 55; 15; 47; 31; 63].
Definition BIG_T_SIZE : N := 16384.      (* 1 << 14 *)
Definition SMALL_ARR_SIZE : N := 65536.  (* 1 << 16 *)
Definition LB_BLOCK_SIZE : N := 3.
Definition USIZE_BITS : N := 64.

(* ---- bit reversal of a k-bit word (k = 64: usize::reverse_bits) *)
Fixpoint rev_bits_loop (k : nat) (x acc : N) : N :=
  match k with
  | O => acc
  | S k' => rev_bits_loop k' (N.div2 x) (2 * acc + (if N.odd x then 1 else 0))
  end.
Definition bitrev (k : nat) (x : N) : N := rev_bits_loop k x 0.
Definition usize_reverse_bits (x : N) : N := bitrev 64 x.

(* usize::wrapping_shr / overflowing_shr(..).0 : the shift amount is taken modulo 64 *)
Definition wrapping_shr (x amt : N) : N := N.shiftr x (amt mod USIZE_BITS).

(* plonky2/src/util/mod.rs
     n.reverse_bits().overflowing_shr(usize::BITS - num_bits as u32).0
   [None] for num_bits > 64 (u32 subtraction underflow: a debug-build panic, not modelled further) *)
Definition reverse_bits (n num_bits : N) : option N :=
  if USIZE_BITS <? num_bits then None
  else Some (wrapping_shr (usize_reverse_bits n) (USIZE_BITS - num_bits)).

(* log2_strict: trailing_zeros, assert!(n >> res == 1) *)
Definition log2_strict (n : N) : option N :=
  if n =? 0 then None
  else let r := N.log2 n in if N.shiftl 1 r =? n then Some r else None.

(* ---- list plumbing *)
Fixpoint iota (len : nat) (start : N) : list N :=
  match len with O => [] | S l => start :: iota l (start + 1) end.
(* the Rust range a..b *)
Definition range (a b : N) : list N := iota (N.to_nat (b - a)) a.

Fixpoint mapM {X Y : Type} (f : X -> option Y) (l : list X) : option (list Y) :=
  match l with
  | [] => Some []
  | x :: l' =>
    match f x with
    | Some y => match mapM f l' with Some ys => Some (y :: ys) | None => None end
    | None => None
    end
  end.

Fixpoint foldM {X S : Type} (f : S -> X -> option S) (l : list X) (s : S) : option S :=
  match l with
  | [] => Some s
  | x :: l' => match f s x with Some s' => foldM f l' s' | None => None end
  end.

Definition getN {A : Type} (l : list A) (i : N) : option A := nth_error l (N.to_nat i).

Fixpoint set_nth {A : Type} (l : list A) (i : nat) (v : A) : list A :=
  match l, i with
  | [], _ => []
  | _ :: t, O => v :: t
  | h :: t, S i' => h :: set_nth t i' v
  end.

Definition setN {A : Type} (l : list A) (i : N) (v : A) : list A := set_nth l (N.to_nat i) v.

(* core::ptr::swap(arr.get_unchecked_mut(i), arr.get_unchecked_mut(j)) *)
Definition swapN {A : Type} (l : list A) (i j : N) : option (list A) :=
  match getN l i, getN l j with
  | Some x, Some y => Some (setN (setN l i y) j x)
  | _, _ => None
  end.

Definition lenN {A : Type} (l : list A) : N := N.of_nat (length l).

Section Arrays.
  Context {A : Type}.

  (* ------------------------------------------------------------------ reverse_index_bits *)
  (* for i in 0..n { src = (BIT_REVERSE_6BIT[i] as usize) >> dst_shr_amt; result.push(arr[src]) } *)
  Definition reverse_index_bits_small (arr : list A) (n_power : N) : option (list A) :=
    let n := lenN arr in
    let dst_shr_amt := 6 - n_power in
    mapM (fun i =>
            match getN BIT_REVERSE_6BIT i with
            | Some b => getN arr (N.shiftr b dst_shr_amt)
            | None => None
            end) (range 0 n).

  Definition reverse_index_bits_large (arr : list A) (n_power : N) : option (list A) :=
    let n := lenN arr in
    let src_lo_shr_amt := 64 - (n_power - 6) in
    let src_hi_shl_amt := n_power - 6 in
    option_map (@concat A)
      (mapM (fun i_chunk =>
               let src_lo := N.shiftr (usize_reverse_bits i_chunk) src_lo_shr_amt in
               mapM (fun i_lo =>
                       match getN BIT_REVERSE_6BIT i_lo with
                       | Some b =>
                         let src_hi := N.shiftl b src_hi_shl_amt in
                         let src := src_hi + src_lo in
                         getN arr src
                       | None => None
                       end) (range 0 (N.shiftl 1 6)))
            (range 0 (N.shiftr n 6))).

  Definition reverse_index_bits (arr : list A) : option (list A) :=
    match log2_strict (lenN arr) with
    | None => None
    | Some n_power =>
      if n_power <=? 6 then reverse_index_bits_small arr n_power
      else reverse_index_bits_large arr n_power
    end.

  (* ------------------------------------------------------------------ in place *)
  (* #[cfg(not(target_arch = "aarch64"))] variant *)
  Definition reverse_index_bits_in_place_small (arr : list A) (lb_n : N) : option (list A) :=
    if lb_n <=? 6 then
      let dst_shr_amt := 6 - lb_n in
      foldM (fun arr src =>
               match getN BIT_REVERSE_6BIT src with
               | Some b =>
                 let dst := wrapping_shr b dst_shr_amt in
                 if src <? dst then swapN arr src dst else Some arr
               | None => None
               end) (range 0 (lenN arr)) arr
    else
      let dst_lo_shr_amt := USIZE_BITS - (lb_n - 6) in
      let dst_hi_shl_amt := lb_n - 6 in
      foldM (fun arr src_chunk =>
               let src_hi := N.shiftl src_chunk 6 in
               let dst_lo := wrapping_shr (usize_reverse_bits src_chunk) dst_lo_shr_amt in
               foldM (fun arr src_lo =>
                        match getN BIT_REVERSE_6BIT src_lo with
                        | Some b =>
                          let dst_hi := N.shiftl b dst_hi_shl_amt in
                          let src := src_hi + src_lo in
                          let dst := dst_hi + dst_lo in
                          if src <? dst then swapN arr src dst else Some arr
                        | None => None
                        end) (range 0 (N.shiftl 1 6)) arr)
            (range 0 (N.shiftr (lenN arr) 6)) arr.

  (* swap_nonoverlapping(&mut arr[a], &mut arr[b], count): element-wise *)
  Definition swap_range (arr : list A) (a b count : N) : option (list A) :=
    foldM (fun arr t => swapN arr (a + t) (b + t)) (range 0 count) arr.

  Definition reverse_index_bits_in_place_chunks (arr : list A) (lb_num_chunks lb_chunk_size : N)
    : option (list A) :=
    foldM (fun arr i =>
             let j := wrapping_shr (usize_reverse_bits i) (USIZE_BITS - lb_num_chunks) in
             if i <? j then
               swap_range arr (N.shiftl i lb_chunk_size) (N.shiftl j lb_chunk_size) (N.shiftl 1 lb_chunk_size)
             else Some arr)
          (range 0 (N.shiftl 1 lb_num_chunks)) arr.

  (* ------------------------------------------------------------------ transpose_util.rs *)
  Definition transpose_in_place_square_small (arr : list A) (lb_stride lb_size x : N) : option (list A) :=
    foldM (fun arr i =>
             foldM (fun arr j => swapN arr (i + N.shiftl j lb_stride) (N.shiftl i lb_stride + j))
                   (range x i) arr)
          (range (x + 1) (x + N.shiftl 1 lb_size)) arr.

  Definition transpose_swap_square_small (arr : list A) (lb_stride lb_size x y : N) : option (list A) :=
    foldM (fun arr i =>
             foldM (fun arr j => swapN arr (i + N.shiftl j lb_stride) (N.shiftl i lb_stride + j))
                   (range y (y + N.shiftl 1 lb_size)) arr)
          (range x (x + N.shiftl 1 lb_size)) arr.

  (* recursion on lb_size; [fuel] >= lb_size is only the structural argument *)
  Fixpoint transpose_swap_square_f (fuel : nat) (arr : list A) (lb_stride lb_size x y : N)
    : option (list A) :=
    if lb_size <=? LB_BLOCK_SIZE then transpose_swap_square_small arr lb_stride lb_size x y
    else
      match fuel with
      | O => None
      | S f =>
        let lb_block_size := lb_size - 1 in
        let block_size := N.shiftl 1 lb_block_size in
        match transpose_swap_square_f f arr lb_stride lb_block_size x y with
        | None => None
        | Some a1 =>
          match transpose_swap_square_f f a1 lb_stride lb_block_size (x + block_size) y with
          | None => None
          | Some a2 =>
            match transpose_swap_square_f f a2 lb_stride lb_block_size x (y + block_size) with
            | None => None
            | Some a3 =>
              transpose_swap_square_f f a3 lb_stride lb_block_size (x + block_size) (y + block_size)
            end
          end
        end
      end.
  Definition transpose_swap_square (arr : list A) (lb_stride lb_size x y : N) : option (list A) :=
    transpose_swap_square_f (N.to_nat lb_size) arr lb_stride lb_size x y.

  Fixpoint transpose_in_place_square_f (fuel : nat) (arr : list A) (lb_stride lb_size x : N)
    : option (list A) :=
    if lb_size <=? LB_BLOCK_SIZE then transpose_in_place_square_small arr lb_stride lb_size x
    else
      match fuel with
      | O => None
      | S f =>
        let lb_block_size := lb_size - 1 in
        let block_size := N.shiftl 1 lb_block_size in
        match transpose_in_place_square_f f arr lb_stride lb_block_size x with
        | None => None
        | Some a1 =>
          match transpose_swap_square_f f a1 lb_stride lb_block_size x (x + block_size) with
          | None => None
          | Some a2 => transpose_in_place_square_f f a2 lb_stride lb_block_size (x + block_size)
          end
        end
      end.
  Definition transpose_in_place_square (arr : list A) (lb_stride lb_size x : N) : option (list A) :=
    transpose_in_place_square_f (N.to_nat lb_size) arr lb_stride lb_size x.

  (* ------------------------------------------------------------------ reverse_index_bits_in_place
     [size_of] = size_of::<T>() in bytes *)
  Definition reverse_index_bits_in_place (size_of : N) (arr : list A) : option (list A) :=
    match log2_strict (lenN arr) with
    | None => None
    | Some lb_n =>
      if orb (N.shiftl size_of lb_n <=? SMALL_ARR_SIZE) (BIG_T_SIZE <=? size_of) then
        reverse_index_bits_in_place_small arr lb_n
      else
        let lb_num_chunks := N.shiftr lb_n 1 in
        let lb_chunk_size := lb_n - lb_num_chunks in
        match reverse_index_bits_in_place_chunks arr lb_num_chunks lb_chunk_size with
        | None => None
        | Some a1 =>
          match transpose_in_place_square a1 lb_chunk_size lb_num_chunks 0 with
          | None => None
          | Some a2 =>
            let a3 :=
              if negb (lb_num_chunks =? lb_chunk_size) then
                (* let arr_with_offset = &mut arr[1 << lb_num_chunks..]; *)
                let off := N.shiftl 1 lb_num_chunks in
                if lenN a2 <? off then None
                else
                  match transpose_in_place_square (skipn (N.to_nat off) a2) lb_chunk_size lb_num_chunks 0 with
                  | Some t => Some (firstn (N.to_nat off) a2 ++ t)
                  | None => None
                  end
              else Some a2 in
            match a3 with
            | None => None
            | Some a3 => reverse_index_bits_in_place_chunks a3 lb_num_chunks lb_chunk_size
            end
          end
        end
    end.
End Arrays.
