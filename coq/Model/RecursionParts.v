(* Component models of the recursive verifiers (C06, C11, C20): executable Gallina mirrors of
   small code fragments of /repo/plonky2 whose circuit version must agree with the native one.

   - [sel_arith], [select_vec], [select_struct]   gadgets/select.rs, recursion/conditional_recursive_verifier.rs
   - [from_slice], [vd_pis], [check_cyclic]       recursion/cyclic_recursion.rs, plonk/circuit_builder.rs
   - [le_sum], [to_bits], [split_le_ok]           gadgets/split_join.rs (split_le), gadgets/range_check.rs (low_bits)
   - [leading_zeros64], [pow_native_ok]           fri/verifier.rs fri_verify_proof_of_work
   - [reduce], [reduce_target], [reduce_base_target]   util/reducing.rs
   - [prover_ops], [native_ops], [circuit_ops]    fri/prover.rs fri_committed_trees, fri/challenges.rs *)
From Coq Require Import ZArith List Lia Bool.
From Verif Require Import Base.Field Model.Fp.
Import ListNotations.
Local Open Scope nat_scope.

(* ------------------------------------------------------------------------------------------ *)
(* C20: selection.  CircuitBuilder::select(b, x, y):
     let tmp = self.mul_sub(b.target, y, y);   // b*y - y
     self.mul_sub(b.target, x, tmp)            // b*x - tmp
   select_vec / select_cap / ... : element-wise over `zip_eq` (panics on unequal lengths). *)
Section Select.
  Context {R : Type} (rmul rsub : R -> R -> R).

  Definition sel_arith (b x y : R) : R := rsub (rmul b x) (rsub (rmul b y) y).

  (* None = the zip_eq / assert_eq of the Rust code panics (lengths differ) *)
  Fixpoint select_vec (b : R) (v0 v1 : list R) : option (list R) :=
    match v0, v1 with
    | [], [] => Some []
    | x :: v0', y :: v1' =>
        match select_vec b v0' v1' with
        | Some r => Some (sel_arith b x y :: r)
        | None => None
        end
    | _, _ => None
    end.

  (* a proof / verifier-data structure: a list of vectors (caps, opening vectors, leaves,
     sibling lists, ... in the fixed order of the target structs) *)
  Fixpoint select_struct (b : R) (s0 s1 : list (list R)) : option (list (list R)) :=
    match s0, s1 with
    | [], [] => Some []
    | v0 :: s0', v1 :: s1' =>
        match select_vec b v0 v1, select_struct b s0' s1' with
        | Some v, Some r => Some (v :: r)
        | _, _ => None
        end
    | _, _ => None
    end.
End Select.

Definition same_shape {R} (s0 s1 : list (list R)) : Prop := map (@length R) s0 = map (@length R) s1.

(* ------------------------------------------------------------------------------------------ *)
(* C20: verifier data carried in the public inputs of a cyclic proof.
   CircuitBuilder::add_verifier_data_public_inputs registers circuit_digest (4 elements) and then
   the cap hashes in order; VerifierOnlyCircuitData::from_slice reads them back from the END of
   the public inputs:
       ensure!(len >= 4 + 4 * cap_len);
       cap[i][j]  = slice[len - 4 * (cap_len - i) + j]
       digest     = HashOut::from_partial(&slice[len - 4 - 4 * cap_len..len - 4 * cap_len])        *)
Section Cyclic.
  Context {A : Type} (d : A).

  Definition hash_at (s : list A) (start : nat) : list A :=
    map (fun j => nth (start + j) s d) (seq 0 4).

  (* (constants_sigmas_cap, circuit_digest); None = Err("Not enough public inputs") *)
  Definition from_slice (cap_len : nat) (s : list A) : option (list (list A) * list A) :=
    let len := length s in
    if len <? 4 + 4 * cap_len then None
    else Some (map (fun i => hash_at s (len - 4 * (cap_len - i))) (seq 0 cap_len),
               firstn 4 (skipn (len - 4 - 4 * cap_len) s)).

  (* the slice add_verifier_data_public_inputs appends to the public inputs *)
  Definition vd_pis (cap : list (list A)) (digest : list A) : list A := digest ++ concat cap.

  Definition wf_vd (cap_len : nat) (cap : list (list A)) (digest : list A) : Prop :=
    length cap = cap_len /\ Forall (fun h => length h = 4) cap /\ length digest = 4.

  Context (eqb : A -> A -> bool).
  Fixpoint list_eqb (a b : list A) : bool :=
    match a, b with
    | [], [] => true
    | x :: a', y :: b' => eqb x y && list_eqb a' b'
    | _, _ => false
    end.
  Fixpoint cap_eqb (a b : list (list A)) : bool :=
    match a, b with
    | [], [] => true
    | x :: a', y :: b' => list_eqb x y && cap_eqb a' b'
    | _, _ => false
    end.

  (* check_cyclic_proof_verifier_data: true = Ok(()), false = Err *)
  Definition check_cyclic (cap_len : nat) (pis : list A) (cap : list (list A)) (digest : list A) : bool :=
    match from_slice cap_len pis with
    | None => false
    | Some (c, dg) => cap_eqb cap c && list_eqb digest dg
    end.
End Cyclic.

(* ------------------------------------------------------------------------------------------ *)
(* C06: bit decompositions.  split_le(x, n): n wires forced to {0,1} by BaseSumGate<2>, and the
   FIELD equation  sum_i b_i 2^i = x.  low_bits(x, k, 64) keeps the first k of the 64 bits. *)
Local Open Scope Z_scope.

Fixpoint le_sum (bits : list Z) : Z :=
  match bits with [] => 0 | b :: r => b + 2 * le_sum r end.

Definition is_bits (bits : list Z) : Prop := Forall (fun b => b = 0 \/ b = 1) bits.

Fixpoint to_bits (n : nat) (y : Z) : list Z :=
  match n with O => [] | S k => y mod 2 :: to_bits k (y / 2) end.

(* the constraint system of split_le(x, n) on an advice vector [bits], x a canonical residue *)
Definition split_le_ok (x : Z) (n : nat) (bits : list Z) : Prop :=
  length bits = n /\ is_bits bits /\ le_sum bits mod P = x.

Definition low_bits_of (k : nat) (bits : list Z) : list Z := firstn k bits.

(* the same sum computed in the field, as the circuit does (Horner from the top limb) *)
Definition le_sum_F (bits : list Z) : Fp :=
  fold_right (fun b acc => fadd (toFp b) (fmul (toFp 2) acc)) (toFp 0) bits.

(* u64::leading_zeros *)
Definition bit_length (x : Z) : Z := if x =? 0 then 0 else Z.log2 x + 1.
Definition leading_zeros64 (x : Z) : Z := 64 - bit_length x.

(* native: fri_pow_response.to_canonical_u64().leading_zeros() >= proof_of_work_bits + (64 - 64) *)
Definition pow_native_ok (k : nat) (x : Z) : bool := Z.of_nat k <=? leading_zeros64 x.
(* circuit: assert_leading_zeros(x, k) = range_check(x, 64 - k) = split_le(x, 64 - k) *)
Definition pow_circuit_ok (k : nat) (x : Z) : Prop := exists bits, split_le_ok x (64 - k) bits.

Local Close Scope Z_scope.

(* ------------------------------------------------------------------------------------------ *)
(* C06: reducing factors. *)
Section Reduce.
  Context {F : Type} `{FO : FieldOps F}.
  Local Open Scope field_scope.

  (* sum_i alpha^i x_i, as a definition by recursion on the list *)
  Fixpoint wsum (alpha : F) (xs : list F) : F :=
    match xs with [] => 0 | x :: r => x + alpha * wsum alpha r end.

  (* the same with explicit powers *)
  Fixpoint wsum_pow (alpha : F) (i : nat) (xs : list F) : F :=
    match xs with [] => 0 | x :: r => fpow alpha i * x + wsum_pow alpha (S i) r end.

  (* ReducingFactor::reduce: iter.rev().fold(ZERO, |acc, x| base * acc + x) *)
  Definition reduce (alpha : F) (xs : list F) : F :=
    fold_left (fun acc x => alpha * acc + x) (rev xs) 0.

  (* ReducingFactorTarget::reduce_arithmetic: terms.rev().fold(zero, |acc, et| mul_add(base, acc, et)) *)
  Definition reduce_arithmetic (alpha : F) (xs : list F) : F :=
    fold_left (fun acc x => alpha * acc + x) (rev xs) 0.

  (* one Reducing(Extension)Gate row: acc_{i+1} = acc_i * alpha + coeff_i *)
  Definition gate_fold (alpha : F) (acc : F) (chunk : list F) : F :=
    fold_left (fun a c => a * alpha + c) chunk acc.

  (* while reversed_terms.len() % max_coeffs_len != 0 { push(zero) } ; fuel = max_coeffs_len *)
  Fixpoint pad_loop {A} (fuel m : nat) (z : A) (l : list A) : list A :=
    match fuel with
    | O => l
    | S f => if Nat.eqb (length l mod m) 0 then l else pad_loop f m z (l ++ [z])
    end.

  (* slice::chunks_exact(m) (a remainder shorter than m is dropped); fuel = length *)
  Fixpoint chunks_exact_fuel {A} (fuel m : nat) (l : list A) : list (list A) :=
    match fuel with
    | O => []
    | S f => if Nat.ltb (length l) m then [] else firstn m l :: chunks_exact_fuel f m (skipn m l)
    end.
  Definition chunks_exact {A} (m : nat) (l : list A) : list (list A) := chunks_exact_fuel (length l) m l.

  (* the gate path of ReducingFactorTarget::reduce with max_coeffs_len = m *)
  Definition reduce_gates (m : nat) (alpha : F) (xs : list F) : F :=
    let padded := pad_loop m m 0 xs in
    fold_left (gate_fold alpha) (chunks_exact m (rev padded)) 0.

  (* ReducingFactorTarget::reduce: arithmetic gates for short inputs (l <= num_ops + 1 = t) *)
  Definition reduce_target (t m : nat) (alpha : F) (xs : list F) : F :=
    if Nat.leb (length xs) t then reduce_arithmetic alpha xs else reduce_gates m alpha xs.

  (* ReducingFactorTarget::reduce_base: base-field terms, embedded by [emb]
     (convert_to_ext / the base coefficient wires of ReducingGate), padded with the base zero *)
  Definition reduce_base_target {B} (emb : B -> F) (bzero : B) (t m : nat) (alpha : F) (ts : list B) : F :=
    if Nat.leb (length ts) t then reduce_arithmetic alpha (map emb ts)
    else fold_left (gate_fold alpha) (chunks_exact m (rev (map emb (pad_loop m m bzero ts)))) 0.
End Reduce.

(* ------------------------------------------------------------------------------------------ *)
(* C11: transcript of the FRI commit phase with padding (variable-degree recursion).
   A transcript is the list of challenger operations. Caps are lists of hashes (lists of
   elements); extension elements are lists of D coordinates. *)
Section Transcript.
  Context {A : Type} (z : A).

  Inductive top : Type :=
  | Obs (x : A)        (* observe_element *)
  | GetExt.            (* get_extension_challenge *)

  Definition obs_elems (l : list A) : list top := map Obs l.
  Definition obs_cap (cap : list (list A)) : list top := obs_elems (concat cap).         (* observe_cap *)
  Definition obs_exts (l : list (list A)) : list top := obs_elems (concat l).            (* observe_extension_elements *)

  (* the all-zero structures *)
  Definition zero_cap (cap_height : nat) : list (list A) := repeat (repeat z 4) (2 ^ cap_height).
  Definition zero_ext (D : nat) : list A := repeat z D.

  (* `for _ in a..b { body }` *)
  Definition for_range (a b : nat) (body : list top) : list top := concat (repeat body (b - a)).

  (* fri_committed_trees (fri/prover.rs): per reduction step observe the cap and draw beta;
     then the dummy rounds; then the final polynomial and its zero padding *)
  Definition prover_ops (cap_height D : nat) (caps : list (list (list A))) (final : list (list A))
             (final_poly_coeff_len max_num_query_steps : option nat) : list top :=
    concat (map (fun cap => obs_cap cap ++ [GetExt]) caps)
    ++ (match max_num_query_steps with
        | Some step_count =>
            for_range (length caps) step_count (obs_elems (repeat z (2 ^ cap_height * 4)) ++ [GetExt])
        | None => []
        end)
    ++ obs_exts final
    ++ (match final_poly_coeff_len with
        | Some len => for_range (length final) len (obs_elems (zero_ext D))
        | None => []
        end).

  (* Challenger::fri_challenges (fri/challenges.rs), the part between fri_alpha and pow_witness *)
  Definition native_ops (cap_height D : nat) (caps : list (list (list A))) (final : list (list A))
             (final_poly_coeff_len max_num_query_steps : option nat) : list top :=
    let betas := concat (map (fun cap => obs_cap cap ++ [GetExt]) caps) in
    let dummy := match max_num_query_steps with
                 | Some step_count =>
                     for_range (length caps) step_count (obs_elems (repeat z (2 ^ cap_height * 4)) ++ [GetExt])
                 | None => []
                 end in
    let fin := obs_exts final in
    let pad := match final_poly_coeff_len with
               | Some len => for_range (length final) len (obs_elems (zero_ext D))
               | None => []
               end in
    betas ++ dummy ++ fin ++ pad.

  (* RecursiveChallenger::fri_challenges on the proof TARGET, which always has the maximal shape *)
  Definition circuit_ops (caps_t : list (list (list A))) (final_t : list (list A)) : list top :=
    concat (map (fun cap => obs_cap cap ++ [GetExt]) caps_t) ++ obs_exts final_t.

  (* set_fri_proof_target (fri/witness_util.rs): the proof's caps / coefficients, then zeros *)
  Definition pad_caps (cap_height : nat) (caps : list (list (list A))) (n : nat) : list (list (list A)) :=
    caps ++ repeat (zero_cap cap_height) (n - length caps).
  Definition pad_final (D : nat) (final : list (list A)) (n : nat) : list (list A) :=
    final ++ repeat (zero_ext D) (n - length final).
End Transcript.
