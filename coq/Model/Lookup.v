(* C08 model: the logarithmic-derivative lookup argument as computed by plonky2.
   - plonk/vanishing_poly.rs: get_lut_poly, check_lookup_constraints (RE, partial Sum/LDC = SLDC
     polynomials, chunked by quotient_degree_factor - 1, selectors TransSre, TransLdc, InitSre,
     LastLdc, then one end selector per table);
   - gates/selectors.rs: selectors_lookup, selector_ends_lookups;
   - plonk/prover.rs: compute_lookup_polys (arrays over all rows, filled bottom-up per table:
     table rows first_lut..last_lut, then looking rows last_lut-1..last_lu), set_lookup_wires'
     multiplicity count.
   Executable definitions only, over FieldOps; the field of the verifier (extension) and of the
   prover (base) are the same [F] here. Partial operations (slice indexing, usize underflow,
   division by zero, inversion of zero in batch_multiplicative_inverse) return None. *)
From Coq Require Import List Arith Bool.
From Verif Require Import Base.Field Model.Permutation.
Import ListNotations.
Local Open Scope field_scope.

Section LookupModel.
  Context {F : Type} `{FO : FieldOps F}.

  Definition div_ceil (a b : nat) : nat := ((a + b - 1) / b)%nat.   (* callers guard b = 0 (Rust: panic) *)
  Definition range (lo hi : nat) : list nat := seq lo (hi - lo)%nat.
  (* slots poly*deg .. min((poly+1)*deg, nslots) of one partial polynomial *)
  Definition slot_range (poly deg nslots : nat) : list nat :=
    range (poly * deg)%nat (Nat.min ((poly + 1) * deg)%nat nslots).

  Definition wire (w : list F) (i : nat) : F := nth i w 0.
  (* LookupGate: wire_ith_looking_inp = 2i, _out = 2i+1; LookupTableGate: looked_inp = 3i, _out = 3i+1, multiplicity = 3i+2 *)
  Definition looking_combo (c : F) (w : list F) (s : nat) : F := wire w (2 * s) + c * wire w (2 * s + 1).
  Definition looked_combo (c : F) (w : list F) (s : nat) : F := wire w (3 * s) + c * wire w (3 * s + 1).
  Definition multiplicity (w : list F) (s : nat) : F := wire w (3 * s + 2).

  (* deltas[ChallengeA], [ChallengeB], [ChallengeAlpha], [ChallengeDelta] *)
  Record challenges : Type := { ch_a : F; ch_b : F; ch_alpha : F; ch_delta : F }.


  (* PolynomialCoeffs::eval: fold over the reversed coefficients, acc * x + c *)
  Definition poly_eval (coeffs : list F) (x : F) : F := fold_left (fun acc c => acc * x + c) (rev coeffs) 0.

  (* get_lut_poly: combos with challenge B, padded with the first entry to a multiple of the slot count,
     zero-filled to [degree], reversed. [luts[i][0]] panics on an empty table. *)
  Definition get_lut_poly (tab : list (F * F)) (b : F) (nb_slots degree : nat) : option (list F) :=
    match tab with
    | [] => None
    | (pi, po) :: _ =>
      let n := length tab in
      let pad := (nb_slots - n mod nb_slots) mod nb_slots in
      if degree <? n + pad then None       (* usize underflow *)
      else Some (rev (map (fun '(i, o) => i + b * o) tab ++ repeat (pi + b * po) pad ++ repeat 0 (degree - (n + pad))))
    end.

  Definition lut_poly_eval (tab : list (F * F)) (ch : challenges) (nlut : nat) : option F :=
    match get_lut_poly tab (ch_b ch) nlut (nlut * div_ceil (length tab) nlut) with
    | Some cs => Some (poly_eval cs (ch_delta ch))
    | None => None
    end.

  Fixpoint sequence {A} (l : list (option A)) : option (list A) :=
    match l with
    | [] => Some []
    | None :: _ => None
    | Some a :: t => match sequence t with Some t' => Some (a :: t') | None => None end
    end.

  (* selector indices: TransSre = 0, TransLdc = 1, InitSre = 2, LastLdc = 3, StartEnd = 4 *)
  Definition sel (sels : list F) (i : nat) : F := nth i sels 0.

  (* products prod_{j in r}(alpha - combo_j) and prod_{j in r, j <> i} *)
  Definition prod_all (f : nat -> F) (r : list nat) : F := fprodl (map f r).
  Definition prod_except (f : nat -> F) (r : list nat) (i : nat) : F :=
    fprodl (map (fun j => if Nat.eqb j i then 1 else f j) r).

  (* the two transition constraints of partial polynomial [poly], unfiltered *)
  Definition sum_transition (alpha : F) (a : F) (w : list F) (r : list nat) (z prev : F) : F :=
    let f j := alpha - looked_combo a w j in
    prod_all f r * (z - prev)
    - fold_left (fun acc i => acc + multiplicity w i * prod_except f r i) r 0.
  Definition ldc_transition (alpha : F) (a : F) (w : list F) (r : list nat) (z prev : F) : F :=
    let f j := alpha - looking_combo a w j in
    prod_all f r * (z - prev)
    + fold_left (fun acc i => acc + prod_except f r i) r 0.

  (* RE transition: cur = next_z_re; for each slot cur = cur * delta + combo_b *)
  Definition re_fold (delta : F) (start : F) (combos : list F) : F :=
    fold_left (fun cur e => cur * delta + e) combos start.

  (* check_lookup_constraints *)
  Definition lookup_constraints (num_routed qdf : nat) (luts : list (list (F * F))) (ch : challenges)
             (wires local_zs next_zs sels : list F) : option (list F) :=
    let nlu := (num_routed / 2)%nat in
    let nlut := (num_routed / 3)%nat in
    match local_zs, next_zs with
    | z_re :: zx, nz_re :: zgx =>
      let num_sldc := length zx in
      if (qdf =? 0)%nat || (num_sldc =? 0)%nat || (nlut =? 0)%nat
         || (length zgx <? num_sldc)%nat || (length sels <? 4 + length luts)%nat
         || (length wires <? num_routed)%nat
      then None
      else
        let lu_degree := (qdf - 1)%nat in
        let lut_degree := div_ceil nlut num_sldc in
        match sequence (map (fun tab => lut_poly_eval tab ch nlut) luts) with
        | None => None
        | Some evals =>
          let ends := map (fun '(r, ev) => sel sels (4 + r) * (z_re - ev)) (combine (seq 0 (length luts)) evals) in
          let re_line := z_re - re_fold (ch_delta ch) nz_re (map (looked_combo (ch_b ch) wires) (seq 0 nlut)) in
          let trans := flat_map (fun poly =>
                         let prev := if (poly =? 0)%nat then nth (num_sldc - 1) zgx 0 else nth (poly - 1) zx 0 in
                         let z := nth poly zx 0 in
                         [ sel sels 0 * sum_transition (ch_alpha ch) (ch_a ch) wires (slot_range poly lut_degree nlut) z prev;
                           sel sels 1 * ldc_transition (ch_alpha ch) (ch_a ch) wires (slot_range poly lu_degree nlu) z prev ])
                       (seq 0 num_sldc) in
          Some ([ sel sels 3 * nth (num_sldc - 1) zx 0;      (* last LDC *)
                  sel sels 2 * nth (num_sldc - 1) zx 0;      (* initial Sum: the LAST partial polynomial, the one the first
                                                                table row's transition starts from (repo commit bfbd0f1;
                                                                before it the code pinned partial polynomial 0) *)
                  sel sels 2 * z_re ]                        (* initial RE *)
                ++ ends ++ [ sel sels 0 * re_line ] ++ trans)
        end
    | _, _ => None
    end.

  (* ---- the placement of one table and its selectors *)
  Record region : Type := { last_lu : nat; last_lut : nat; first_lut : nat }.

  Definition b2f (b : bool) : F := if b then 1 else 0.
  Definition in_range (lo hi row : nat) : bool := (lo <=? row)%nat && (row <? hi)%nat.
  (* selectors_lookup ++ selector_ends_lookups, read at one row *)
  Definition lookup_selectors_at (regions : list region) (row : nat) : list F :=
    [ b2f (existsb (fun g => in_range (last_lut g) (first_lut g + 1) row) regions);
      b2f (existsb (fun g => in_range (last_lu g) (last_lut g) row) regions);
      b2f (existsb (fun g => (row =? first_lut g + 1)%nat) regions);
      b2f (existsb (fun g => (row =? last_lu g)%nat) regions) ]
    ++ map (fun g => b2f (row =? last_lut g)%nat) regions.

  (* ---- prover: compute_lookup_polys *)
  Definition upd {A} (l : list A) (i : nat) (v : A) : list A := firstn i l ++ v :: skipn (S i) l.
  Definition getv (polys : list (list F)) (k row : nat) : F := nth row (nth k polys []) 0.
  Definition setv (polys : list (list F)) (k row : nat) (v : F) : list (list F) :=
    upd polys k (upd (nth k polys []) row v).

  Definition any_zero (l : list F) : bool := existsb (fun x => x =? 0) l.

  (* one LookupTableGate row: RE, then the partial sums *)
  Definition lut_row_step (nlut npl max_lut_degree : nat) (ch : challenges) (w : list F) (n : nat)
             (polys : list (list F)) (row : nat) : option (list (list F)) :=
    let factors := map (fun s => ch_alpha ch - looked_combo (ch_a ch) w s) (seq 0 nlut) in
    if any_zero factors then None                         (* batch_multiplicative_inverse inverts zero *)
    else if (n <=? S row)%nat then None                   (* values[row + 1] out of bounds *)
    else
      let new_re := re_fold (ch_delta ch) (getv polys 0 (S row)) (map (looked_combo (ch_b ch) w) (seq 0 nlut)) in
      let polys := setv polys 0 row new_re in
      Some (fold_left (fun polys slot =>
              let prev := if (slot =? 0)%nat then getv polys npl (S row) else getv polys slot row in
              let sum := fold_left (fun acc s => acc + multiplicity w s * finv (ch_alpha ch - looked_combo (ch_a ch) w s))
                                   (slot_range slot max_lut_degree nlut) prev in
              setv polys (S slot) row sum) (seq 0 npl) polys).

  (* one LookupGate row *)
  Definition lu_row_step (nlu npl max_lu_degree : nat) (ch : challenges) (w : list F) (n : nat)
             (polys : list (list F)) (row : nat) : option (list (list F)) :=
    let factors := map (fun s => ch_alpha ch - looking_combo (ch_a ch) w s) (seq 0 nlu) in
    if any_zero factors then None
    else if (n <=? S row)%nat then None
    else
      Some (fold_left (fun polys slot =>
              let prev := if (slot =? 0)%nat then getv polys npl (S row) else getv polys slot row in
              let sum := fold_left (fun acc s => acc + finv (ch_alpha ch - looking_combo (ch_a ch) w s))
                                   (slot_range slot max_lu_degree nlu) 0 in
              setv polys (S slot) row (prev - sum)) (seq 0 npl) polys).

  Fixpoint fold_opt {A B} (f : A -> B -> option A) (l : list B) (a : A) : option A :=
    match l with
    | [] => Some a
    | b :: t => match f a b with Some a' => fold_opt f t a' | None => None end
    end.

  (* [matrix row] = the wires of that row *)
  Definition compute_lookup_polys (n num_routed max_qdf : nat) (matrix : nat -> list F) (ch : challenges)
             (regions : list region) : option (list (list F)) :=
    let nlu := (num_routed / 2)%nat in
    let nlut := (num_routed / 3)%nat in
    if (max_qdf <=? 1)%nat then None             (* max_lookup_degree = 0: div_ceil divides by zero *)
    else
      let max_lu_degree := (max_qdf - 1)%nat in
      let npl := div_ceil nlu max_lu_degree in
      if (npl =? 0)%nat then None                (* div_ceil(num_lut_slots, 0) *)
      else
        let max_lut_degree := div_ceil nlut npl in
        let init := repeat (repeat 0 n) (npl + 1) in
        fold_opt (fun polys g =>
            match fold_opt (fun polys row => lut_row_step nlut npl max_lut_degree ch (matrix row) n polys row)
                           (rev (range (last_lut g) (first_lut g + 1))) polys with
            | Some polys => fold_opt (fun polys row => lu_row_step nlu npl max_lu_degree ch (matrix row) n polys row)
                                     (rev (range (last_lu g) (last_lut g))) polys
            | None => None
            end) regions init.

  (* ---- set_lookup_wires: multiplicities = how often each table index is hit (the index of an input is
     looked up in a map from input value to table index) *)
  Definition multiplicities (table_len : nat) (hits : list nat) : list nat :=
    map (fun e => count_occ Nat.eq_dec hits e) (seq 0 table_len).
End LookupModel.
