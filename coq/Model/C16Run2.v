(* C16 correspondence, part 2: FriProof::compress, CompressedFriProof::decompress and
   get_inferred_elements (Model/FriCompress.v) against the real functions (harness/src/c16b.rs).

   Flat formats (all lists length-prefixed, a digest = 4 field elements, an extension element =
   2 field elements, as in harness/src/corpus.rs):
     fri proof   = dump_fri_proof
     params      = dump_fri_params
     compressed  = caps, indices, initial map, step maps, final poly, pow witness where
                   initial map = #entries, then per entry  key, #oracles, per oracle (evals, path)
                   step maps   = #maps, per map #entries, then per entry  key, evals (ext), path
                   with the entries of every map in ASCENDING KEY ORDER (HashMap order is unspecified)
   op fricompress    proof, indices, params                       -> compressed
   op fridecompress  compressed, indices, inferred (ext), params  -> proof
   op friinferred    instance, openings, challenges (as op friverify), compressed, params -> inferred
   None = the model says the real code panics. *)
From Coq Require Import ZArith List Bool.
From Verif Require Import Base.Field Base.Reader Model.Fp Model.Fp2 Model.PoseidonSpec Model.Fri Model.Plonk
  Model.C05Run Model.Dedup Model.FriCompress.
Import ListNotations.
Local Open Scope nat_scope.

Definition e_list {A} (f : A -> list Z) (l : list A) : list Z := Z.of_nat (length l) :: flat_map f l.
Definition e_nat (n : nat) : list Z := [Z.of_nat n].
Definition e_fp (x : Fp) : list Z := [fval x].
Definition e_fp2 (x : Fp2) : list Z := [fval (fst x); fval (snd x)].
Definition e_digest (d : digest) : list Z := map fval d.
Definition e_cap (c : list digest) : list Z := e_list e_digest c.
Definition e_initial (ip : list (list Fp * list digest)) : list Z :=
  e_list (fun il => e_list e_fp (fst il) ++ e_list e_digest (snd il)) ip.
Definition e_step (s : fri_query_step) : list Z :=
  e_list e_fp2 (fs_evals s) ++ e_list e_digest (fs_siblings s).

Definition e_fri_proof (pr : fri_proof) : list Z :=
  e_list e_cap (fp_caps pr)
  ++ e_list (fun q => e_initial (qr_initial q) ++ e_list e_step (qr_steps q)) (fp_rounds pr)
  ++ e_list e_fp2 (fp_final pr) ++ e_fp (fp_pow_witness pr).

(* insertion sort of an association list by key *)
Fixpoint ins_key {V} (kv : nat * V) (l : list (nat * V)) : list (nat * V) :=
  match l with
  | [] => [kv]
  | kv' :: t => if fst kv <=? fst kv' then kv :: l else kv' :: ins_key kv t
  end.
Definition sort_keys {V} (l : list (nat * V)) : list (nat * V) := fold_right ins_key [] l.

Definition e_compressed (cp : compressed_fri_proof) : list Z :=
  let cq := cfp_rounds cp in
  e_list e_cap (cfp_caps cp)
  ++ e_list e_nat (cq_indices cq)
  ++ e_list (fun kv => e_nat (fst kv) ++ e_initial (snd kv)) (sort_keys (cq_initial cq))
  ++ e_list (fun m => e_list (fun kv => e_nat (fst kv) ++ e_step (snd kv)) (sort_keys m)) (cq_steps cq)
  ++ e_list e_fp2 (cfp_final cp) ++ e_fp (cfp_pow_witness cp).

Definition rd_initial : R (list (list Fp * list digest)) :=
  rd_list (rd_pair (rd_list rd_fp) (rd_list rd_digest)).
Definition rd_step : R fri_query_step :=
  rdo ev <- rd_list rd_fp2 ;; rdo sb <- rd_list rd_digest ;; rret {| fs_evals := ev; fs_siblings := sb |}.

Definition rd_compressed : R compressed_fri_proof :=
  rdo caps <- rd_list rd_cap ;;
  rdo ix <- rd_list rd_nat ;;
  rdo mi <- rd_list (rd_pair rd_nat rd_initial) ;;
  rdo ms <- rd_list (rd_list (rd_pair rd_nat rd_step)) ;;
  rdo fin <- rd_list rd_fp2 ;;
  rdo pw <- rd_fp ;;
  rret {| cfp_caps := caps;
          cfp_rounds := {| cq_indices := ix; cq_initial := mi; cq_steps := ms |};
          cfp_final := fin; cfp_pow_witness := pw |}.

Definition run_fricompress (a : list Z) : option (list Z) :=
  let rd := rdo pr <- rd_fri_proof ;; rdo ix <- rd_list rd_nat ;; rdo p <- rd_fri_params ;; rret (pr, ix, p) in
  match run_reader rd a with
  | Some (pr, ix, p) => option_map e_compressed (compress pr ix p)
  | None => None
  end.

Definition run_fridecompress (a : list Z) : option (list Z) :=
  let rd := rdo cp <- rd_compressed ;; rdo ix <- rd_list rd_nat ;; rdo inf <- rd_list rd_fp2 ;;
            rdo p <- rd_fri_params ;; rret (cp, ix, inf, p) in
  match run_reader rd a with
  | Some (cp, ix, inf, p) => option_map e_fri_proof (decompress p_hash_or_noop p_two_to_one cp ix inf p)
  | None => None
  end.

Definition run_friinferred (a : list Z) : option (list Z) :=
  let rd := rdo inst <- rd_instance_fri ;; rdo ops <- rd_list (rd_list rd_fp2) ;; rdo ch <- rd_fri_challenges ;;
            rdo cp <- rd_compressed ;; rdo p <- rd_fri_params ;; rret (inst, ops, ch, cp, p) in
  match run_reader rd a with
  | Some (inst, ops, ch, cp, p) => option_map (e_list e_fp2) (get_inferred_elements inst ops ch cp p)
  | None => None
  end.
