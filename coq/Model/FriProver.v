(* A model of the honest FRI prover with the challenges given (no transcript, no grinding search,
   no blinding): PolynomialBatch leaves (values of the oracle polynomials on the bit-reversed LDE
   coset), prove_openings' combined quotient polynomial (fri/oracle.rs), fri_committed_trees'
   folding on coefficient lists and fri_prover_query_round (fri/prover.rs).
   Values are computed by direct evaluation (that coset_fft computes these values is C15's
   theorem); Merkle caps and paths come from the C12 model (Model/Merkle.v).
   Used for the completeness statements of Proofs/FriHonest.v and the examples of Props/C05.v. *)
From Coq Require Import ZArith List Bool Lia.
From Verif Require Import Base.Field Base.Poly Gen.FieldConsts Model.Fp Model.Fp2 Model.FieldGeneric Model.Fri.
From Verif Require Model.Merkle.
Import ListNotations.
Local Open Scope nat_scope.

(* the point of index j (bit-reversed order) of the domain of the layer reached after folding
   s bits: shift^(2^s) * w_n^(reverse_bits j n), n = log2 of the layer's size *)
Definition layer_point (s n j : nat) : Fp :=
  (exp_power_of_2 coset_shift s
   * exp_u64 (primitive_root_of_unity n) (N.of_nat (reverse_bits j n)))%F.

Fixpoint chunks_exact {A} (count r : nat) (l : list A) : list (list A) :=
  match count with
  | O => []
  | S c => firstn r l :: chunks_exact c r (skipn r l)
  end.

Section Prover.
  Variable hash_or_noop : list Fp -> digest.
  Variable two_to_one : digest -> digest -> digest.
  Local Open Scope field_scope.

  Notation mcap := (Merkle.merkle_cap Fp digest hash_or_noop two_to_one).
  Notation mprove := (Merkle.merkle_prove Fp digest hash_or_noop two_to_one).

  (* ---- PolynomialBatch: leaf j = the values of all polynomials of the oracle at point j *)
  Definition oracle_leaves (log_n : nat) (polys : list (list Fp)) : list (list Fp) :=
    map (fun j => map (fun f => peval f (layer_point 0 log_n j)) polys) (seq 0 (2 ^ log_n)).

  Definition poly_of (oracles : list (list (list Fp))) (pi : poly_info) : list Fp :=
    nth (polynomial_index pi) (nth (oracle_index pi) oracles []) [].

  (* ---- the claimed openings: every polynomial of a batch at the batch's point *)
  Definition honest_openings (oracles : list (list (list Fp))) (bs : list batch_info) : list (list Fp2) :=
    map (fun b => map (fun pi => peval (map fp2_of_base (poly_of oracles pi)) (point b)) (polynomials b)) bs.

  (* ---- prove_openings: final_poly = sum_i alpha^(k_i) (F_i(X) - F_i(z_i)) / (X - z_i) *)
  (* ReducingFactor::reduce_polys_base: sum_j alpha^j f_j (Horner from the last polynomial) *)
  Definition reduce_polys (alpha : Fp2) (polys : list (list Fp)) : list Fp2 :=
    fold_right (fun f acc => padd (map fp2_of_base f) (pscale alpha acc)) [] polys.

  Definition combined_poly (oracles : list (list (list Fp))) (alpha : Fp2) (bs : list batch_info) : list Fp2 :=
    fold_left (fun final b =>
                 let polys := map (poly_of oracles) (polynomials b) in
                 let quotient := fst (div_linear (reduce_polys alpha polys) (point b)) ++ [0] in
                 padd (pscale (fpow alpha (length polys)) final) quotient)
              bs [].

  (* ---- fri_committed_trees: per layer the opened cosets (evals of each leaf), then the folding *)
  Definition layer_cosets (coeffs : list Fp2) (s n a : nat) : list (list Fp2) :=
    map (fun c => map (fun t => peval2 coeffs (fp2_of_base (layer_point s n (c * 2 ^ a + t)))) (seq 0 (2 ^ a)))
        (seq 0 (2 ^ (n - a))).

  Definition fold_poly (coeffs : list Fp2) (a : nat) (beta : Fp2) : list Fp2 :=
    map (fun ch => peval2 ch beta) (chunks_exact (length coeffs / 2 ^ a) (2 ^ a) coeffs).

  Fixpoint commit_layers (coeffs : list Fp2) (s n : nat) (arities : list nat) (betas : list Fp2)
    : list (list (list Fp2)) * list Fp2 :=
    match arities, betas with
    | a :: at', beta :: bt =>
      let '(ls, fin) := commit_layers (fold_poly coeffs a beta) (s + a) (n - a) at' bt in
      (layer_cosets coeffs s n a :: ls, fin)
    | _, _ => ([], coeffs)
    end.

  (* ---- fri_prover_query_round *)
  Fixpoint query_steps_of (layers : list (list (list Fp2))) (arities : list nat) (cap_h x_index : nat)
    : option (list fri_query_step) :=
    match layers, arities with
    | cosets :: lt, a :: at' =>
      let c := (x_index / 2 ^ a)%nat in
      match mprove (map flatten2 cosets) cap_h c, query_steps_of lt at' cap_h c with
      | Some path, Some rest => Some ({| fs_evals := nth c cosets []; fs_siblings := path |} :: rest)
      | _, _ => None
      end
    | _, _ => Some []
    end.

  Fixpoint initial_of (all_leaves : list (list (list Fp))) (cap_h x_index : nat)
    : option (list (list Fp * list digest)) :=
    match all_leaves with
    | [] => Some []
    | leaves :: lt =>
      match mprove leaves cap_h x_index, initial_of lt cap_h x_index with
      | Some path, Some rest => Some ((nth x_index leaves [], path) :: rest)
      | _, _ => None
      end
    end.

  Fixpoint all_some {A} (l : list (option A)) : option (list A) :=
    match l with
    | [] => Some []
    | Some a :: t => match all_some t with Some r => Some (a :: r) | None => None end
    | None :: _ => None
    end.

  Record honest_output := {
    ho_caps : list (list digest);          (* initial_merkle_caps *)
    ho_openings : list (list Fp2);
    ho_proof : fri_proof }.

  (* oracles: per oracle the coefficient lists (each of length 2^degree_bits) of its polynomials *)
  Definition honest_prove (inst : fri_instance) (p : fri_params) (oracles : list (list (list Fp)))
             (ch : fri_challenges) (pow_witness : Fp) : option honest_output :=
    let log_n := lde_bits p in
    let cap_h := cap_height (config p) in
    let all_leaves := map (oracle_leaves log_n) oracles in
    let final_poly := combined_poly oracles (fri_alpha ch) (batches inst) in
    (* final_poly.lde(rate_bits): zero-padded to 2^log_n coefficients *)
    let lde_poly := final_poly ++ repeat 0 (2 ^ log_n - length final_poly) in
    let '(layers, last) := commit_layers lde_poly 0 log_n (reduction_arity_bits p) (fri_betas ch) in
    (* coeffs.truncate(coeffs.len() >> rate_bits) *)
    let final_coeffs := firstn (length last / 2 ^ rate_bits (config p)) last in
    match all_some (map (fun leaves => mcap leaves cap_h) all_leaves),
          all_some (map (fun cosets => mcap (map flatten2 cosets) cap_h) layers),
          all_some (map (fun x => match initial_of all_leaves cap_h x,
                                        query_steps_of layers (reduction_arity_bits p) cap_h x with
                                  | Some i, Some st => Some {| qr_initial := i; qr_steps := st |}
                                  | _, _ => None
                                  end) (fri_query_indices ch)) with
    | Some caps, Some lcaps, Some rounds =>
      Some {| ho_caps := caps;
              ho_openings := honest_openings oracles (batches inst);
              ho_proof := {| fp_caps := lcaps; fp_rounds := rounds; fp_final := final_coeffs;
                             fp_pow_witness := pow_witness |} |}
    | _, _, _ => None
    end.
End Prover.
