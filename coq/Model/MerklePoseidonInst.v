(* Concrete hashers for the Merkle model (Model/Merkle.v), over F := Fp, digest := list Fp
   (a HashOut: 4 elements).

   1. [hash_or_noop]: the default method of the Hasher trait (plonk/config.rs) for a hasher whose
      Hash is HashOut<F> and HASH_SIZE = 32: inputs of at most 4 elements are used verbatim,
      zero-padded to 4 elements; longer inputs go through [hash_no_pad].
   2. Poseidon: a LOCAL textbook copy of the permutation (full rounds / naive partial rounds /
      full rounds with the constants regenerated in Gen/PoseidonConsts.v), the overwrite-mode
      sponge [hash_n_to_hash_no_pad] and [compress] of hash/hashing.rs.  It exists so that the C12
      correspondence runs now; the C13 slice (Model/Sponge.v) owns the proved-equal model of the
      optimised permutation and can replace these three definitions without touching Merkle.v.
   3. ToyHash: a cheap non-cryptographic hasher implemented identically in harness/src/c12.rs
      (as a [Hasher] impl) and in tools/spec_c12.py; lets the whole tree code run inside Coq. *)
From Coq Require Import ZArith List Bool.
From Verif Require Import Base.Field Gen.FieldConsts Gen.PoseidonConsts Model.Fp Model.Merkle.
Import ListNotations.
Open Scope Z_scope.

Definition NUM_HASH_OUT_ELTS : nat := 4.

Definition digest_eqb (a b : list Fp) : bool :=
  (length a =? length b)%nat && forallb (fun p => feqb (fst p) (snd p)) (combine a b).

(* Hasher::hash_or_noop for Hash = HashOut, HASH_SIZE = 4 * 8 *)
Definition hash_or_noop (hash_no_pad : list Fp -> list Fp) (inputs : list Fp) : list Fp :=
  if (length inputs * 8 <=? 32)%nat
  then inputs ++ repeat (toFp 0) (NUM_HASH_OUT_ELTS - length inputs)
  else hash_no_pad inputs.

(* ---------------------------------------------------------------------------------------- *)
(* Poseidon (textbook), on canonical residues in Z *)

Definition addm (a b : Z) : Z := (a + b) mod P.
Definition mulm (a b : Z) : Z := (a * b) mod P.

Definition sbox_monomial (x : Z) : Z :=
  let x2 := mulm x x in
  let x4 := mulm x2 x2 in
  let x3 := mulm x x2 in
  mulm x3 x4.

Fixpoint map2 {A B C} (f : A -> B -> C) (l1 : list A) (l2 : list B) : list C :=
  match l1, l2 with
  | a :: r1, b :: r2 => f a b :: map2 f r1 r2
  | _, _ => []
  end.

(* The round constants are carried as bit lists (little endian) and rebuilt when the module is
   initialised: ExtrOcamlZBigInt turns every Z literal into a chain of closures, and ocamlopt
   overflows its default stack on a module with several hundred 64-bit literals.
   Proofs/Merkle.v proves [ROUND_CONSTANTS = ALL_ROUND_CONSTANTS] (regenerated table). *)
Fixpoint pbits (p : positive) : list bool :=
  match p with xH => [true] | xO q => false :: pbits q | xI q => true :: pbits q end.
Definition zbits (z : Z) : list bool := match z with Zpos p => pbits p | _ => [] end.
Definition of_bits (l : list bool) : Z :=
  fold_right (fun (b : bool) (acc : Z) => Z.add (if b then 1 else 0) (Z.mul 2 acc)) 0 l.
Definition ROUND_CONSTANT_BITS : list (list bool) := Eval vm_compute in map zbits ALL_ROUND_CONSTANTS.
Definition ROUND_CONSTANTS : list Z := map of_bits ROUND_CONSTANT_BITS.

(* ALL_ROUND_CONSTANTS[12 * r .. 12 * r + 12] for r = 0 .. 29 *)
Fixpoint rows (n : nat) (l : list Z) : list (list Z) :=
  match n with O => [] | S n' => firstn 12 l :: rows n' (skipn 12 l) end.
Definition ROUND_CONSTANT_ROWS : list (list Z) := rows 30 ROUND_CONSTANTS.

Definition constant_layer (st : list Z) (round_ctr : nat) : list Z :=
  map2 addm st (nth round_ctr ROUND_CONSTANT_ROWS []).

Definition dot (a b : list Z) : Z := fold_left Z.add (map2 Z.mul a b) 0.

(* mds_row_shf: sum_i v[(i + r) mod 12] * MDS_MATRIX_CIRC[i] + v[r] * MDS_MATRIX_DIAG[r] *)
Definition mds_row (st : list Z) (r : nat) : Z :=
  (dot (skipn r st ++ firstn r st) MDS_MATRIX_CIRC + nth r st 0 * nth r MDS_MATRIX_DIAG 0) mod P.

Definition mds_layer (st : list Z) : list Z := map (mds_row st) (seq 0 12).

Definition full_round (st : list Z) (r : nat) : list Z :=
  mds_layer (map sbox_monomial (constant_layer st r)).

Definition partial_round (st : list Z) (r : nat) : list Z :=
  match constant_layer st r with
  | x :: rest => mds_layer (sbox_monomial x :: rest)
  | [] => []
  end.

Definition poseidon_permute (st : list Z) : list Z :=
  let st := fold_left full_round (seq 0 4) st in
  let st := fold_left partial_round (seq 4 22) st in
  fold_left full_round (seq 26 4) st.

(* set_from_slice(chunk, 0) *)
Definition overwrite (st chunk : list Z) : list Z := chunk ++ skipn (length chunk) st.

(* inputs.chunks(RATE) ; fuel = number of inputs *)
Fixpoint absorb (fuel : nat) (st inputs : list Z) : list Z :=
  match fuel with
  | O => st
  | S f =>
    match inputs with
    | [] => st
    | _ => absorb f (poseidon_permute (overwrite st (firstn 8 inputs))) (skipn 8 inputs)
    end
  end.

(* hash_n_to_hash_no_pad: num_outputs = 4 <= RATE, one squeeze *)
Definition poseidon_hash_no_pad (inputs : list Fp) : list Fp :=
  map toFp (firstn 4 (absorb (length inputs) (repeat 0 12) (map fval inputs))).

(* hashing::compress *)
Definition poseidon_two_to_one (x y : list Fp) : list Fp :=
  map toFp (firstn 4 (poseidon_permute (map fval x ++ map fval y ++ repeat 0 4))).

Definition poseidon_hash_or_noop : list Fp -> list Fp := hash_or_noop poseidon_hash_no_pad.

(* ---------------------------------------------------------------------------------------- *)
(* ToyHash (NOT cryptographic; collisions are easy to find, which the binding theorem's
   explicit-collision conclusion makes visible) *)

Definition toy_lane (j : Z) (inputs : list Z) : Z :=
  fold_left (fun acc x => (acc * (31 + j) + x + 7) mod P) inputs (j + 1).

Definition toy_hash_no_pad (inputs : list Fp) : list Fp :=
  let xs := map fval inputs in
  map (fun j => toFp (toy_lane j xs)) [0; 1; 2; 3].

Definition toy_two_to_one (x y : list Fp) : list Fp :=
  let a := map fval x in
  let b := map fval y in
  map (fun j : nat =>
         toFp (nth j a 0 * 31 + nth ((j + 1) mod 4) b 0 * 17
               + nth ((j + 2) mod 4) a 0 * nth j b 0 + 7 + Z.of_nat j))
      [0; 1; 2; 3]%nat.

Definition toy_hash_or_noop : list Fp -> list Fp := hash_or_noop toy_hash_no_pad.
