(* Executable model of FRI proof compression:
     fri/proof.rs            FriProof::compress, CompressedFriProof::decompress
     plonk/get_challenges.rs CompressedProofWithPublicInputs::get_inferred_elements
   over the proof records of Model/Fri.v.  Merkle path compression is Model/Merkle.v
   (compress_merkle_proofs / decompress_merkle_proofs); the `HashMap`s are association lists keyed
   by index with the lookup / `entry(k).or_insert(v)` of Model/Dedup.v (first insertion wins, a
   missing key is the code's panic = None).

   The code's three parallel vectors per tree (`*_indices[i]`, `*_leaves[i]` / `*_evals[i]`,
   `*_proofs[i]`), which are always pushed together, are one vector of triples
   (index, leaf data, Merkle path) per tree; "rows" below are these per-tree vectors.

   Every partial operation gives None: `query_round_proofs[0]`, `rows[i]` / `reduction_arity_bits[i]`
   / `steps[i]` out of range, `Vec::remove` / `Vec::insert` out of range, `map[&key]` with a missing
   key, `values().next().unwrap()`, `fri_inferred_elements.next().unwrap()`, the `assert!` of
   compress_merkle_proofs, the lookups of decompress_merkle_proofs, the subtraction in the `heights`
   scan, the slice indexing of `unsalted_eval`, the division by `subgroup_x - point`.
   usize arithmetic is done on nat (`index & ((1 << b) - 1)` = index mod 2^b, `index >> b` =
   index / 2^b): exact for arity bits < 64, which every FriParams satisfies. *)
From Coq Require Import ZArith List Bool Lia.
From Verif Require Import Base.Field Gen.FieldConsts Model.Fp Model.Fp2 Model.FieldGeneric Model.Fri
  Model.Merkle Model.Dedup.
Import ListNotations.
Local Open Scope nat_scope.

(* CompressedFriQueryRounds / CompressedFriProof *)
Record compressed_fri_query_rounds := {
  cq_indices : list nat;
  cq_initial : list (nat * list (list Fp * list digest));    (* HashMap<usize, FriInitialTreeProof> *)
  cq_steps : list (list (nat * fri_query_step)) }.           (* Vec<HashMap<usize, FriQueryStep>> *)

Record compressed_fri_proof := {
  cfp_caps : list (list digest);
  cfp_rounds : compressed_fri_query_rounds;
  cfp_final : list Fp2;
  cfp_pow_witness : Fp }.

(* ---------------------------------------------------------------- Vec helpers *)
(* Vec::remove(i): panics unless i < len *)
Fixpoint remove_nth {A} (i : nat) (l : list A) : option (list A) :=
  match l, i with
  | [], _ => None
  | _ :: t, O => Some t
  | x :: t, S i' => option_map (cons x) (remove_nth i' t)
  end.

(* Vec::insert(i, x): panics unless i <= len *)
Fixpoint insert_nth {A} (i : nat) (x : A) (l : list A) : option (list A) :=
  match i, l with
  | O, _ => Some (x :: l)
  | S _, [] => None
  | S i', y :: t => option_map (cons y) (insert_nth i' x t)
  end.

Fixpoint map_opt {A B} (f : A -> option B) (l : list A) : option (list B) :=
  match l with
  | [] => Some []
  | a :: t => match f a, map_opt f t with Some b, Some r => Some (b :: r) | _, _ => None end
  end.

(* `for (i, x) in xs.enumerate() { rows[i].push(x) }` *)
Fixpoint push_rows {A} (rows : list (list A)) (xs : list A) : option (list (list A)) :=
  match xs, rows with
  | [], _ => Some rows
  | x :: xt, r :: rt => option_map (cons (r ++ [x])) (push_rows rt xt)
  | _ :: _, [] => None
  end.

(* (0..rows.len()).map(|j| rows[j][i]) *)
Definition col {A} (i : nat) (rows : list (list A)) : option (list A) :=
  map_opt (fun row => nth_error row i) rows.

(* field::extension::unflatten for D = 2 (chunks_exact(2): a trailing odd element is dropped) *)
Fixpoint unflatten2 (l : list Fp) : list Fp2 :=
  match l with
  | a :: b :: t => (a, b) :: unflatten2 t
  | _ => []
  end.

Notation mlookup := (Dedup.lookup _).
Notation mor_insert := (Dedup.or_insert _).

(* a row entry: (leaf index, leaf data, Merkle path) *)
Definition e_idx {L} (e : nat * L * list digest) : nat := fst (fst e).
Definition e_leaf {L} (e : nat * L * list digest) : L := snd (fst e).
Definition e_path {L} (e : nat * L * list digest) : list digest := snd e.

(* ================================================================ FriProof::compress *)
Definition init_entries (index : nat) (ip : list (list Fp * list digest))
  : list (nat * list Fp * list digest) :=
  map (fun lp => (index, fst lp, snd lp)) ip.

(* the loop over `steps.into_iter().enumerate()` of one query round: the entry pushed to row i *)
Fixpoint step_entries (index : nat) (steps : list fri_query_step) (arities : list nat)
  : option (list (nat * list Fp2 * list digest)) :=
  match steps with
  | [] => Some []
  | s :: st =>
    match arities with
    | [] => None                                      (* reduction_arity_bits[i] *)
    | a :: at' =>
      let index_within_coset := index mod 2 ^ a in
      let index' := index / 2 ^ a in
      match remove_nth index_within_coset (fs_evals s) with
      | None => None                                  (* evals.remove(index_within_coset) *)
      | Some ev => option_map (cons (index', ev, fs_siblings s)) (step_entries index' st at')
      end
    end
  end.

(* "transpose" the query round proofs: `for (mut index, qrp) in indices.zip(&query_round_proofs)` *)
Fixpoint transpose_loop (arities : list nat) (iqs : list (nat * fri_query_round))
         (irows : list (list (nat * list Fp * list digest)))
         (srows : list (list (nat * list Fp2 * list digest)))
  : option (list (list (nat * list Fp * list digest)) * list (list (nat * list Fp2 * list digest))) :=
  match iqs with
  | [] => Some (irows, srows)
  | (index, q) :: rest =>
    match push_rows irows (init_entries index (qr_initial q)) with
    | None => None
    | Some irows' =>
      match step_entries index (qr_steps q) arities with
      | None => None
      | Some es =>
        match push_rows srows es with
        | None => None
        | Some srows' => transpose_loop arities rest irows' srows'
        end
      end
    end
  end.

(* compress_merkle_proofs(cap_height, is, &ps) of one tree; the leaf data stay beside the paths *)
Definition compress_row {L} (cap_height : nat) (row : list (nat * L * list digest))
  : option (list (L * list digest)) :=
  match compress_merkle_proofs digest cap_height (map e_idx row) (map e_path row) with
  | None => None
  | Some cps => Some (combine (map e_leaf row) cps)
  end.

(* `for j in 0..num_reductions { index >>= bits[j]; steps[j].entry(index).or_insert(..[j][i]..) }` *)
Fixpoint build_steps (index i : nat) (arities : list nat)
         (rows : list (list (list Fp2 * list digest))) (ms : list (list (nat * fri_query_step)))
  : option (list (list (nat * fri_query_step))) :=
  match arities with
  | [] => Some ms
  | a :: at' =>
    match rows, ms with
    | row :: rt, m :: mt =>
      let index' := index / 2 ^ a in
      match nth_error row i with
      | None => None                                  (* steps_evals[j][i] *)
      | Some ep =>
        option_map (cons (mor_insert m index' {| fs_evals := fst ep; fs_siblings := snd ep |}))
                   (build_steps index' i at' rt mt)
      end
    | _, _ => None                                    (* not reached: num_reductions rows and maps *)
    end
  end.

(* `for (i, mut index) in indices.iter().copied().enumerate()` *)
Fixpoint build_maps (arities : list nat) (i : nat) (idxs : list nat)
         (irows : list (list (list Fp * list digest))) (srows : list (list (list Fp2 * list digest)))
         (mi : list (nat * list (list Fp * list digest))) (ms : list (list (nat * fri_query_step)))
  : option (list (nat * list (list Fp * list digest)) * list (list (nat * fri_query_step))) :=
  match idxs with
  | [] => Some (mi, ms)
  | index :: rest =>
    match col i irows with
    | None => None                                    (* initial_trees_leaves[j][i] *)
    | Some initial_proof =>
      match build_steps index i arities srows ms with
      | None => None
      | Some ms' => build_maps arities (S i) rest irows srows (mor_insert mi index initial_proof) ms'
      end
    end
  end.

Definition compress (pr : fri_proof) (indices : list nat) (p : fri_params) : option compressed_fri_proof :=
  let cap_h := cap_height (config p) in
  let arities := reduction_arity_bits p in
  let num_reductions := length arities in
  match fp_rounds pr with
  | [] => None                                        (* query_round_proofs[0] *)
  | q0 :: _ =>
    let num_initial_trees := length (qr_initial q0) in
    match transpose_loop arities (combine indices (fp_rounds pr))
                         (repeat [] num_initial_trees) (repeat [] num_reductions) with
    | None => None
    | Some (irows, srows) =>
      match map_opt (compress_row cap_h) irows, map_opt (compress_row cap_h) srows with
      | Some ic, Some sc =>
        match build_maps arities 0 indices ic sc [] (repeat [] num_reductions) with
        | None => None
        | Some (mi, ms) =>
          Some {| cfp_caps := fp_caps pr;
                  cfp_rounds := {| cq_indices := indices; cq_initial := mi; cq_steps := ms |};
                  cfp_final := fp_final pr;
                  cfp_pow_witness := fp_pow_witness pr |}
        end
      | _, _ => None
      end
    end
  end.

(* ================================================================ CompressedFriProof::decompress *)
Section Decompress.
  Variable hash_or_noop : list Fp -> digest.
  Variable two_to_one : digest -> digest -> digest.

  (* heights: the scan subtracting each arity from the running height; None = usize underflow *)
  Fixpoint heights_scan (height : nat) (arities : list nat) : option (list nat) :=
    match arities with
    | [] => Some []
    | a :: t => if height <? a then None else option_map (cons (height - a)) (heights_scan (height - a) t)
    end.

  (* `for i in 0..num_reductions` of one query: state = step rows, evals_by_depth, the iterator *)
  Fixpoint dec_steps (index : nat) (arities : list nat) (maps : list (list (nat * fri_query_step)))
           (rows : list (list (nat * list Fp * list digest)))
           (ebd : list (list (nat * list Fp2))) (inf : list Fp2)
    : option (list (list (nat * list Fp * list digest)) * list (list (nat * list Fp2)) * list Fp2) :=
    match arities with
    | [] => Some (rows, ebd, inf)
    | a :: at' =>
      match maps, rows, ebd with
      | m :: mt, row :: rt, e :: et =>
        let index_within_coset := index mod 2 ^ a in
        let index' := index / 2 ^ a in
        match mlookup m index' with
        | None => None                                (* query_round_proofs.steps[i][&index] *)
        | Some s =>
          let r :=
            match mlookup e index' with
            | Some v => Some (v, e, inf)              (* already seen: evals from the HashMap *)
            | None =>
              match inf with
              | [] => None                            (* fri_inferred_elements.next().unwrap() *)
              | x :: inf' =>
                match insert_nth index_within_coset x (fs_evals s) with
                | None => None                        (* evals.insert(index_within_coset, ..) *)
                | Some ev => Some (ev, (index', ev) :: e, inf')
                end
              end
            end in
          match r with
          | None => None
          | Some (ev, e', inf') =>
            match dec_steps index' at' mt rt et inf' with
            | None => None
            | Some (rt', et', inf'') =>
              Some ((row ++ [(index', flatten2 ev, fs_siblings s)]) :: rt', e' :: et', inf'')
            end
          end
        end
      | _, _, _ => None                               (* steps[i]: fewer maps than reductions *)
      end
    end.

  (* `for &(mut index) in indices` *)
  Fixpoint dec_loop (arities : list nat) (cq : compressed_fri_query_rounds) (idxs : list nat)
           (irows : list (list (nat * list Fp * list digest)))
           (srows : list (list (nat * list Fp * list digest)))
           (ebd : list (list (nat * list Fp2))) (inf : list Fp2)
    : option (list (list (nat * list Fp * list digest)) * list (list (nat * list Fp * list digest))) :=
    match idxs with
    | [] => Some (irows, srows)
    | index :: rest =>
      match mlookup (cq_initial cq) index with
      | None => None                                  (* initial_trees_proofs[&index] *)
      | Some ip =>
        match push_rows irows (init_entries index ip) with
        | None => None
        | Some irows' =>
          match dec_steps index arities (cq_steps cq) srows ebd inf with
          | None => None
          | Some (srows', ebd', inf') => dec_loop arities cq rest irows' srows' ebd' inf'
          end
        end
      end
    end.

  (* decompress_merkle_proofs(ls, is, &ps, height, cap_height) of one tree *)
  Definition decompress_row (cap_height : nat) (rh : list (nat * list Fp * list digest) * nat)
    : option (list (list Fp * list digest)) :=
    let row := fst rh in
    match decompress_merkle_proofs Fp digest hash_or_noop two_to_one
            (map e_leaf row) (map e_idx row) (map e_path row) (snd rh) cap_height with
    | None => None
    | Some ps => Some (combine (map e_leaf row) ps)
    end.

  Definition decompress (cp : compressed_fri_proof) (indices : list nat) (inferred : list Fp2)
             (p : fri_params) : option fri_proof :=
    let cq := cfp_rounds cp in
    let cap_h := cap_height (config p) in
    let arities := reduction_arity_bits p in
    let num_reductions := length arities in
    match cq_initial cq with
    | [] => None                                      (* .values().next().unwrap() *)
    | (_, ip0) :: _ =>
      (* HashMap iteration order is unspecified; all entries of a map built by compress have the
         same number of oracles, and the model takes the first entry of the association list *)
      let num_initial_trees := length ip0 in
      let height := degree_bits p + rate_bits (config p) in
      match heights_scan height arities with
      | None => None
      | Some heights =>
        match dec_loop arities cq indices (repeat [] num_initial_trees) (repeat [] num_reductions)
                       (repeat [] num_reductions) inferred with
        | None => None
        | Some (irows, srows) =>
          match map_opt (decompress_row cap_h) (map (fun r => (r, height)) irows),
                map_opt (decompress_row cap_h) (combine srows heights) with
          | Some ic, Some sc =>
            match map_opt (fun i =>
                             match col i ic, col i sc with
                             | Some ip, Some st =>
                               Some {| qr_initial := ip;
                                       qr_steps := map (fun ep => {| fs_evals := unflatten2 (fst ep);
                                                                     fs_siblings := snd ep |}) st |}
                             | _, _ => None
                             end) (seq 0 (length indices)) with
            | None => None
            | Some rounds =>
              Some {| fp_caps := cfp_caps cp; fp_rounds := rounds; fp_final := cfp_final cp;
                      fp_pow_witness := cfp_pow_witness cp |}
            end
          | _, _ => None
          end
        end
      end
    end.
End Decompress.

(* ================================================================ get_inferred_elements *)
(* the indexing of FriInitialTreeProof::unsalted_eval inside fri_combine_initial:
   instance.oracles[oracle_index], evals_proofs[oracle_index], evals[..len - salt][polynomial_index] *)
Definition combine_guard (inst : fri_instance) (p : fri_params) (initial : list (list Fp * list digest)) : bool :=
  forallb (fun b =>
    forallb (fun pi =>
      match nth_error (oracles inst) (oracle_index pi), nth_error initial (oracle_index pi) with
      | Some o, Some ep =>
        let s := salt_size (hiding p && blinding o) in
        (s <=? length (fst ep)) && (polynomial_index pi <? length (fst ep) - s)
      | _, _ => false
      end) (polynomials b)) (batches inst).

Definition combine_initial_checked (inst : fri_instance) (p : fri_params)
           (initial : list (list Fp * list digest)) (alpha : Fp2) (subgroup_x : Fp) (reduced : list Fp2)
  : option Fp2 :=
  if combine_guard inst p initial then
    match fri_combine_initial inst p initial alpha subgroup_x reduced with
    | inl v => Some v
    | inr _ => None                                   (* numerator / denominator with denominator 0 *)
    end
  else None.

(* compute_evaluation on exactly 2^arity_bits evaluations (otherwise reverse_index_bits_in_place /
   the debug_assert fail, or a release build interpolates through another number of points) *)
Definition compute_evaluation_checked (x : Fp) (within arity_bits : nat) (evals : list Fp2) (beta : Fp2)
  : option Fp2 :=
  if length evals =? 2 ^ arity_bits then
    match compute_evaluation x within arity_bits evals beta with
    | inl v => Some v
    | inr _ => None
    end
  else None.

(* the loop over reduction_arity_bits of one query, with its `break`;
   seen = seen_indices_by_depth[i..] *)
Fixpoint inferred_steps (maps : list (list (nat * fri_query_step))) (betas : list Fp2) (layer : nat)
         (arities : list nat) (seen : list (list nat)) (x_index : nat) (subgroup_x : Fp) (old_eval : Fp2)
  : option (list Fp2 * list (list nat)) :=
  match arities, seen with
  | a :: at', sn :: snt =>
    let coset_index := x_index / 2 ^ a in
    if existsb (Nat.eqb coset_index) sn then Some ([], seen)      (* already seen: break *)
    else
      match maps with
      | [] => None                                    (* query_round_proofs.steps[i] *)
      | m :: mt =>
        match mlookup m coset_index with
        | None => None                                (* steps[i][&coset_index] *)
        | Some s =>
          let within := x_index mod 2 ^ a in
          match insert_nth within old_eval (fs_evals s) with
          | None => None
          | Some evals =>
            match nth_error betas layer with
            | None => None                            (* fri_betas[i] *)
            | Some beta =>
              match compute_evaluation_checked subgroup_x within a evals beta with
              | None => None
              | Some ev =>
                match inferred_steps mt betas (S layer) at' snt coset_index
                                     (exp_power_of_2 subgroup_x a) ev with
                | None => None
                | Some (out, snt') => Some (old_eval :: out, (coset_index :: sn) :: snt')
                end
              end
            end
          end
        end
      end
  | _, _ => Some ([], seen)
  end.

Fixpoint inferred_loop (inst : fri_instance) (p : fri_params) (alpha : Fp2) (reduced : list Fp2)
         (cq : compressed_fri_query_rounds) (betas : list Fp2) (idxs : list nat) (seen : list (list nat))
  : option (list Fp2) :=
  match idxs with
  | [] => Some []
  | x_index :: rest =>
    let log_n := lde_bits p in
    let subgroup_x :=
        (coset_shift * exp_u64 (primitive_root_of_unity log_n) (N.of_nat (reverse_bits x_index log_n)))%F in
    match mlookup (cq_initial cq) x_index with
    | None => None                                    (* initial_trees_proofs[&x_index] *)
    | Some ip =>
      match combine_initial_checked inst p ip alpha subgroup_x reduced with
      | None => None
      | Some old_eval =>
        match inferred_steps (cq_steps cq) betas 0 (reduction_arity_bits p) seen x_index subgroup_x old_eval with
        | None => None
        | Some (out, seen') =>
          option_map (app out) (inferred_loop inst p alpha reduced cq betas rest seen')
        end
      end
    end
  end.

(* get_inferred_elements: inst = common_data.get_fri_instance(zeta), openings = to_fri_openings *)
Definition get_inferred_elements (inst : fri_instance) (openings : list (list Fp2)) (ch : fri_challenges)
           (cp : compressed_fri_proof) (p : fri_params) : option (list Fp2) :=
  let reduced := precomputed_reduced_openings openings (fri_alpha ch) in
  inferred_loop inst p (fri_alpha ch) reduced (cfp_rounds cp) (fri_betas ch) (fri_query_indices ch)
                (repeat [] (length (reduction_arity_bits p))).
