(* Executable model of the PLONK verifier of plonky2 (plonk/{verifier,validate_shape,
   get_challenges,vanishing_poly,plonk_common}.rs, iop/challenger.rs, util/partial_products.rs)
   for PoseidonGoldilocksConfig (D = 2): deserialises the flat dump written by
   harness/src/corpus.rs, recomputes the Fiat-Shamir challenges, evaluates the vanishing
   polynomial (gate constraints through Model/Gates.v) and runs the FRI verifier model. *)
From Coq Require Import ZArith List Bool Lia.
From Verif Require Import Base.Field Base.Reader Gen.FieldConsts Model.Fp Model.Fp2 Model.FieldGeneric
  Model.PoseidonSpec Model.Fri Model.Gates.
Import ListNotations.
Local Open Scope nat_scope.

Record circuit_config := {
  num_wires : nat; num_routed_wires : nat; cfg_num_constants : nat; use_base_arithmetic_gate : bool;
  security_bits : nat; num_challenges : nat; zero_knowledge : bool; max_quotient_degree_factor : nat;
  cfg_fri : fri_config }.

Record common_data := {
  cd_config : circuit_config;
  cd_fri_params : fri_params;
  cd_gates : list gate;
  cd_selector_indices : list nat;
  cd_groups : list (nat * nat);
  quotient_degree_factor : nat;
  num_gate_constraints : nat;
  cd_num_constants : nat;
  num_public_inputs : nat;
  k_is : list Fp;
  num_partial_products : nat;
  num_lookup_polys : nat;
  num_lookup_selectors : nat;
  luts : list (list (Z * Z)) }.

Record verifier_only := { constants_sigmas_cap : list digest; circuit_digest : digest }.

Record opening_set := {
  os_constants : list Fp2; os_sigmas : list Fp2; os_wires : list Fp2; os_zs : list Fp2;
  os_zs_next : list Fp2; os_partial_products : list Fp2; os_quotient : list Fp2;
  os_lookup_zs : list Fp2; os_lookup_zs_next : list Fp2 }.

Record proof := {
  wires_cap : list digest; zs_pp_cap : list digest; quotient_cap : list digest;
  openings : opening_set; opening_proof : fri_proof; public_inputs : list Fp }.

Record proof_challenges := {
  plonk_betas : list Fp; plonk_gammas : list Fp; plonk_alphas : list Fp; plonk_deltas : list Fp;
  plonk_zeta : Fp2; pc_fri : fri_challenges }.

(* ------------------------------------------------------------------ deserialisation *)
Definition rd_fp : R Fp := rdo z <- rd_z ;; rret (toFp z).
Definition rd_fp2 : R Fp2 := rdo a <- rd_z ;; rdo b <- rd_z ;; rret (toFp a, toFp b).
Definition rd_digest : R digest := rd_n 4 rd_fp.
Definition rd_cap : R (list digest) := rd_list rd_digest.

Definition rd_strategy : R strategy :=
  rdo tag <- rd_z ;;
  match tag with
  | 0%Z => rdo v <- rd_list rd_nat ;; rret (Fixed v)
  | 1%Z => rdo a <- rd_nat ;; rdo b <- rd_nat ;; rret (ConstantArityBits a b)
  | 2%Z => rdo m <- rd_nat ;; rret (MinSize (match m with O => None | S k => Some k end))
  | _ => rfail
  end.

Definition rd_fri_config : R fri_config :=
  rdo rb <- rd_nat ;; rdo ch <- rd_nat ;; rdo pw <- rd_nat ;; rdo st <- rd_strategy ;; rdo nq <- rd_nat ;;
  rret {| rate_bits := rb; cap_height := ch; proof_of_work_bits := pw; reduction_strategy := st;
          num_query_rounds := nq |}.

Definition rd_fri_params : R fri_params :=
  rdo c <- rd_fri_config ;; rdo h <- rd_bool ;; rdo db <- rd_nat ;; rdo ab <- rd_list rd_nat ;;
  rret {| config := c; hiding := h; degree_bits := db; reduction_arity_bits := ab |}.

Definition rd_gate : R gate :=
  rdo code <- rd_z ;;
  match code with
  | 1%Z => rdo n <- rd_nat ;; rret (ArithmeticGate n)
  | 2%Z => rdo n <- rd_nat ;; rret (ArithmeticExtensionGate n)
  | 3%Z => rdo n <- rd_nat ;; rret (MulExtensionGate n)
  | 4%Z => rdo b <- rd_nat ;; rdo n <- rd_nat ;; rret (BaseSumGate b n)
  | 5%Z => rdo n <- rd_nat ;; rret (ConstantGate n)
  | 6%Z => rdo bits <- rd_nat ;; rdo deg <- rd_nat ;;
           rret (CosetInterpolationGate bits deg (barycentric_weights_subgroup bits))
  | 7%Z => rdo n <- rd_nat ;; rret (ExponentiationGate n)
  | 8%Z => rret PoseidonGate
  | 9%Z => rret PoseidonMdsGate
  | 10%Z => rret PublicInputGate
  | 11%Z => rdo b <- rd_nat ;; rdo c <- rd_nat ;; rdo e <- rd_nat ;; rret (RandomAccessGate b c e)
  | 12%Z => rdo n <- rd_nat ;; rret (ReducingGate n)
  | 13%Z => rdo n <- rd_nat ;; rret (ReducingExtensionGate n)
  | 14%Z => rret NoopGate
  | 15%Z => rdo n <- rd_nat ;; rret (LookupGate n)
  | 16%Z => rdo n <- rd_nat ;; rret (LookupTableGate n)
  | _ => rfail
  end.

Definition rd_common : R common_data :=
  rdo nw <- rd_nat ;; rdo nr <- rd_nat ;; rdo nc <- rd_nat ;; rdo ub <- rd_bool ;; rdo sb <- rd_nat ;;
  rdo nch <- rd_nat ;; rdo zk <- rd_bool ;; rdo mq <- rd_nat ;; rdo fc <- rd_fri_config ;;
  rdo fp <- rd_fri_params ;;
  rdo gs <- rd_list rd_gate ;;
  rdo si <- rd_list rd_nat ;;
  rdo gr <- rd_list (rd_pair rd_nat rd_nat) ;;
  rdo qdf <- rd_nat ;; rdo ngc <- rd_nat ;; rdo ncs <- rd_nat ;; rdo npi <- rd_nat ;;
  rdo ks <- rd_list rd_fp ;;
  rdo npp <- rd_nat ;; rdo nlp <- rd_nat ;; rdo nls <- rd_nat ;;
  rdo ls <- rd_list (rd_list (rd_pair rd_z rd_z)) ;;
  rret {| cd_config := {| num_wires := nw; num_routed_wires := nr; cfg_num_constants := nc;
                          use_base_arithmetic_gate := ub; security_bits := sb; num_challenges := nch;
                          zero_knowledge := zk; max_quotient_degree_factor := mq; cfg_fri := fc |};
          cd_fri_params := fp; cd_gates := gs; cd_selector_indices := si; cd_groups := gr;
          quotient_degree_factor := qdf; num_gate_constraints := ngc; cd_num_constants := ncs;
          num_public_inputs := npi; k_is := ks; num_partial_products := npp; num_lookup_polys := nlp;
          num_lookup_selectors := nls; luts := ls |}.

Definition rd_verifier_only : R verifier_only :=
  rdo c <- rd_cap ;; rdo d <- rd_digest ;; rret {| constants_sigmas_cap := c; circuit_digest := d |}.

Definition rd_openings : R opening_set :=
  rdo a <- rd_list rd_fp2 ;; rdo b <- rd_list rd_fp2 ;; rdo c <- rd_list rd_fp2 ;; rdo d <- rd_list rd_fp2 ;;
  rdo e <- rd_list rd_fp2 ;; rdo f <- rd_list rd_fp2 ;; rdo g <- rd_list rd_fp2 ;; rdo h <- rd_list rd_fp2 ;;
  rdo i <- rd_list rd_fp2 ;;
  rret {| os_constants := a; os_sigmas := b; os_wires := c; os_zs := d; os_zs_next := e;
          os_partial_products := f; os_quotient := g; os_lookup_zs := h; os_lookup_zs_next := i |}.

Definition rd_fri_proof : R fri_proof :=
  rdo caps <- rd_list rd_cap ;;
  rdo rounds <- rd_list (rdo ini <- rd_list (rd_pair (rd_list rd_fp) (rd_list rd_digest)) ;;
                         rdo steps <- rd_list (rdo ev <- rd_list rd_fp2 ;; rdo sb <- rd_list rd_digest ;;
                                               rret {| fs_evals := ev; fs_siblings := sb |}) ;;
                         rret {| qr_initial := ini; qr_steps := steps |}) ;;
  rdo fin <- rd_list rd_fp2 ;;
  rdo pw <- rd_fp ;;
  rret {| fp_caps := caps; fp_rounds := rounds; fp_final := fin; fp_pow_witness := pw |}.

Definition rd_proof : R proof :=
  rdo wc <- rd_cap ;; rdo zc <- rd_cap ;; rdo qc <- rd_cap ;;
  rdo os <- rd_openings ;; rdo fp <- rd_fri_proof ;; rdo pis <- rd_list rd_fp ;;
  rret {| wires_cap := wc; zs_pp_cap := zc; quotient_cap := qc; openings := os; opening_proof := fp;
          public_inputs := pis |}.

(* ------------------------------------------------------------------ the duplex challenger *)
Record challenger := { sponge_state : list Fp; input_buffer : list Fp; output_buffer : list Fp }.

Definition ch_new : challenger :=
  {| sponge_state := repeat (toFp 0) WIDTH; input_buffer := []; output_buffer := [] |}.

Definition duplexing (c : challenger) : challenger :=
  let st := poseidon (overwrite (sponge_state c) (input_buffer c)) in
  {| sponge_state := st; input_buffer := []; output_buffer := firstn RATE st |}.

Definition observe_element (c : challenger) (e : Fp) : challenger :=
  let c' := {| sponge_state := sponge_state c; input_buffer := input_buffer c ++ [e]; output_buffer := [] |} in
  if Nat.eqb (length (input_buffer c')) RATE then duplexing c' else c'.

Definition observe_elements (c : challenger) (es : list Fp) : challenger := fold_left observe_element es c.
Definition observe_ext_elements (c : challenger) (es : list Fp2) : challenger :=
  observe_elements c (flatten2 es).
Definition observe_cap (c : challenger) (cap : list digest) : challenger :=
  fold_left observe_elements cap c.

(* pops the LAST element of the output buffer (Vec::pop) *)
Definition get_challenge (c : challenger) : Fp * challenger :=
  let c1 := if negb (Nat.eqb (length (input_buffer c)) 0) || Nat.eqb (length (output_buffer c)) 0
            then duplexing c else c in
  let out := output_buffer c1 in
  (last out (toFp 0),
   {| sponge_state := sponge_state c1; input_buffer := input_buffer c1; output_buffer := removelast out |}).

Fixpoint get_n_challenges (c : challenger) (n : nat) : list Fp * challenger :=
  match n with
  | O => ([], c)
  | S n' => let '(x, c1) := get_challenge c in
            let '(xs, c2) := get_n_challenges c1 n' in (x :: xs, c2)
  end.

Definition get_extension_challenge (c : challenger) : Fp2 * challenger :=
  let '(xs, c') := get_n_challenges c 2 in ((nth 0 xs (toFp 0), nth 1 xs (toFp 0)), c').

(* ------------------------------------------------------------------ transcript (get_challenges) *)
Definition ofn (n : nat) : Fp := toFp (Z.of_nat n).

Definition strategy_serialize (s : strategy) : list Fp :=
  match s with
  | Fixed v => toFp 0 :: map ofn v
  | ConstantArityBits a b => [toFp 1; ofn a; ofn b]
  | MinSize m => [toFp 2; ofn (match m with Some k => k | None => 0 end)]
  end.

Definition observe_fri_config (c : challenger) (f : fri_config) : challenger :=
  let c := observe_element c (ofn (rate_bits f)) in
  let c := observe_element c (ofn (cap_height f)) in
  let c := observe_element c (ofn (proof_of_work_bits f)) in
  let c := observe_elements c (strategy_serialize (reduction_strategy f)) in
  observe_element c (ofn (num_query_rounds f)).

Definition observe_fri_params (c : challenger) (p : fri_params) : challenger :=
  let c := observe_fri_config c (config p) in
  let c := observe_element c (if hiding p then toFp 1 else toFp 0) in
  let c := observe_element c (ofn (degree_bits p)) in
  observe_elements c (map ofn (reduction_arity_bits p)).

Definition to_fri_openings (os : opening_set) : list (list Fp2) :=
  let has_lookup := negb (Nat.eqb (length (os_lookup_zs os)) 0) in
  [ os_constants os ++ os_sigmas os ++ os_wires os ++ os_zs os ++ os_partial_products os
    ++ os_quotient os ++ (if has_lookup then os_lookup_zs os else []);
    os_zs_next os ++ (if has_lookup then os_lookup_zs_next os else []) ].

(* The transcript as data: what is observed, in which order, and where challenges are drawn.
   get_challenges below is DEFINED as the interpretation of this list, so that statements about
   the order and content of the transcript are statements about the verifier model itself. *)
Inductive chop : Type := Observe (xs : list Fp) | Squeeze (n : nat).

Fixpoint run_ops (c : challenger) (ops : list chop) : list (list Fp) :=
  match ops with
  | [] => []
  | Observe xs :: t => run_ops (observe_elements c xs) t
  | Squeeze n :: t => let '(out, c') := get_n_challenges c n in out :: run_ops c' t
  end.

Definition NUM_COINS_LOOKUP : nat := 4.

Definition fri_params_elements (p : fri_params) : list Fp :=
  let f := config p in
  [ofn (rate_bits f); ofn (cap_height f); ofn (proof_of_work_bits f)]
  ++ strategy_serialize (reduction_strategy f) ++ [ofn (num_query_rounds f)]
  ++ [if hiding p then toFp 1 else toFp 0; ofn (degree_bits p)] ++ map ofn (reduction_arity_bits p).

Definition fri_ops (caps : list (list digest)) (final : list Fp2) (pow_witness : Fp) (num_queries : nat) : list chop :=
  [Squeeze 2]                                                        (* fri_alpha *)
  ++ flat_map (fun cap => [Observe (concat cap); Squeeze 2]) caps    (* fri_betas *)
  ++ [Observe (flatten2 final); Observe [pow_witness]; Squeeze 1;    (* pow response *)
      Squeeze num_queries].                                          (* query indices *)

Definition plonk_ops (cd : common_data) (vo : verifier_only) (pr : proof) (pi_hash : digest) : list chop :=
  let nch := num_challenges (cd_config cd) in
  let has_lookup := negb (Nat.eqb (num_lookup_polys cd) 0) in
  [ Observe (fri_params_elements (cd_fri_params cd));
    Observe (circuit_digest vo);
    Observe pi_hash;
    Observe (concat (wires_cap pr));
    Squeeze nch; Squeeze nch ]                                       (* betas, gammas *)
  ++ (if has_lookup then [Squeeze (NUM_COINS_LOOKUP * nch - 2 * nch)] else [])   (* extra deltas *)
  ++ [ Observe (concat (zs_pp_cap pr)); Squeeze nch;                 (* alphas *)
       Observe (concat (quotient_cap pr)); Squeeze 2 ]               (* zeta *)
  ++ map (fun b => Observe (flatten2 b)) (to_fri_openings (openings pr))
  ++ fri_ops (fp_caps (opening_proof pr)) (fp_final (opening_proof pr)) (fp_pow_witness (opening_proof pr))
             (num_query_rounds (cfg_fri (cd_config cd))).

Definition ext_of (l : list Fp) : Fp2 := (nth 0 l (toFp 0), nth 1 l (toFp 0)).

Definition get_challenges (cd : common_data) (vo : verifier_only) (pr : proof) (pi_hash : digest) : proof_challenges :=
  let has_lookup := negb (Nat.eqb (num_lookup_polys cd) 0) in
  let outs := run_ops ch_new (plonk_ops cd vo pr pi_hash) in
  let betas := nth 0 outs [] in
  let gammas := nth 1 outs [] in
  let k := if has_lookup then 3 else 2 in
  let deltas := if has_lookup then betas ++ gammas ++ nth 2 outs [] else [] in
  let ncaps := length (fp_caps (opening_proof pr)) in
  let lde_size := 2 ^ (degree_bits (cd_fri_params cd) + rate_bits (cfg_fri (cd_config cd))) in
  {| plonk_betas := betas; plonk_gammas := gammas; plonk_alphas := nth k outs []; plonk_deltas := deltas;
     plonk_zeta := ext_of (nth (k + 1) outs []);
     pc_fri := {| fri_alpha := ext_of (nth (k + 2) outs []);
                  fri_betas := map (fun i => ext_of (nth (k + 3 + i) outs [])) (seq 0 ncaps);
                  fri_pow_response := nth 0 (nth (k + 3 + ncaps) outs []) (toFp 0);
                  fri_query_indices := map (fun x => Z.to_nat (fval x mod Z.of_nat lde_size))
                                           (nth (k + 4 + ncaps) outs []) |} |}.

(* ------------------------------------------------------------------ shape validation *)
Definition num_quotient_polys (cd : common_data) : nat := num_challenges (cd_config cd) * quotient_degree_factor cd.
Definition num_all_lookup_polys (cd : common_data) : nat := num_challenges (cd_config cd) * num_lookup_polys cd.

Definition validate_proof_shape (cd : common_data) (pr : proof) : bool :=
  let c := cd_config cd in
  let os := openings pr in
  let caplen := 2 ^ cap_height (config (cd_fri_params cd)) in
  Nat.eqb (length (wires_cap pr)) caplen && Nat.eqb (length (zs_pp_cap pr)) caplen
  && Nat.eqb (length (quotient_cap pr)) caplen
  && Nat.eqb (length (os_constants os)) (cd_num_constants cd)
  && Nat.eqb (length (os_sigmas os)) (num_routed_wires c)
  && Nat.eqb (length (os_wires os)) (num_wires c)
  && Nat.eqb (length (os_zs os)) (num_challenges c)
  && Nat.eqb (length (os_zs_next os)) (num_challenges c)
  && Nat.eqb (length (os_partial_products os)) (num_challenges c * num_partial_products cd)
  && Nat.eqb (length (os_quotient os)) (num_quotient_polys cd)
  && Nat.eqb (length (os_lookup_zs os)) (num_all_lookup_polys cd)
  && Nat.eqb (length (os_lookup_zs_next os)) (num_all_lookup_polys cd)
  && Nat.eqb (length (public_inputs pr)) (num_public_inputs cd).

(* ------------------------------------------------------------------ vanishing polynomial *)
Local Open Scope field_scope.

Global Instance Fp2OfBaseP : OfBase Fp2 := fun z => (toFp z, toFp 0).

Definition nth2 (l : list Fp2) (i : nat) : Fp2 := nth i l 0.
Definition of_fp (x : Fp) : Fp2 := (x, toFp 0).
Definition smul (s : Fp) (a : Fp2) : Fp2 := (fst a * s, snd a * s).

Fixpoint chunks {A} (fuel : nat) (n : nat) (l : list A) : list (list A) :=
  match fuel with
  | O => []
  | S f => match l with [] => [] | _ => firstn n l :: chunks f n (skipn n l) end
  end.

(* check_partial_products: zip_eq of chunk pairs with windows of [z_x] ++ partials ++ [z_gx] *)
Fixpoint pp_checks (nums dens : list (list Fp2)) (accs : list Fp2) : option (list Fp2) :=
  match nums, dens, accs with
  | [], [], [_] => Some []
  | n :: nt, d :: dt, prev :: ((next :: _) as rest) =>
    match pp_checks nt dt rest with
    | Some r => Some ((prev * fold_right fmul 1 n - next * fold_right fmul 1 d) :: r)
    | None => None
    end
  | _, _, _ => None      (* zip_eq length mismatch: panic in the real code *)
  end.

Definition check_partial_products (nums dens partials : list Fp2) (z_x z_gx : Fp2) (max_degree : nat)
  : option (list Fp2) :=
  pp_checks (chunks (S (length nums)) max_degree nums) (chunks (S (length dens)) max_degree dens)
            ([z_x] ++ partials ++ [z_gx]).

Definition eval_l_0 (n : nat) (x : Fp2) : Fp2 :=
  if (x =? 1) then 1 else
  (exp_u64 x (N.of_nat n) - 1) * finv (of_fp (ofn n) * (x - 1)).

Definition reduce_with_powers2 (terms : list Fp2) (alpha : Fp2) : Fp2 :=
  fold_right (fun t acc => acc * alpha + t) 0 terms.

(* evaluate_gate_constraints: sum of filtered constraint vectors, padded to num_gate_constraints *)
Fixpoint add_into (acc : list Fp2) (v : list Fp2) : list Fp2 :=
  match acc, v with
  | a :: at', x :: vt => (a + x) :: add_into at' vt
  | _, [] => acc
  | [], _ => []      (* more constraints than declared: debug_assert / index panic *)
  end.

Definition evaluate_gate_constraints (cd : common_data) (consts wires pi_hash : list Fp2) : list Fp2 :=
  let nsel := length (cd_groups cd) in
  fst (fold_left
         (fun (st : list Fp2 * nat) g =>
            let '(acc, i) := st in
            let si := nth i (cd_selector_indices cd) 0%nat in
            let '(lo, hi) := nth si (cd_groups cd) (0%nat, 0%nat) in
            (add_into acc (eval_filtered g consts wires pi_hash i si lo hi nsel (num_lookup_selectors cd)), S i))
         (cd_gates cd) (repeat 0 (num_gate_constraints cd), 0%nat)).

(* ---- lookups: get_lut_poly, check_lookup_constraints *)
Definition lu_num_slots (cd : common_data) : nat := (num_routed_wires (cd_config cd) / 2)%nat.
Definition lut_num_slots (cd : common_data) : nat := (num_routed_wires (cd_config cd) / 3)%nat.
Definition div_ceil (a b : nat) : nat := ((a + b - 1) / b)%nat.

Definition get_lut_poly_eval (cd : common_data) (lut : list (Z * Z)) (deltas : list Fp) (degree : nat) : Fp :=
  let b := nth 1 deltas (toFp 0) in
  let n := length lut in
  let nb_slots := lut_num_slots cd in
  let nb_padded := Nat.modulo (nb_slots - Nat.modulo n nb_slots) nb_slots in
  let pad := match lut with p :: _ => p | [] => (0%Z, 0%Z) end in
  let coeffs := map (fun p => (toFp (fst p) + b * toFp (snd p))%F) (lut ++ repeat pad nb_padded)
                ++ repeat (toFp 0) (degree - (n + nb_padded)) in
  (* coeffs.reverse(); eval at delta *)
  let delta := nth 3 deltas (toFp 0) in
  fold_right (fun c acc => (acc * delta + c)%F) (toFp 0) (rev coeffs).

Definition range (lo hi : nat) : list nat := seq lo (hi - lo).

Definition check_lookup_constraints (cd : common_data) (wires : list Fp2) (lz lz_next lsel : list Fp2)
           (deltas : list Fp) : list Fp2 :=
  let num_lu := lu_num_slots cd in
  let num_lut := lut_num_slots cd in
  let lu_degree := (quotient_degree_factor cd - 1)%nat in
  let num_sldc := (length lz - 1)%nat in
  let lut_degree := div_ceil num_lut num_sldc in
  let z_re := nth2 lz 0 in
  let next_z_re := nth2 lz_next 0 in
  let zx := firstn num_sldc (skipn 1 lz) in
  let zgx := firstn num_sldc (skipn 1 lz_next) in
  let da := of_fp (nth 0 deltas (toFp 0)) in
  let db := of_fp (nth 1 deltas (toFp 0)) in
  let dalpha := of_fp (nth 2 deltas (toFp 0)) in
  let ddelta := of_fp (nth 3 deltas (toFp 0)) in
  let looked := map (fun s => nth2 wires (3 * s) + da * nth2 wires (3 * s + 1)) (seq 0 num_lut) in
  let looking := map (fun s => nth2 wires (2 * s) + da * nth2 wires (2 * s + 1)) (seq 0 num_lu) in
  let lookup_combos := map (fun s => nth2 wires (3 * s) + db * nth2 wires (3 * s + 1)) (seq 0 num_lut) in
  let c_last := nth2 lsel 3 * nth2 zx (num_sldc - 1) in
  let c_init_sum := nth2 lsel 2 * nth2 zx (num_sldc - 1) in
  let c_init_re := nth2 lsel 2 * z_re in
  let ends := map (fun r =>
                     let lut := nth (r - 4) (luts cd) [] in
                     let rows := div_ceil (length lut) num_lut in
                     nth2 lsel r * (z_re - of_fp (get_lut_poly_eval cd lut deltas (num_lut * rows)%nat)))
                  (range 4 (num_lookup_selectors cd)) in
  let cur_sum := fold_left (fun acc e => acc * ddelta + e) lookup_combos next_z_re in
  let c_re := nth2 lsel 0 * (z_re - cur_sum) in
  let per_poly :=
      flat_map (fun poly =>
        let lut_rng := range (poly * lut_degree) (Nat.min ((poly + 1) * lut_degree) num_lut) in
        let lu_rng := range (poly * lu_degree) (Nat.min ((poly + 1) * lu_degree) num_lu) in
        let lut_prod := fold_right fmul 1 (map (fun i => dalpha - nth2 looked i) lut_rng) in
        let lu_prod := fold_right fmul 1 (map (fun i => dalpha - nth2 looking i) lu_rng) in
        let lut_prod_i i := fold_right fmul 1 (map (fun j => if Nat.eqb j i then 1 else dalpha - nth2 looked j) lut_rng) in
        let lu_prod_i i := fold_right fmul 1 (map (fun j => if Nat.eqb j i then 1 else dalpha - nth2 looking j) lu_rng) in
        let lu_sum_prods := fold_left (fun acc i => acc + lu_prod_i i) lu_rng 0 in
        let lut_sum_mul := fold_left (fun acc i => acc + nth2 wires (3 * i + 2) * lut_prod_i i) lut_rng 0 in
        let prev := if Nat.eqb poly 0 then nth2 zgx (num_sldc - 1) else nth2 zx (poly - 1) in
        [ nth2 lsel 0 * (lut_prod * (nth2 zx poly - prev) - lut_sum_mul);
          nth2 lsel 1 * (lu_prod * (nth2 zx poly - prev) + lu_sum_prods) ])
      (seq 0 num_sldc) in
  [c_last; c_init_sum; c_init_re] ++ ends ++ [c_re] ++ per_poly.

(* eval_vanishing_poly; None where the real code would panic (zip_eq mismatch) *)
Definition eval_vanishing_poly (cd : common_data) (x : Fp2) (os : opening_set) (pi_hash : list Fp2)
           (ch : proof_challenges) : option (list Fp2) :=
  let c := cd_config cd in
  let has_lookup := negb (Nat.eqb (num_lookup_polys cd) 0) in
  let max_degree := quotient_degree_factor cd in
  let num_prods := num_partial_products cd in
  let consts := os_constants os in
  let wires := os_wires os in
  let constraint_terms := evaluate_gate_constraints cd consts wires pi_hash in
  let nsel := length (cd_groups cd) in
  let lookup_selectors := firstn (num_lookup_selectors cd) (skipn nsel consts) in
  let l_0_x := eval_l_0 (2 ^ degree_bits (cd_fri_params cd)) x in
  let per_challenge (i : nat) : option (Fp2 * list Fp2 * list Fp2) :=
      let z_x := nth2 (os_zs os) i in
      let z_gx := nth2 (os_zs_next os) i in
      let beta := nth i (plonk_betas ch) (toFp 0) in
      let gamma := nth i (plonk_gammas ch) (toFp 0) in
      let nums := map (fun j => nth2 wires j + smul beta (smul (nth j (k_is cd) (toFp 0)) x) + of_fp gamma)
                      (seq 0 (num_routed_wires c)) in
      let dens := map (fun j => nth2 wires j + smul beta (nth2 (os_sigmas os) j) + of_fp gamma)
                      (seq 0 (num_routed_wires c)) in
      let partials := firstn num_prods (skipn (i * num_prods) (os_partial_products os)) in
      let lookups :=
          if has_lookup then
            let nlp := num_lookup_polys cd in
            check_lookup_constraints cd wires (firstn nlp (skipn (nlp * i) (os_lookup_zs os)))
                                     (firstn nlp (skipn (nlp * i) (os_lookup_zs_next os)))
                                     lookup_selectors
                                     (firstn NUM_COINS_LOOKUP (skipn (NUM_COINS_LOOKUP * i) (plonk_deltas ch)))
          else [] in
      match check_partial_products nums dens partials z_x z_gx max_degree with
      | Some pps => Some (l_0_x * (z_x - 1), pps, lookups)
      | None => None
      end in
  let parts := map per_challenge (seq 0 (num_challenges c)) in
  if forallb (fun o => match o with Some _ => true | None => false end) parts then
    let get o := match o with Some v => v | None => (0, [], []) end in
    let z1 := map (fun o => fst (fst (get o))) parts in
    let pps := flat_map (fun o => snd (fst (get o))) parts in
    let lks := flat_map (fun o => snd (get o)) parts in
    let terms := z1 ++ pps ++ lks ++ constraint_terms in
    Some (map (fun a => reduce_with_powers2 terms (of_fp a)) (plonk_alphas ch))
  else None.

(* ------------------------------------------------------------------ FRI instance *)
Definition range_polys (oi lo hi : nat) : list poly_info :=
  map (fun i => {| oracle_index := oi; polynomial_index := i |}) (seq lo (hi - lo)).

Definition ext_primitive_root_of_unity (n_log : nat) : Fp2 :=
  exp_power_of_2 (toFp (nth 0 EXT2_EXT_POWER_OF_TWO_GENERATOR 0%Z), toFp (nth 1 EXT2_EXT_POWER_OF_TWO_GENERATOR 0%Z))
                 (S (Z.to_nat TWO_ADICITY) - n_log).

Definition get_fri_instance (cd : common_data) (zeta : Fp2) : fri_instance :=
  let c := cd_config cd in
  let nch := num_challenges c in
  let num_pre := (cd_num_constants cd + num_routed_wires c)%nat in
  let num_zs_pp := (nch * (1 + num_partial_products cd))%nat in
  let num_lk := (nch * num_lookup_polys cd)%nat in
  let lookup_polys := range_polys 2 num_zs_pp (num_zs_pp + num_lk) in
  let all := range_polys 0 0 num_pre ++ range_polys 1 0 (num_wires c) ++ range_polys 2 0 num_zs_pp
             ++ range_polys 3 0 (nch * quotient_degree_factor cd) ++ lookup_polys in
  let g := ext_primitive_root_of_unity (degree_bits (cd_fri_params cd)) in
  {| oracles := [ {| num_polys := num_pre; blinding := false |};
                  {| num_polys := num_wires c; blinding := true |};
                  {| num_polys := (num_zs_pp + num_lk)%nat; blinding := true |};
                  {| num_polys := (nch * quotient_degree_factor cd)%nat; blinding := true |} ];
     batches := [ {| point := zeta; polynomials := all |};
                  {| point := g * zeta; polynomials := range_polys 2 0 nch ++ lookup_polys |} ] |}.

(* ------------------------------------------------------------------ verify *)
Inductive verdict : Type :=
| Accept | RejectShape | RejectQuotient (i : nat) | RejectFri (e : fri_error) | Panic (site : nat).

Definition verify_with_challenges (cd : common_data) (vo : verifier_only) (pr : proof) (pi_hash : digest)
           (ch : proof_challenges) : verdict :=
  let os := openings pr in
  match eval_vanishing_poly cd (plonk_zeta ch) os (map of_fp pi_hash) ch with
  | None => Panic 10
  | Some van =>
    let zeta_pow_deg := exp_power_of_2 (plonk_zeta ch) (degree_bits (cd_fri_params cd)) in
    let z_h_zeta := zeta_pow_deg - 1 in
    let qchunks := chunks (S (length (os_quotient os))) (quotient_degree_factor cd) (os_quotient os) in
    let bad := find (fun p => negb (nth2 van (fst p) =? z_h_zeta * reduce_with_powers2 (snd p) zeta_pow_deg))
                    (combine (seq 0 (length qchunks)) qchunks) in
    match bad with
    | Some p => RejectQuotient (fst p)
    | None =>
      let caps := [constants_sigmas_cap vo; wires_cap pr; zs_pp_cap pr; quotient_cap pr] in
      match verify_fri_proof p_hash_or_noop p_two_to_one (get_fri_instance cd (plonk_zeta ch))
                             (to_fri_openings os) (pc_fri ch) caps (opening_proof pr) (cd_fri_params cd) with
      | inl _ => Accept
      | inr (EPanic s) => Panic s
      | inr e => RejectFri e
      end
    end
  end.

Definition verify (cd : common_data) (vo : verifier_only) (pr : proof) : verdict :=
  if validate_proof_shape cd pr then
    let pi_hash := p_hash_no_pad (public_inputs pr) in
    verify_with_challenges cd vo pr pi_hash (get_challenges cd vo pr pi_hash)
  else RejectShape.

Definition rd_instance : R (common_data * verifier_only * proof) :=
  rdo cd <- rd_common ;; rdo vo <- rd_verifier_only ;; rdo pr <- rd_proof ;; rret (cd, vo, pr).

(* 1 accept, 0 reject, None = the model says the real code would panic *)
Definition run_plonkverify (a : list Z) : option (list Z) :=
  match run_reader rd_instance a with
  | Some (cd, vo, pr) =>
    match verify cd vo pr with
    | Accept => Some [1%Z]
    | Panic _ => None
    | _ => Some [0%Z]
    end
  | None => None
  end.

(* the challenges alone (for the C04 correspondence) *)
Definition run_challenges (a : list Z) : option (list Z) :=
  match run_reader rd_instance a with
  | Some (cd, vo, pr) =>
    let ch := get_challenges cd vo pr (p_hash_no_pad (public_inputs pr)) in
    let f := pc_fri ch in
    Some (map fval (plonk_betas ch ++ plonk_gammas ch ++ plonk_alphas ch ++ plonk_deltas ch)
          ++ [fval (fst (plonk_zeta ch)); fval (snd (plonk_zeta ch));
              fval (fst (fri_alpha f)); fval (snd (fri_alpha f))]
          ++ flat_map (fun b => [fval (fst b); fval (snd b)]) (fri_betas f)
          ++ [fval (fri_pow_response f)] ++ map Z.of_nat (fri_query_indices f))
  | None => None
  end.
