(* C13 - the Poseidon permutation of plonky2/src/hash/poseidon.rs at the field level, over an
   abstract [FieldOps F].  Constants come from Gen/PoseidonConsts.v (regenerated from /repo on
   every run) through [ofZ : Z -> F] (= from_canonical_u64).

   [poseidon_spec]  the textbook permutation, written from the Poseidon definition: 4 full rounds,
                    22 partial rounds, 4 full rounds; every round is
                        state <- MDS * sbox (state + rc_r)
                    (partial rounds: S-box x^7 on coordinate 0 only),
                    MDS = circulant(MDS_MATRIX_CIRC) + diag(MDS_MATRIX_DIAG).
   [poseidon_fast]  the structure of the optimised [Poseidon::poseidon]: full_rounds,
                    partial_rounds (partial_first_constant_layer, mds_partial_layer_init, then
                    22 x (sbox_monomial(state[0]); state[0] += FAST_PARTIAL_ROUND_CONSTANTS[i];
                    mds_partial_layer_fast)), full_rounds.
   The raw-u64 level of the same code is Model/PoseidonImplModel.v.

   Convention: every product is written  state_element * constant  (as in the Rust source); the
   partial-round functions take the S-box used in partial round i as a parameter [sb i] (it is
   x^7 in both permutations) - Proofs/Poseidon.v runs the same functions on affine forms. *)
From Coq Require Import ZArith List.
From Verif Require Import Base.Field Gen.PoseidonConsts Model.Fp Model.FieldGeneric.
Import ListNotations.

Section Poseidon.
  Context {F : Type} `{FO : FieldOps F}.
  Variable ofZ : Z -> F.            (* from_canonical_u64 *)
  Local Open Scope field_scope.

  Definition cst (tbl : list Z) (i : nat) : F := ofZ (nth i tbl 0%Z).
  Definition cst2 (tbl : list (list Z)) (r i : nat) : F := ofZ (nth i (nth r tbl []) 0%Z).

  (* ALL_ROUND_CONSTANTS[i + SPONGE_WIDTH * round_ctr] *)
  Definition round_const (r i : nat) : F := cst ALL_ROUND_CONSTANTS (i + 12 * r).

  (* ------------------------------------------------------------------ textbook specification *)
  Definition pow7 (x : F) : F := fpow x 7.

  Definition add_round_constants (r : nat) (s : list F) : list F :=
    map (fun i => nthF s i + round_const r i) (seq 0 12).

  (* MDS[r][c] = CIRC[(c - r) mod 12] + (r = c ? DIAG[r] : 0) *)
  Definition mds_entry (r c : nat) : F :=
    cst MDS_MATRIX_CIRC ((c + 12 - r) mod 12)
    + (if Nat.eqb r c then cst MDS_MATRIX_DIAG r else 0).

  Definition mds_spec (s : list F) : list F :=
    map (fun r => fsum (map (fun c => nthF s c * mds_entry r c) (seq 0 12))) (seq 0 12).

  Definition sbox_first (sb : F -> F) (s : list F) : list F :=
    match s with [] => [] | x :: t => sb x :: t end.

  Definition full_round_spec (r : nat) (s : list F) : list F :=
    mds_spec (map pow7 (add_round_constants r s)).

  (* partial round number k (k = 0..21) is round 4 + k *)
  Definition partial_round_spec_gen (sb : nat -> F -> F) (k : nat) (s : list F) : list F :=
    mds_spec (sbox_first (sb k) (add_round_constants (4 + k) s)).

  Definition full_rounds_spec (r0 : nat) (s : list F) : list F :=
    fold_left (fun s r => full_round_spec r s) (seq r0 4) s.

  Definition partial_rounds_spec_gen (sb : nat -> F -> F) (s : list F) : list F :=
    fold_left (fun s k => partial_round_spec_gen sb k s) (seq 0 22) s.

  Definition partial_rounds_spec : list F -> list F := partial_rounds_spec_gen (fun _ => pow7).

  Definition poseidon_spec (s : list F) : list F :=
    full_rounds_spec 26 (partial_rounds_spec (full_rounds_spec 0 s)).

  (* ------------------------------------------------------------------ optimised structure *)
  (* sbox_monomial: x2 = x^2; x4 = x2^2; x3 = x * x2; x3 * x4 *)
  Definition sbox_monomial (x : F) : F :=
    let x2 := x * x in
    let x4 := x2 * x2 in
    let x3 := x * x2 in
    x3 * x4.

  Definition constant_layer (r : nat) (s : list F) : list F :=
    map (fun i => nthF s i + round_const r i) (seq 0 12).

  Definition sbox_layer (s : list F) : list F := map sbox_monomial s.

  (* mds_row_shf: res = sum_i v[(i + r) % 12] * CIRC[i]; res += v[r] * DIAG[r] *)
  Definition mds_row_shf (r : nat) (v : list F) : F :=
    fold_left (fun res i => res + nthF v ((i + r) mod 12) * cst MDS_MATRIX_CIRC i) (seq 0 12) 0
    + nthF v r * cst MDS_MATRIX_DIAG r.

  Definition mds_layer (v : list F) : list F := map (fun r => mds_row_shf r v) (seq 0 12).

  Definition full_rounds (r0 : nat) (s : list F) : list F :=
    fold_left (fun s r => mds_layer (sbox_layer (constant_layer r s))) (seq r0 4) s.

  Definition partial_first_constant_layer (s : list F) : list F :=
    map (fun i => nthF s i + cst FAST_PARTIAL_FIRST_ROUND_CONSTANT i) (seq 0 12).

  (* result[0] = state[0]; for r in 1..12, c in 1..12: result[c] += state[r] * INIT[r-1][c-1] *)
  Definition mds_partial_layer_init (s : list F) : list F :=
    nthF s 0
    :: map (fun c => fold_left (fun acc r =>
                        acc + nthF s r * cst2 FAST_PARTIAL_ROUND_INITIAL_MATRIX (r - 1) (c - 1))
                      (seq 1 11) 0)
           (seq 1 11).

  Definition mds0to0 : F := ofZ (nth 0 MDS_MATRIX_CIRC 0 + nth 0 MDS_MATRIX_DIAG 0)%Z.

  (* d = sum_{i=1..11} state[i] * W_HATS[r][i-1] + state[0] * mds0to0;
     result[i] = state[i] + state[0] * VS[r][i-1]  (multiply_accumulate) *)
  Definition mds_partial_layer_fast (r : nat) (s : list F) : list F :=
    let d := fold_left (fun acc i => acc + nthF s i * cst2 FAST_PARTIAL_ROUND_W_HATS r (i - 1))
                       (seq 1 11) 0
             + nthF s 0 * mds0to0 in
    d :: map (fun i => nthF s i + nthF s 0 * cst2 FAST_PARTIAL_ROUND_VS r (i - 1)) (seq 1 11).

  Definition partial_round_fast_gen (sb : nat -> F -> F) (i : nat) (s : list F) : list F :=
    let s0 := sb i (nthF s 0) in
    let s0 := s0 + cst FAST_PARTIAL_ROUND_CONSTANTS i in
    mds_partial_layer_fast i (s0 :: tl s).

  Definition partial_rounds_gen (sb : nat -> F -> F) (s : list F) : list F :=
    let s := partial_first_constant_layer s in
    let s := mds_partial_layer_init s in
    fold_left (fun s i => partial_round_fast_gen sb i s) (seq 0 22) s.

  Definition partial_rounds : list F -> list F := partial_rounds_gen (fun _ => sbox_monomial).

  Definition poseidon_fast (s : list F) : list F :=
    full_rounds 26 (partial_rounds (full_rounds 0 s)).

  (* poseidon_naive of poseidon.rs: the optimised full rounds around the naive partial rounds
     (constant_layer; sbox_monomial(state[0]); mds_layer) *)
  Definition partial_rounds_naive (s : list F) : list F :=
    fold_left (fun s k =>
                 mds_layer (sbox_first sbox_monomial (constant_layer (4 + k) s)))
              (seq 0 22) s.

  Definition poseidon_naive (s : list F) : list F :=
    full_rounds 26 (partial_rounds_naive (full_rounds 0 s)).
End Poseidon.

(* ---------------------------------------------------------------------- Goldilocks instances *)
(* THE permutation used by the other models *)
Definition poseidon_fp : list Fp -> list Fp := poseidon_spec toFp.
Definition poseidon_fast_fp : list Fp -> list Fp := poseidon_fast toFp.
Definition poseidon_naive_fp : list Fp -> list Fp := poseidon_naive toFp.

(* on integers (any representatives in, canonical residues out) *)
Definition poseidon_Z (l : list Z) : list Z := map fval (poseidon_fp (map toFp l)).
Definition poseidon_fast_Z (l : list Z) : list Z := map fval (poseidon_fast_fp (map toFp l)).
