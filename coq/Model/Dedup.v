(* Core of proof compression (fri/proof.rs FriProof::compress / CompressedFriProof::decompress):
   per-query data are stored once per key (query index, coset index) in a map with
   first-insert-wins (`HashMap::entry().or_insert`), and re-expanded by looking every key up. *)
From Coq Require Import List Arith Bool.
Import ListNotations.

Section Dedup.
  Variable V : Type.

  Fixpoint lookup (m : list (nat * V)) (k : nat) : option V :=
    match m with
    | [] => None
    | (k', v) :: t => if Nat.eqb k k' then Some v else lookup t k
    end.

  (* entry(k).or_insert(v): keep the existing binding *)
  Definition or_insert (m : list (nat * V)) (k : nat) (v : V) : list (nat * V) :=
    match lookup m k with Some _ => m | None => m ++ [(k, v)] end.

  Definition compress (l : list (nat * V)) : list (nat * V) :=
    fold_left (fun m kv => or_insert m (fst kv) (snd kv)) l [].

  Definition decompress (m : list (nat * V)) (keys : list nat) : list (option V) :=
    map (lookup m) keys.

  (* queries with equal key carry equal data *)
  Definition consistent (l : list (nat * V)) : Prop :=
    forall k v1 v2, In (k, v1) l -> In (k, v2) l -> v1 = v2.
End Dedup.
