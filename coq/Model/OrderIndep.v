(* C19 - circuit keys and verdicts do not depend on schedule, hash seeds or SIMD build.
   Executable models of the four places where /repo (plonky2) meets a nondeterministic order
   (HashMap/HashSet iteration order, rayon schedule) and removes it again:

   1. plonk/circuit_builder.rs, CircuitBuilder::build
        self.constants_to_targets.clone().into_iter()
            .sorted_by_key(|(c, _t)| c.to_canonical_u64())
      iterates a HashMap<F, Target> (iteration order depends on the RandomState seed) and sorts it
      by the canonical value of the key.  The keys of a map are pairwise distinct and
      to_canonical_u64 is injective on field elements, so the sort keys are pairwise distinct.
        let mut gates = self.gates.iter().cloned().collect::<Vec<_>>();
        gates.sort_unstable_by_key(|g| (g.0.degree(), g.0.id()));
      collects a HashSet<GateRef> and sorts it with an UNSTABLE sort by (degree, id).
      gates/gate.rs defines `impl PartialEq for GateRef { self.0.id() == other.0.id() }` and
      `impl Hash for GateRef { self.0.id().hash(state) }`: members of the set have pairwise
      distinct id() strings, hence pairwise distinct (degree, id) keys.  Because the sort is
      unstable (pdqsort), distinctness of the keys is exactly what makes its result unique.
      Model: an insertion sort `isort_by` as ONE correct sort; the theorems in Proofs/OrderIndep.v
      are stated for ANY sorted permutation, so they cover pdqsort and itertools' sorted_by_key.
   2. maybe_rayon/src/lib.rs: par_iter / into_par_iter / par_chunks followed by map + collect
      (rayon's indexed collect) return the results in index order whatever the split into
      per-thread pieces was.  Model: `par_map`, map each chunk, concatenate in chunk order.
   3. fri/prover.rs, fri_proof_of_work:
        (0..=F::NEG_ONE.to_canonical_u64()).into_par_iter().find_any(|&candidate| { ..
            leading_zeros >= min_leading_zeros })
      returns SOME candidate that passes, which one depends on the schedule (without the
      `parallel` feature, maybe_rayon's find_any is Iterator::find = the first one).
      fri/verifier.rs, fri_verify_proof_of_work checks only
        fri_pow_response.to_canonical_u64().leading_zeros()
            >= config.proof_of_work_bits + (64 - F::order().bits())
      Model: `find_first` over an arbitrary exploration order of the candidates, `verify_pow`.
   4. hash/merkle_tree.rs, fill_digests_buf / fill_subtree: the parallel tasks
      (par_chunks_exact_mut(..).zip(cap_buf).zip(leaves_chunks).for_each, and
      plonky2_maybe_rayon::join on the halves obtained by split_at_mut / split_last_mut /
      split_first_mut) write pairwise disjoint slots of digests_buf / cap_buf.
      Model: `apply_writes` of an `interleave`-ing of the two tasks' write sequences. *)
From Coq Require Import List ZArith Bool.
Import ListNotations.

(* ---------- 1. sorting by a key ---------- *)

Section SortBy.
  Context {A K : Type}.
  Variable leb : K -> K -> bool.   (* `<=` of the key type (Ord::cmp != Greater) *)
  Variable key : A -> K.           (* the closure given to sort(ed)_by_key *)

  Fixpoint insert_by (x : A) (l : list A) : list A :=
    match l with
    | [] => [x]
    | y :: t => if leb (key x) (key y) then x :: y :: t else y :: insert_by x t
    end.

  Fixpoint isort_by (l : list A) : list A :=
    match l with
    | [] => []
    | x :: t => insert_by x (isort_by t)
    end.
End SortBy.

(* Ord of a Rust tuple (K1, K2): compare the first components, on equality the second. *)
Definition lex_leb {K1 K2 : Type} (leb1 : K1 -> K1 -> bool) (eqb1 : K1 -> K1 -> bool)
    (leb2 : K2 -> K2 -> bool) (a b : K1 * K2) : bool :=
  if eqb1 (fst a) (fst b) then leb2 (snd a) (snd b) else leb1 (fst a) (fst b).

(* Ord of a Rust String = lexicographic order of its bytes, a proper prefix is smaller.
   A string is modelled as the list of its bytes (as Z). *)
Fixpoint list_leb (a b : list Z) : bool :=
  match a, b with
  | [], _ => true
  | _ :: _, [] => false
  | x :: a', y :: b' => if Z.eqb x y then list_leb a' b' else Z.leb x y
  end.

(* The key of `gates.sort_unstable_by_key(|g| (g.0.degree(), g.0.id()))`:
   degree (usize) modelled as Z, id (String) modelled as list Z (its bytes). *)
Definition gate_key_leb : Z * list Z -> Z * list Z -> bool := lex_leb Z.leb Z.eqb list_leb.

(* ---------- 2. chunked (parallel) map + collect ---------- *)

(* Split l into consecutive chunks of the given sizes; what remains after the sizes are used up
   ALWAYS forms a final chunk (possibly empty).  A size may be 0 or exceed what is left
   (firstn / skipn saturate), so every way a scheduler can cut the index range is covered. *)
Fixpoint chunks_by {A : Type} (sizes : list nat) (l : list A) : list (list A) :=
  match sizes with
  | [] => [l]
  | n :: t => firstn n l :: chunks_by t (skipn n l)
  end.

(* each chunk is mapped on its own (by whichever thread), results are concatenated in chunk order *)
Definition par_map {A B : Type} (f : A -> B) (sizes : list nat) (l : list A) : list B :=
  concat (map (map f) (chunks_by sizes l)).

(* ---------- 3. proof of work (grinding) ---------- *)

(* u64::leading_zeros, for 0 <= x < 2^64 (values of to_canonical_u64) *)
Definition leading_zeros64 (x : Z) : Z :=
  if Z.eqb x 0 then 64%Z else (63 - Z.log2 x)%Z.

(* h abstracts "candidate |-> to_canonical_u64 of the PoW response": the duplex of the transcript
   prefix with the candidate (prover) / challenger.observe_element(pow_witness);
   challenger.get_challenge() (prover's re-check and the verifier's challenge derivation).
   k = min_leading_zeros = config.proof_of_work_bits + (64 - F::order().bits()). *)
Definition pow_ok (h : Z -> Z) (k : Z) (x : Z) : bool := Z.leb k (leading_zeros64 (h x)).

(* Iterator::find; one run of find_any = find_first over the order in which the schedule
   happened to explore the candidates *)
Fixpoint find_first {A : Type} (p : A -> bool) (l : list A) : option A :=
  match l with
  | [] => None
  | x :: t => if p x then Some x else find_first p t
  end.

(* fri_verify_proof_of_work: the verifier recomputes the same predicate *)
Definition verify_pow (h : Z -> Z) (k : Z) (x : Z) : bool := pow_ok h k x.

(* ---------- 4. writes into a shared buffer ---------- *)

(* buf[i] = v.  The Rust code would panic for i >= buf.len(); here an out-of-range write leaves the
   buffer unchanged - the theorems hold for all indices and do not depend on this choice. *)
Fixpoint write {A : Type} (i : nat) (v : A) (l : list A) {struct l} : list A :=
  match l, i with
  | [], _ => []
  | _ :: t, O => v :: t
  | x :: t, S j => x :: write j v t
  end.

Definition apply_writes {A : Type} (ws : list (nat * A)) (l : list A) : list A :=
  fold_left (fun acc iv => write (fst iv) (snd iv) acc) ws l.

(* interleave l1 l2 l: l is a merge of l1 and l2 that keeps the internal order of both
   (every sequentially consistent execution of two tasks) *)
Inductive interleave {X : Type} : list X -> list X -> list X -> Prop :=
| interleave_nil : interleave [] [] []
| interleave_left : forall x l1 l2 l, interleave l1 l2 l -> interleave (x :: l1) l2 (x :: l)
| interleave_right : forall x l1 l2 l, interleave l1 l2 l -> interleave l1 (x :: l2) (x :: l).

(* ---------- 5. sigma from the wire partition ---------- *)

(* plonk/permutation_argument.rs: Forest::wire_partition collects the classes in a
   HashMap<usize, Vec<Wire>> filled in row-major order (so the order INSIDE a class is fixed) and
   returns `partition.into_values().collect()`: the order OF the classes is the map's iteration
   order, i.e. depends on the hash state.  WirePartition::get_sigma_map then does
       for subset in &self.partition { for n in 0..subset.len() {
           neighbors.insert(subset[n], subset[(n + 1) % subset.len()]); } }
       for column in 0..num_routed_wires { for row in 0..degree {
           let neighbor = neighbors[&Wire { row, column }];
           sigma.push(neighbor.column * degree + neighbor.row); } }
   Model: the sequence of inserts, a lookup that returns the LAST inserted value of a key
   (HashMap::insert overwrites), `None` where the Rust index expression would panic. *)
Definition Wire : Type := (nat * nat)%type.          (* (row, column) *)
Definition wire_eqb (a b : Wire) : bool := Nat.eqb (fst a) (fst b) && Nat.eqb (snd a) (snd b).

Definition rotate1 {X : Type} (l : list X) : list X :=
  match l with [] => [] | x :: t => t ++ [x] end.
Definition neighbor_pairs (subset : list Wire) : list (Wire * Wire) := combine subset (rotate1 subset).
Definition neighbor_inserts (partition : list (list Wire)) : list (Wire * Wire) :=
  flat_map neighbor_pairs partition.

Fixpoint lookup_last (k : Wire) (inserts : list (Wire * Wire)) : option Wire :=
  match inserts with
  | [] => None
  | (k', v) :: t =>
    match lookup_last k t with
    | Some r => Some r
    | None => if wire_eqb k k' then Some v else None
    end
  end.

Definition sigma_entry (degree : nat) (partition : list (list Wire)) (w : Wire) : option nat :=
  option_map (fun n => snd n * degree + fst n) (lookup_last w (neighbor_inserts partition)).
Definition get_sigma_map (degree num_routed_wires : nat) (partition : list (list Wire)) : list (option nat) :=
  flat_map (fun column => map (fun row => sigma_entry degree partition (row, column)) (seq 0 degree))
           (seq 0 num_routed_wires).
