(* The quadratic extension Fp[X]/(X^2 - W), W = EXT2_W (= 7, regenerated), as pairs; the
   field in which the PLONK/FRI verifier computes (D = 2). Inverse as in
   field/src/extension/quadratic.rs: frobenius(a) / norm(a). *)
From Coq Require Import ZArith Bool Lia.
From Verif Require Import Base.Field Gen.FieldConsts Model.Fp.
Open Scope Z_scope.

Definition Fp2 : Type := (Fp * Fp)%type.
Definition W2 : Fp := toFp EXT2_W.

Local Open Scope field_scope.

Definition fp2_mul (a b : Fp2) : Fp2 :=
  let '(a0, a1) := a in let '(b0, b1) := b in
  (a0 * b0 + W2 * (a1 * b1), a0 * b1 + a1 * b0).
Definition fp2_inv (a : Fp2) : Fp2 :=
  let '(a0, a1) := a in
  let n := finv (a0 * a0 - W2 * (a1 * a1)) in
  (a0 * n, - a1 * n).

Global Instance Fp2Ops : FieldOps Fp2 := {|
  fzero := (0, 0);
  fone := (1, 0);
  fadd a b := (fst a + fst b, snd a + snd b);
  fsub a b := (fst a - fst b, snd a - snd b);
  fmul := fp2_mul;
  fneg a := (- fst a, - snd a);
  finv := fp2_inv;
  feqb a b := (fst a =? fst b) && (snd a =? snd b);
|}.

Definition fp2_of_base (x : Fp) : Fp2 := (x, 0).
Definition fp2_scalar (s : Fp) (a : Fp2) : Fp2 := (s * fst a, s * snd a).
Definition fp2_of_Z (a0 a1 : Z) : Fp2 := (toFp a0, toFp a1).
