(* C17 correspondence: the REAL writers / readers of plonky2::util::serialization (through the
   public traits Write, Read and Buffer) against Model/Codec.v.
     enc_<type> <values> = <bytes>                 run_enc_<type>: values -> bytes
     dec_<type> [<shape>] <bytes> = <values> <number of unread bytes>     run_dec_<type>
   `None` = the real code returns Err or panics (the harness writes `fail`).
   Flat formats (decimal integers): hash = 4 values; cap / Merkle path = count, hashes; extension
   vector = count, pairs; strategy = 0 n a1..an | 1 a f | 2 0 | 2 1 max; the proof dump is the one
   of harness/src/corpus.rs (`dump_proof`). *)
From Coq Require Import ZArith List Bool.
From Verif Require Import Base.Reader Model.Codec.
Import ListNotations.
Open Scope Z_scope.

Definition zlen {A} (l : list A) : Z := Z.of_nat (length l).
Definition b2z (b : bool) : Z := if b then 1 else 0.

(* ------------------------------------------------------------------ parsers of the flat formats *)
Definition rd_hash : R HashOut := rd_n 4 rd_z.
Definition rd_hashes : R (list HashOut) := rd_list rd_hash.
Definition rd_exts : R (list Ext) := rd_list (rd_pair rd_z rd_z).
Definition rd_zs : R (list Z) := rd_list rd_z.
Definition rd_strategy : R FriStrategy :=
  rdo tag <- rd_z ;;
  if tag =? 0 then rdo l <- rd_zs ;; rret (Fixed l)
  else if tag =? 1 then rdo a <- rd_z ;; rdo f <- rd_z ;; rret (ConstantArityBits a f)
  else if tag =? 2 then rdo some <- rd_z ;; if some =? 0 then rret (MinSize None) else rdo m <- rd_z ;; rret (MinSize (Some m))
  else rfail.
Definition rd_fri_config : R FriConfig :=
  rdo r <- rd_z ;; rdo c <- rd_z ;; rdo q <- rd_z ;; rdo p <- rd_z ;; rdo s <- rd_strategy ;;
  rret (mkFriConfig r c q p s).
Definition rd_fri_params : R FriParams :=
  rdo c <- rd_fri_config ;; rdo a <- rd_zs ;; rdo d <- rd_z ;; rdo h <- rd_bool ;; rret (mkFriParams c a d h).
Definition rd_circuit_config : R CircuitConfig :=
  rdo a <- rd_z ;; rdo b <- rd_z ;; rdo c <- rd_z ;; rdo d <- rd_z ;; rdo e <- rd_z ;; rdo f <- rd_z ;;
  rdo g <- rd_bool ;; rdo h <- rd_bool ;; rdo i <- rd_fri_config ;; rret (mkCircuitConfig a b c d e f g h i).
Definition rd_shape : R Shape :=
  rdo a <- rd_nat ;; rdo b <- rd_nat ;; rdo c <- rd_nat ;; rdo d <- rd_nat ;; rdo e <- rd_nat ;;
  rdo f <- rd_nat ;; rdo g <- rd_nat ;; rdo h <- rd_nat ;; rdo i <- rd_nat ;; rdo ar <- rd_list rd_nat ;;
  rdo q <- rd_nat ;; rdo fl <- rd_nat ;; rret (mkShape a b c d e f g h i ar q fl).
Definition rd_openings : R OpeningSet :=
  rdo a <- rd_exts ;; rdo b <- rd_exts ;; rdo c <- rd_exts ;; rdo d <- rd_exts ;; rdo e <- rd_exts ;;
  rdo f <- rd_exts ;; rdo g <- rd_exts ;; rdo h <- rd_exts ;; rdo i <- rd_exts ;;
  rret (mkOpeningSet a b c d e f g h i).
Definition rd_step : R FriQueryStep := rdo e <- rd_exts ;; rdo p <- rd_hashes ;; rret (mkFriQueryStep e p).
Definition rd_round : R FriQueryRound :=
  rdo i <- rd_list (rd_pair rd_zs rd_hashes) ;; rdo s <- rd_list rd_step ;; rret (mkFriQueryRound i s).
Definition rd_fri_proof : R FriProof :=
  rdo caps <- rd_list rd_hashes ;; rdo rounds <- rd_list rd_round ;; rdo fin <- rd_exts ;; rdo pow <- rd_z ;;
  rret (mkFriProof caps rounds fin pow).
Definition rd_pwpi : R ProofWithPublicInputs :=
  rdo a <- rd_hashes ;; rdo b <- rd_hashes ;; rdo c <- rd_hashes ;; rdo o <- rd_openings ;;
  rdo f <- rd_fri_proof ;; rdo pis <- rd_zs ;; rret (mkPwpi (mkProof a b c o f) pis).

(* ------------------------------------------------------------------ flat dumps of decoded values *)
Definition dump_hashes (l : list HashOut) : list Z := zlen l :: concat l.
Definition dump_exts (l : list Ext) : list Z := zlen l :: flat_map (fun e => [fst e; snd e]) l.
Definition dump_zs (l : list Z) : list Z := zlen l :: l.
Definition dump_strategy (s : FriStrategy) : list Z :=
  match s with
  | Fixed l => 0 :: dump_zs l
  | ConstantArityBits a f => [1; a; f]
  | MinSize None => [2; 0]
  | MinSize (Some m) => [2; 1; m]
  end.
Definition dump_fri_config (c : FriConfig) : list Z :=
  [fc_rate_bits c; fc_cap_height c; fc_num_query_rounds c; fc_pow_bits c] ++ dump_strategy (fc_strategy c).
Definition dump_fri_params (p : FriParams) : list Z :=
  dump_fri_config (fp_config p) ++ dump_zs (fp_reduction_arity_bits p) ++ [fp_degree_bits p; b2z (fp_hiding p)].
Definition dump_circuit_config (c : CircuitConfig) : list Z :=
  [cc_num_wires c; cc_num_routed_wires c; cc_num_constants c; cc_security_bits c; cc_num_challenges c;
   cc_max_quotient_degree_factor c; b2z (cc_use_base_arithmetic_gate c); b2z (cc_zero_knowledge c)]
  ++ dump_fri_config (cc_fri_config c).
Definition dump_openings (o : OpeningSet) : list Z :=
  dump_exts (os_constants o) ++ dump_exts (os_plonk_sigmas o) ++ dump_exts (os_wires o)
  ++ dump_exts (os_plonk_zs o) ++ dump_exts (os_plonk_zs_next o) ++ dump_exts (os_partial_products o)
  ++ dump_exts (os_quotient_polys o) ++ dump_exts (os_lookup_zs o) ++ dump_exts (os_lookup_zs_next o).
Definition dump_step (s : FriQueryStep) : list Z := dump_exts (qs_evals s) ++ dump_hashes (qs_proof s).
Definition dump_round (q : FriQueryRound) : list Z :=
  (zlen (qr_initial q) :: flat_map (fun vp => dump_zs (fst vp) ++ dump_hashes (snd vp)) (qr_initial q))
  ++ (zlen (qr_steps q) :: flat_map dump_step (qr_steps q)).
Definition dump_fri_proof (p : FriProof) : list Z :=
  (zlen (fr_commit_phase_merkle_caps p) :: flat_map dump_hashes (fr_commit_phase_merkle_caps p))
  ++ (zlen (fr_query_round_proofs p) :: flat_map dump_round (fr_query_round_proofs p))
  ++ dump_exts (fr_final_poly p) ++ [fr_pow_witness p].
Definition dump_pwpi (p : ProofWithPublicInputs) : list Z :=
  let pr := pw_proof p in
  dump_hashes (pr_wires_cap pr) ++ dump_hashes (pr_zs_partial_products_cap pr)
  ++ dump_hashes (pr_quotient_polys_cap pr) ++ dump_openings (pr_openings pr)
  ++ dump_fri_proof (pr_opening_proof pr) ++ dump_zs (pw_public_inputs p).

(* ------------------------------------------------------------------ enc *)
Definition enc1 {A} (p : R A) (w : A -> list Z) (a : list Z) : option (list Z) :=
  option_map w (run_reader p a).
Definition encW {A} (p : R A) (w : A -> W) (a : list Z) : option (list Z) :=
  match run_reader p a with Some x => w x | None => None end.

(* the integer writers take a value of the Rust type: arguments outside the type are not cases *)
Definition in_range (x hi : Z) : bool := (0 <=? x) && (x <? hi).
Definition run_enc_u8 (a : list Z) := match a with [x] => if in_range x 256 then Some (write_u8 x) else None | _ => None end.
Definition run_enc_u32 (a : list Z) := match a with [x] => if in_range x (2 ^ 32) then Some (write_u32 x) else None | _ => None end.
Definition run_enc_usize (a : list Z) := match a with [x] => if in_range x (2 ^ 64) then Some (write_usize x) else None | _ => None end.
Definition run_enc_bool (a : list Z) := match a with [x] => Some (write_bool (negb (x =? 0))) | _ => None end.
(* field values arrive as raw u64 representations (possibly non-canonical) *)
Definition run_enc_field (a : list Z) := match a with [x] => Some (write_field x) | _ => None end.
Definition run_enc_ext (a : list Z) := match a with [x; y] => Some (write_ext (x, y)) | _ => None end.
Definition run_enc_hash (a : list Z) := enc1 rd_hash write_hash a.
Definition run_enc_cap (a : list Z) := enc1 rd_hashes write_merkle_cap a.
Definition run_enc_mproof (a : list Z) := encW rd_hashes write_merkle_proof a.
Definition run_enc_usizevec (a : list Z) := enc1 rd_zs write_usize_vec a.
Definition run_enc_strategy (a : list Z) := enc1 rd_strategy write_fri_reduction_strategy a.
Definition run_enc_friconfig (a : list Z) := enc1 rd_fri_config write_fri_config a.
Definition run_enc_friparams (a : list Z) := enc1 rd_fri_params write_fri_params a.
Definition run_enc_circuitconfig (a : list Z) := enc1 rd_circuit_config write_circuit_config a.
Definition run_enc_openings (a : list Z) := enc1 rd_openings write_opening_set a.
Definition run_enc_verifieronly (a : list Z) :=
  encW (rdo c <- rd_hashes ;; rdo d <- rd_hash ;; rret (mkVerifierOnly c d)) write_verifier_only a.
Definition run_enc_proof (a : list Z) := encW rd_pwpi write_proof_with_public_inputs a.

(* ------------------------------------------------------------------ dec *)
Definition dec1 {A} (r : R A) (d : A -> list Z) (bytes : list Z) : option (list Z) :=
  if forallb is_byte bytes then
    match r bytes with
    | Some (x, rest) => Some (d x ++ [zlen rest])
    | None => None
    end
  else None.

Definition run_dec_u8 := dec1 read_u8 (fun x => [x]).
Definition run_dec_u32 := dec1 read_u32 (fun x => [x]).
Definition run_dec_usize := dec1 read_usize (fun x => [x]).
Definition run_dec_bool := dec1 read_bool (fun b => [b2z b]).
Definition run_dec_field := dec1 read_field (fun x => [x]).
Definition run_dec_ext := dec1 read_ext (fun e => [fst e; snd e]).
Definition run_dec_hash := dec1 read_hash (fun h => h).
Definition run_dec_cap (a : list Z) :=
  match a with h :: bytes => if in_range h 20 then dec1 (read_merkle_cap (Z.to_nat h)) dump_hashes bytes else None | _ => None end.
Definition run_dec_mproof := dec1 read_merkle_proof dump_hashes.
Definition run_dec_usizevec := dec1 read_usize_vec dump_zs.
Definition run_dec_strategy := dec1 read_fri_reduction_strategy dump_strategy.
Definition run_dec_friconfig := dec1 read_fri_config dump_fri_config.
Definition run_dec_friparams := dec1 read_fri_params dump_fri_params.
Definition run_dec_circuitconfig := dec1 read_circuit_config dump_circuit_config.
Definition run_dec_verifieronly := dec1 read_verifier_only (fun v => dump_hashes (vo_cap v) ++ vo_digest v).
Definition run_dec_openings (a : list Z) :=
  match rd_shape a with Some (sh, bytes) => dec1 (read_opening_set sh) dump_openings bytes | None => None end.
Definition run_dec_proof (a : list Z) :=
  match rd_shape a with Some (sh, bytes) => dec1 (read_proof_with_public_inputs sh) dump_pwpi bytes | None => None end.
