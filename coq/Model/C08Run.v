(* C08 correspondence: the real check_lookup_constraints (via plonk::verif_hooks) on random
   Fp2 inputs vs Model/Lookup.v lookup_constraints.
   lkc: routed qdf #tables [len [inp out]..].. a b alpha delta  #sels sels..  #local local..  #next next..  #wires wires..
   (extension elements as two canonical u64) -> the constraint values. *)
From Coq Require Import ZArith List.
From Verif Require Import Base.Field Base.Reader Model.Fp Model.Fp2 Model.Lookup.
Import ListNotations.
Open Scope Z_scope.

Definition c08_rd_fp2 : R Fp2 := rdo a <- rd_z ;; rdo b <- rd_z ;; rret (fp2_of_Z a b).
Definition c08_rd_base : R Fp2 := rdo a <- rd_z ;; rret (fp2_of_Z a 0).
Definition c08_fp2_out (l : list Fp2) : list Z := flat_map (fun x => [fval (fst x); fval (snd x)]) l.

Definition run_lkc (a : list Z) : option (list Z) :=
  let r :=
    rdo routed <- rd_nat ;; rdo qdf <- rd_nat ;;
    rdo luts <- rd_list (rd_list (rd_pair c08_rd_base c08_rd_base)) ;;
    rdo da <- c08_rd_base ;; rdo db <- c08_rd_base ;; rdo dalpha <- c08_rd_base ;; rdo ddelta <- c08_rd_base ;;
    rdo sels <- rd_list c08_rd_fp2 ;; rdo loc <- rd_list c08_rd_fp2 ;; rdo nxt <- rd_list c08_rd_fp2 ;;
    rdo wires <- rd_list c08_rd_fp2 ;;
    rret (lookup_constraints routed qdf luts {| ch_a := da; ch_b := db; ch_alpha := dalpha; ch_delta := ddelta |}
                             wires loc nxt sels) in
  match run_reader r a with
  | Some (Some cs) => Some (c08_fp2_out cs)
  | _ => None
  end.

(* clp: n routed max_qdf  #regions [last_lu last_lut first_lut]..  a b alpha delta  then n rows of `routed` wires
   -> the (npl + 1) polynomials' values, polynomial-major. Base field. None = the prover panics. *)
Definition c08_rd_fp : R Fp := rdo a <- rd_z ;; rret (toFp a).
Definition c08_rd_region : R region :=
  rdo a <- rd_nat ;; rdo b <- rd_nat ;; rdo c <- rd_nat ;; rret {| last_lu := a; last_lut := b; first_lut := c |}.

Definition run_clp (a : list Z) : option (list Z) :=
  let r :=
    rdo n <- rd_nat ;; rdo routed <- rd_nat ;; rdo qdf <- rd_nat ;;
    rdo regions <- rd_list c08_rd_region ;;
    rdo da <- c08_rd_fp ;; rdo db <- c08_rd_fp ;; rdo dalpha <- c08_rd_fp ;; rdo ddelta <- c08_rd_fp ;;
    rdo rows <- rd_n n (rd_n routed c08_rd_fp) ;;
    rret (compute_lookup_polys n routed qdf (fun row => nth row rows [])
                               {| ch_a := da; ch_b := db; ch_alpha := dalpha; ch_delta := ddelta |} regions) in
  match run_reader r a with
  | Some (Some polys) => Some (flat_map (map fval) polys)
  | _ => None
  end.

(* lksel: n #regions [last_lu last_lut first_lut].. -> for every row 0..n-1 the 4 + #regions lookup
   selector values (selectors_lookup ++ selector_ends_lookups), row-major: the constant columns the
   real circuit commits to must be exactly these *)
Definition run_lksel (a : list Z) : option (list Z) :=
  let r := rdo n <- rd_nat ;; rdo regions <- rd_list c08_rd_region ;; rret (n, regions) in
  match run_reader r a with
  | Some (n, regions) =>
    Some (flat_map (fun row => map fval (lookup_selectors_at (F := Fp) regions row)) (seq 0 n))
  | None => None
  end.
