(* C10 correspondence entry points: Model/StarkLookup.v instantiated with Fp / Fp2, replaying the
   lines written by harness/src/c10.rs:
     lkcols   the prover's lookup helper and Z columns        (lookup::lookup_helper_columns)
     psums    the prover's CTL helper columns and reverse sum (cross_table_lookup::partial_sums)
     lkeval   lookup constraints at an extension point        (lookup::eval_packed_lookups_generic)
     ctleval  CTL constraints at an extension point           (eval_cross_table_lookup_checks)
     ctlsum   verify_cross_table_lookups on given first-row openings
   [None] = the model says the real code panics. *)
From Coq Require Import ZArith List Bool.
From Verif Require Import Base.Field Base.Reader Model.Fp Model.Fp2 Model.Stark Model.StarkLookup Model.C09Run.
Import ListNotations.
Open Scope Z_scope.

Definition rd_col : R (@column Fp) :=
  rdo lin <- rd_list (rd_pair rd_nat rd_fp) ;;
  rdo nx <- rd_list (rd_pair rd_nat rd_fp) ;;
  rdo c <- rd_fp ;;
  rret (mkColumn lin nx c).
Definition rd_filter : R (@filter Fp) :=
  rdo ps <- rd_list (rd_pair rd_col rd_col) ;;
  rdo cs <- rd_list rd_col ;;
  rret (mkFilter ps cs).
Definition rd_lookup : R (@lookup Fp) :=
  rdo cfs <- rd_list (rd_pair rd_col rd_filter) ;;
  rdo t <- rd_col ;; rdo m <- rd_col ;;
  rret (mkLookup (map fst cfs) t m (map snd cfs)).
Definition rd_rows : R (list (list Fp)) :=
  rdo n <- rd_nat ;; rdo w <- rd_nat ;; rd_n n (rd_n w rd_fp).

(* base-field coefficients embedded in the extension *)
Definition col2 (c : @column Fp) : @column Fp2 :=
  mkColumn (map (fun p => (fst p, of_base (snd p))) (c_lin c))
           (map (fun p => (fst p, of_base (snd p))) (c_next c)) (of_base (c_const c)).
Definition filter2 (f : @filter Fp) : @filter Fp2 :=
  mkFilter (map (fun p => (col2 (fst p), col2 (snd p))) (f_products f)) (map col2 (f_constants f)).
Definition lookup2 (l : @lookup Fp) : @lookup Fp2 :=
  mkLookup (map col2 (l_columns l)) (col2 (l_table l)) (col2 (l_freq l)) (map filter2 (l_filters l)).

Definition out_cols (cols : list (list Fp)) : list Z := concat (map (map fval) cols).

(* lkcols challenge degree <lookup> <rows> *)
Definition run_lkcols (a : list Z) : option (list Z) :=
  let r := rdo ch <- rd_fp ;; rdo d <- rd_nat ;; rdo lk <- rd_lookup ;; rdo rows <- rd_rows ;; rret (ch, d, lk, rows) in
  match run_reader r a with
  | Some (ch, d, lk, rows) => option_map out_cols (lookup_helper_columns lk rows ch d)
  | None => None
  end.

(* psums beta gamma degree <list of (list of columns, filter)> <rows> *)
Definition run_psums (a : list Z) : option (list Z) :=
  let r := rdo b <- rd_fp ;; rdo g <- rd_fp ;; rdo d <- rd_nat ;;
           rdo cfs <- rd_list (rd_pair (rd_list rd_col) rd_filter) ;;
           rdo rows <- rd_rows ;; rret (b, g, d, cfs, rows) in
  match run_reader r a with
  | Some (b, g, d, cfs, rows) => option_map out_cols (partial_sums rows cfs b g d)
  | None => None
  end.

Definition rd_consumer : R (@consumer Fp2) :=
  rdo alphas <- rd_list rd_fp2 ;;
  rdo zl <- rd_fp2 ;; rdo l0 <- rd_fp2 ;; rdo ll <- rd_fp2 ;;
  rret (consumer_new alphas zl l0 ll).

Definition out_accs (c : option (@consumer Fp2)) : option (list Z) :=
  option_map (fun c => concat (map fp2_out (c_accs c))) c.

(* lkeval degree <consumer> <lookups> <challenges (base)> ncols local.. next.. naux auxl.. auxn.. *)
Definition run_lkeval (a : list Z) : option (list Z) :=
  let r := rdo d <- rd_nat ;; rdo c <- rd_consumer ;;
           rdo lks <- rd_list rd_lookup ;;
           rdo chs <- rd_list rd_fp ;;
           rdo w <- rd_nat ;; rdo lv <- rd_n w rd_fp2 ;; rdo nv <- rd_n w rd_fp2 ;;
           rdo na <- rd_nat ;; rdo al <- rd_n na rd_fp2 ;; rdo an <- rd_n na rd_fp2 ;;
           rret (d, c, lks, chs, lv, nv, al, an) in
  match run_reader r a with
  | Some (d, c, lks, chs, lv, nv, al, an) =>
    out_accs (eval_packed_lookups (map lookup2 lks) (map of_base chs) lv nv al an d 0 c)
  | None => None
  end.

(* ctleval degree <consumer> <helpers> local_z next_z beta gamma <list of column lists> <filters> w local.. next.. *)
Definition run_ctleval (a : list Z) : option (list Z) :=
  let r := rdo d <- rd_nat ;; rdo c <- rd_consumer ;;
           rdo hs <- rd_list rd_fp2 ;; rdo lz <- rd_fp2 ;; rdo nz <- rd_fp2 ;;
           rdo b <- rd_fp ;; rdo g <- rd_fp ;;
           rdo cols <- rd_list (rd_list rd_col) ;;
           rdo fs <- rd_list rd_filter ;;
           rdo w <- rd_nat ;; rdo lv <- rd_n w rd_fp2 ;; rdo nv <- rd_n w rd_fp2 ;;
           rret (d, c, hs, lz, nz, b, g, cols, fs, lv, nv) in
  match run_reader r a with
  | Some (d, c, hs, lz, nz, b, g, cols, fs, lv, nv) =>
    out_accs (eval_ctl_check hs lz nz (of_base b) (of_base g) (map (map col2) cols) (map filter2 fs) lv nv d c)
  | None => None
  end.

(* ctlsum nch <per table: openings> <per CTL: looking tables, looked table, has_extra, [extra sums]> *)
Definition rd_ctl_decl : R (@ctl_decl Fp) :=
  rdo looking <- rd_list rd_nat ;;
  rdo looked <- rd_nat ;;
  rdo has <- rd_bool ;;
  if has then (rdo ex <- rd_list rd_fp ;; rret (looking, looked, Some ex))
  else rret (looking, looked, None).

Definition run_ctlsum (a : list Z) : option (list Z) :=
  let r := rdo nch <- rd_nat ;; rdo zs <- rd_list (rd_list rd_fp) ;; rdo ctls <- rd_list rd_ctl_decl ;;
           rret (nch, zs, ctls) in
  match run_reader r a with
  | Some (nch, zs, ctls) =>
    match verify_ctl_sums ctls nch zs with
    | Some b => Some [if b then 1 else 0]
    | None => None
    end
  | None => None
  end.
