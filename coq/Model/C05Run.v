(* C05 correspondence: replay of stand-alone FRI verifications (harness/src/c05.rs) *)
From Coq Require Import ZArith List Bool.
From Verif Require Import Base.Field Base.Reader Model.Fp Model.Fp2 Model.PoseidonSpec Model.Fri Model.Plonk.
Import ListNotations.
Local Open Scope nat_scope.

Definition rd_instance_fri : R fri_instance :=
  rdo os <- rd_list (rdo n <- rd_nat ;; rdo b <- rd_bool ;; rret {| num_polys := n; blinding := b |}) ;;
  rdo bs <- rd_list (rdo pt <- rd_fp2 ;;
                     rdo ps <- rd_list (rdo oi <- rd_nat ;; rdo pi <- rd_nat ;;
                                        rret {| oracle_index := oi; polynomial_index := pi |}) ;;
                     rret {| point := pt; polynomials := ps |}) ;;
  rret {| oracles := os; batches := bs |}.

Definition rd_fri_challenges : R fri_challenges :=
  rdo a <- rd_fp2 ;; rdo bs <- rd_list rd_fp2 ;; rdo pr <- rd_fp ;; rdo ix <- rd_list rd_nat ;;
  rret {| fri_alpha := a; fri_betas := bs; fri_pow_response := pr; fri_query_indices := ix |}.

Definition fri_code (r : res unit) : option Z :=
  match r with
  | inl _ => Some 1%Z
  | inr (EShape _) => Some 0%Z
  | inr EPow => Some 2%Z
  | inr ENumRounds => Some 3%Z
  | inr (EInitialMerkle _ _) => Some 4%Z
  | inr (EStepMerkle _ _) => Some 4%Z
  | inr (EConsistency _ _) => Some 5%Z
  | inr (EFinal _) => Some 6%Z
  | inr (EPanic _) => None
  end.

Definition run_friverify (a : list Z) : option (list Z) :=
  let rd :=
      rdo inst <- rd_instance_fri ;;
      rdo ops <- rd_list (rd_list rd_fp2) ;;
      rdo ch <- rd_fri_challenges ;;
      rdo caps <- rd_list rd_cap ;;
      rdo pr <- rd_fri_proof ;;
      rdo p <- rd_fri_params ;;
      rret (inst, ops, ch, caps, pr, p) in
  match run_reader rd a with
  | Some (inst, ops, ch, caps, pr, p) =>
    match fri_code (verify_fri_proof p_hash_or_noop p_two_to_one inst ops ch caps pr p) with
    | Some c => Some [c]
    | None => None
    end
  | None => None
  end.
