(* Uniform entry points (list Z -> option (list Z)) for the C14 correspondence run; used by the
   extracted model_cli and by generated cases.v files evaluated with vm_compute. [None] means the
   checked monad failed (an overflow / violated assume in the translated code). *)
From Coq Require Import ZArith List.
From Verif Require Import Base.Mach Base.Field Gen.FieldConsts Gen.GoldilocksImpl Model.Fp Model.FieldGeneric.
Import ListNotations.
Open Scope Z_scope.

Definition one (m : M Z) : option (list Z) := option_map (fun r => [r]) m.

Definition run_add (a : list Z) := match a with [x; y] => one (gl_add x y) | _ => None end.
Definition run_sub (a : list Z) := match a with [x; y] => one (gl_sub x y) | _ => None end.
Definition run_mul (a : list Z) := match a with [x; y] => one (gl_mul x y) | _ => None end.
Definition run_addc (a : list Z) := match a with [x; y] => one (gl_add_canonical_u64 x y) | _ => None end.
Definition run_subc (a : list Z) := match a with [x; y] => one (gl_sub_canonical_u64 x y) | _ => None end.
Definition run_red96 (a : list Z) := match a with [x; y] => one (gl_reduce96 (x, y)) | _ => None end.
Definition run_red128 (a : list Z) := match a with [x] => one (gl_reduce128 x) | _ => None end.
Definition run_red160 (a : list Z) := match a with [x; y] => one (gl_reduce160 x y) | _ => None end.
Definition run_mac (a : list Z) := match a with [s; x; y] => one (gl_multiply_accumulate s x y) | _ => None end.
Definition run_neg (a : list Z) := match a with [x] => one (gl_neg x) | _ => None end.
Definition run_square (a : list Z) := match a with [x] => one (gl_square x) | _ => None end.
Definition run_canon (a : list Z) := match a with [x] => one (gl_to_canonical_u64 x) | _ => None end.
Definition run_fromi64 (a : list Z) :=
  match a with [x] => one (gl_from_noncanonical_i64 (wrapS 64 x)) | _ => None end.
Definition run_inv (a : list Z) :=
  match a with
  | [x] => match gl_try_inverse x with
           | Some (Some r) => Some [1; r]
           | Some None => Some [0]
           | None => None
           end
  | _ => None
  end.
Definition run_ext2mul (a : list Z) :=
  match a with
  | [a0; a1; b0; b1] => option_map (fun '(c0, c1) => [c0; c1]) (ext2_mul (a0, a1) (b0, b1))
  | _ => None end.
Definition run_ext4mul (a : list Z) :=
  match a with
  | [a0; a1; a2; a3; b0; b1; b2; b3] =>
    option_map (fun '(c0, c1, c2, c3) => [c0; c1; c2; c3]) (ext4_mul (a0, a1, a2, a3) (b0, b1, b2, b3))
  | _ => None end.
Definition run_ext5mul (a : list Z) :=
  match a with
  | [a0; a1; a2; a3; a4; b0; b1; b2; b3; b4] =>
    option_map (fun '(c0, c1, c2, c3, c4) => [c0; c1; c2; c3; c4])
               (ext5_mul (a0, a1, a2, a3, a4) (b0, b1, b2, b3, b4))
  | _ => None end.

(* hand-modelled generic code, over the canonical instance Fp; outputs canonical *)
Definition fps (l : list Z) : list Fp := map toFp l.
Definition zs (l : list Fp) : list Z := map fval l.

Definition run_expu64 (a : list Z) :=
  match a with [x; e] => Some [fval (exp_u64 (toFp x) (Z.to_N e))] | _ => None end.
Definition run_inv2exp (a : list Z) :=
  match a with [k] => Some [fval (inverse_2exp toFp ORDER (Z.to_nat TWO_ADICITY) (Z.to_nat k))] | _ => None end.
Definition run_batchinv (a : list Z) := Some (zs (batch_multiplicative_inverse (fps a))).

Definition optext (o : option (list Fp)) : option (list Z) :=
  match o with Some v => Some (1 :: zs v) | None => Some [0] end.
Definition run_ext2inv (a : list Z) := optext (ext2_try_inverse (toFp EXT2_W) (toFp EXT2_DTH_ROOT) (fps a)).
Definition run_ext4inv (a : list Z) := optext (ext4_try_inverse (toFp EXT4_W) (toFp EXT4_DTH_ROOT) (fps a)).
Definition run_ext5inv (a : list Z) := optext (ext5_try_inverse (toFp EXT5_W) (toFp EXT5_DTH_ROOT) (fps a)).
Definition run_ext2frob (a : list Z) := Some (zs (ext_frobenius 2 (toFp EXT2_DTH_ROOT) (fps a))).
Definition run_ext4frob (a : list Z) := Some (zs (ext_frobenius 4 (toFp EXT4_DTH_ROOT) (fps a))).
Definition run_ext5frob (a : list Z) := Some (zs (ext_frobenius 5 (toFp EXT5_DTH_ROOT) (fps a))).
Definition run_ext2sq (a : list Z) := Some (zs (ext2_square (toFp EXT2_W) (fps a))).
Definition run_ext4sq (a : list Z) := Some (zs (ext4_square (toFp EXT4_W) (fps a))).
Definition run_ext5sq (a : list Z) := Some (zs (ext5_square (toFp EXT5_W) (fps a))).
Definition run_const_w (a : list Z) :=
  match a with [2] => Some [EXT2_W] | [4] => Some [EXT4_W] | [5] => Some [EXT5_W] | _ => None end.
Definition run_const_dth (a : list Z) :=
  match a with [2] => Some [EXT2_DTH_ROOT] | [4] => Some [EXT4_DTH_ROOT] | [5] => Some [EXT5_DTH_ROOT] | _ => None end.

(* packed (SIMD) lanes: canonicalised lane results against the canonicalised scalar model *)
Definition canon1 (m : M Z) : option (list Z) :=
  match m with Some r => one (gl_to_canonical_u64 r) | None => None end.
Definition run_padd (a : list Z) := match a with [x; y] => canon1 (gl_add x y) | _ => None end.
Definition run_psub (a : list Z) := match a with [x; y] => canon1 (gl_sub x y) | _ => None end.
Definition run_pmul (a : list Z) := match a with [x; y] => canon1 (gl_mul x y) | _ => None end.
Definition run_pneg (a : list Z) := match a with [x] => canon1 (gl_neg x) | _ => None end.
Definition run_psquare (a : list Z) := match a with [x] => canon1 (gl_square x) | _ => None end.
Definition run_pinterleave_involution (a : list Z) : option (list Z) := Some [1].
