(* Uniform entry points (list Z -> option (list Z)) for the C13 correspondence run; used by the
   extracted model_cli and by in-Coq vm_compute subsets.  Field elements go in as raw u64
   representations and come out canonical.  [None] = the model says the real code panics. *)
From Coq Require Import ZArith List Bool.
From Verif Require Import Base.Mach Base.Field Gen.FieldConsts Model.Fp Model.Poseidon
  Model.PoseidonImplModel Model.Sponge Model.Challenger.
Import ListNotations.
Open Scope Z_scope.

Definition canon (l : list Z) : list Z := map (fun z => z mod ORDER) l.
Definition fps13 (l : list Z) : list Fp := map toFp l.
Definition zs13 (l : list Fp) : list Z := map fval l.
Definition is_u64 (z : Z) : bool := (0 <=? z) && (z <? 2 ^ 64).
Definition state_ok (a : list Z) : bool := Nat.eqb (length a) 12 && forallb is_u64 a.

(* raw-u64 implementation level *)
Definition run_poseidon (a : list Z) : option (list Z) :=
  if state_ok a then option_map canon (poseidon_impl a) else None.
Definition run_poseidon_naive (a : list Z) : option (list Z) :=
  if state_ok a then option_map canon (poseidon_naive_impl a) else None.
Definition run_mds_layer (a : list Z) : option (list Z) :=
  if state_ok a then option_map canon (mds_layer_impl a) else None.
Definition run_partial_rounds (a : list Z) : option (list Z) :=
  if state_ok a then option_map canon (partial_rounds_impl a) else None.
(* mds_partial_fast round s0..s11: one call of mds_partial_layer_fast (round < 22) *)
Definition run_mds_partial_fast (a : list Z) : option (list Z) :=
  match a with
  | r :: s => if state_ok s && (0 <=? r) && (r <? 22)
              then option_map canon (mds_partial_layer_fast_impl (Z.to_nat r) s) else None
  | [] => None
  end.
(* same outputs without canonicalisation: the exact u64 representation the code produces *)
Definition run_poseidon_raw (a : list Z) : option (list Z) :=
  if state_ok a then poseidon_impl a else None.

(* field level: the textbook permutation and the optimised structure *)
Definition run_poseidon_spec (a : list Z) : option (list Z) :=
  if state_ok a then Some (poseidon_Z a) else None.
Definition run_poseidon_fast (a : list Z) : option (list Z) :=
  if state_ok a then Some (poseidon_fast_Z a) else None.

(* sponge *)
Definition run_hash_no_pad (a : list Z) : option (list Z) :=
  Some (zs13 (poseidon_hash_no_pad (fps13 a))).
Definition run_hash_n_to_m (a : list Z) : option (list Z) :=
  match a with
  | m :: xs => option_map zs13 (poseidon_hash_n_to_m_no_pad (fps13 xs) (Z.to_nat m))
  | _ => None
  end.
Definition run_two_to_one (a : list Z) : option (list Z) :=
  match a with
  | [x0; x1; x2; x3; y0; y1; y2; y3] =>
    option_map zs13 (poseidon_compress (fps13 [x0; x1; x2; x3]) (fps13 [y0; y1; y2; y3]))
  | _ => None
  end.
Definition run_hash_or_noop (a : list Z) : option (list Z) :=
  Some (zs13 (poseidon_hash_or_noop (fps13 a))).
Definition run_hash_pad (a : list Z) : option (list Z) :=
  Some (zs13 (poseidon_hash_pad (fps13 a))).

(* challenger: op sequence encoded as  0 k x1 .. xk  (observe_elements)  |  1 n  (get_n_challenges) *)
Fixpoint decode_ops (fuel : nat) (a : list Z) : option (list (chop Fp)) :=
  match fuel with
  | O => match a with [] => Some [] | _ => None end
  | S fuel' =>
    match a with
    | [] => Some []
    | 0 :: k :: rest =>
      let k' := Z.to_nat k in
      if Nat.leb k' (length rest)
      then option_map (cons (Observe (fps13 (firstn k' rest)))) (decode_ops fuel' (skipn k' rest))
      else None
    | 1 :: n :: rest => option_map (cons (Squeeze (Z.to_nat n))) (decode_ops fuel' rest)
    | _ => None
    end
  end.

Definition run_challenger (a : list Z) : option (list Z) :=
  option_map (fun ops => zs13 (poseidon_run_native ops)) (decode_ops (length a) a).
Definition run_rchallenger (a : list Z) : option (list Z) :=
  option_map (fun ops => zs13 (poseidon_run_recursive ops)) (decode_ops (length a) a).

(* extended op sequence for the native challenger, run on the state functions directly:
   0 k x1..xk observe_elements | 1 n get_n_challenges | 2 get_hash | 3 get_extension_challenge
   | 4 compact (outputs the 12 state elements) | 5 x observe_element *)
Fixpoint run_chx (fuel : nat) (a : list Z) (s : chstate Fp) (out : list Fp) : option (list Fp) :=
  match fuel with
  | O => match a with [] => Some out | _ => None end
  | S fuel' =>
    match a with
    | [] => Some out
    | 0 :: k :: rest =>
      let k' := Z.to_nat k in
      if Nat.leb k' (length rest)
      then run_chx fuel' (skipn k' rest) (observe_elements poseidon_fp s (fps13 (firstn k' rest))) out
      else None
    | 1 :: n :: rest =>
      let '(cs, s') := get_n_challenges poseidon_fp (Z.to_nat n) s in run_chx fuel' rest s' (out ++ cs)
    | 2 :: rest => let '(cs, s') := get_hash poseidon_fp s in run_chx fuel' rest s' (out ++ cs)
    | 3 :: rest => let '(cs, s') := get_extension_challenge poseidon_fp s in run_chx fuel' rest s' (out ++ cs)
    | 4 :: rest => let '(cs, s') := compact poseidon_fp s in run_chx fuel' rest s' (out ++ cs)
    | 5 :: x :: rest => run_chx fuel' rest (observe_element poseidon_fp s (toFp x)) out
    | _ => None
    end
  end.
Definition run_challenger_x (a : list Z) : option (list Z) :=
  option_map zs13 (run_chx (length a) a ch_new []).
