(* C07 - executable model of the plonky2 gates (plonky2/src/gates/*.rs), for extension degree D = 2.

   COVERED GATES (constraint evaluator gate_eval_unfiltered, declared sizes, generators gate_generate):
     ArithmeticGate, ArithmeticExtensionGate, MulExtensionGate, BaseSumGate<B>, ConstantGate,
     CosetInterpolationGate, ExponentiationGate, PoseidonGate, PoseidonMdsGate, PublicInputGate,
     RandomAccessGate, ReducingGate, ReducingExtensionGate, NoopGate, LookupGate, LookupTableGate
   (the last two declare zero gate constraints; their generators belong to C08 and are not modelled).
   All sixteen are tied to the implementation by the C07 correspondence run (harness/src/c07.rs):
   Gate::eval_unfiltered (extension field), eval_unfiltered_base_batch (base field / packed), the
   in-circuit evaluator, Gate::eval_filtered / compute_filter, and the gates' SimpleGenerators run on a
   PartitionWitness; 0 mismatches on the pinned tree.

   Exported names used by other slices:
     gate, gate_wf, gate_id, gate_num_wires, gate_num_constants, gate_degree, gate_num_constraints,
     gate_eval_wires, gate_written, gate_eval_unfiltered, compute_filter, eval_filtered,
     gate_writes / gate_generate / gate_gen_guard, coset_gate_new, two_adic_subgroup.
   Theorems: Proofs/Gates*.v, stated in Props/C07.v (count, gen_sat, gen_pinned, filter_exact,
   parametricity: base/extension agreement and the degree bound).

   Everything is written once over an abstract [FieldOps K] with an embedding of base-field
   constants [of_base : Z -> K] (class OfBase). K := Fp gives eval_unfiltered_base, K := Fp2
   (Model/Fp2.v, OfBase instance Fp2OfBase in Model/C07Run.v) gives eval_unfiltered as used by the verifier.
   gate_eval_unfiltered g consts wires pi_hash: [consts] are the gate's constants AFTER the selector
   prefix has been removed (eval_filtered does that), [wires] the full row (it may be longer than
   gate_num_wires g, as in the verifier), [pi_hash] the four hash elements already embedded in K.

   Extension-algebra gates: in eval_unfiltered a wire pair (w0, w1) of K-elements is the element
   w0 + w1*X of ExtensionAlgebra K[X]/(X^2 - W), W = EXT2_W = 7 (vars.get_local_ext_algebra,
   field/src/extension/algebra.rs). With K := Fp this is exactly F::Extension arithmetic, which is
   what eval_unfiltered_base_one (get_local_ext) and the generators use.

   Partiality. The Rust evaluators index slices and panic when a row is too short, and some gate
   parameters make the index arithmetic underflow (ExponentiationGate{0}, RandomAccessGate{bits=0} ..).
   [gate_wf] is the parameter guard and [gate_eval_wires]/[gate_num_constants] the size guard;
   the run wrappers (Model/C07Run.v) return None (= panic) when they fail. *)
From Coq Require Import ZArith List Lia Bool.
From Verif Require Import Base.Field Gen.FieldConsts Gen.PoseidonConsts Model.Fp Model.FieldGeneric.
Import ListNotations.
Local Open Scope nat_scope.

(* embedding of base-field constants (F::Extension::from_canonical_u64 etc.) *)
Class OfBase (K : Type) : Type := of_base : Z -> K.
(* to_canonical_u64 of a base-field element; only used by witness generators *)
Class ToCanon (K : Type) : Type := to_canon : K -> Z.

Inductive gate : Type :=
| ArithmeticGate (num_ops : nat)
| ArithmeticExtensionGate (num_ops : nat)
| MulExtensionGate (num_ops : nat)
| BaseSumGate (base num_limbs : nat)
| ConstantGate (num_consts : nat)
| CosetInterpolationGate (subgroup_bits degree : nat) (barycentric_weights : list Z)
| ExponentiationGate (num_power_bits : nat)
| PoseidonGate
| PoseidonMdsGate
| PublicInputGate
| RandomAccessGate (bits num_copies num_extra_constants : nat)
| ReducingGate (num_coeffs : nat)
| ReducingExtensionGate (num_coeffs : nat)
| NoopGate
| LookupGate (num_slots : nat)
| LookupTableGate (num_slots : nat).

(* gates/selectors.rs: UNUSED_SELECTOR = u32::MAX *)
Definition UNUSED_SELECTOR : Z := 4294967295.

(* Poseidon sizes as nat, from the regenerated constants *)
Definition SW : nat := Z.to_nat SPONGE_WIDTH.
Definition HALF_FULL : nat := Z.to_nat HALF_N_FULL_ROUNDS.
Definition N_PARTIAL : nat := Z.to_nat N_PARTIAL_ROUNDS.

(* PoseidonGate wire layout *)
Definition P_WIRE_SWAP : nat := 2 * SW.
Definition P_START_DELTA : nat := 2 * SW + 1.
Definition P_START_FULL_0 : nat := P_START_DELTA + 4.
Definition P_START_PARTIAL : nat := P_START_FULL_0 + SW * (HALF_FULL - 1).
Definition P_START_FULL_1 : nat := P_START_PARTIAL + N_PARTIAL.
Definition P_END : nat := P_START_FULL_1 + SW * HALF_FULL.

Definition pow2 (n : nat) : nat := Nat.pow 2 n.

(* Field::two_adic_subgroup(n_log) of the Goldilocks field, as canonical integers *)
Definition two_adic_subgroup (n_log : nat) : list Z :=
  let g := exp_power_of_2 (toFp POWER_OF_TWO_GENERATOR) (Z.to_nat TWO_ADICITY - n_log) in
  map fval (powers g (pow2 n_log)).

(* field::interpolation::barycentric_weights on the points of two_adic_subgroup *)
Definition barycentric_weights_subgroup (n_log : nat) : list Z :=
  let pts := map toFp (two_adic_subgroup n_log) in
  let n := length pts in
  let prods := map (fun i =>
                 fold_left (fun acc j => (acc * (nthF pts i - nthF pts j))%F)
                           (filter (fun j => negb (Nat.eqb j i)) (seq 0 n)) 1%F) (seq 0 n) in
  map fval (batch_multiplicative_inverse prods).

(* CosetInterpolationGate::with_max_degree / new *)
Definition coset_gate_with_max_degree (subgroup_bits max_degree : nat) : gate :=
  let n_points := pow2 subgroup_bits in
  let n_intermediates := (n_points - 2) / (max_degree - 1) in
  let degree := (n_points - 2) / (n_intermediates + 1) + 2 in
  CosetInterpolationGate subgroup_bits degree (barycentric_weights_subgroup subgroup_bits).
Definition coset_gate_new (subgroup_bits : nat) : gate :=
  coset_gate_with_max_degree subgroup_bits (pow2 subgroup_bits).

(* ---- declared sizes (Gate::num_wires / num_constants / degree / num_constraints) *)
Definition ra_vec_size (bits : nat) : nat := pow2 bits.
Definition ra_start_extra (bits num_copies : nat) : nat := (2 + ra_vec_size bits) * num_copies.
Definition ra_num_routed (bits num_copies num_extra : nat) : nat := ra_start_extra bits num_copies + num_extra.
Definition ra_wire_bit (bits num_copies num_extra i copy : nat) : nat :=
  ra_num_routed bits num_copies num_extra + copy * bits + i.

Definition ci_num_points (bits : nat) : nat := pow2 bits.
Definition ci_num_intermediates (bits degree : nat) : nat := (ci_num_points bits - 2) / (degree - 1).
Definition ci_start_intermediates (bits : nat) : nat := 1 + ci_num_points bits * 2 + 2 + 2.

(* parameter guard: values for which the Rust index arithmetic does not underflow / panic *)
Definition gate_wf (g : gate) : bool :=
  match g with
  | ExponentiationGate n => Nat.leb 1 n
  | RandomAccessGate bits copies _ => Nat.leb 1 bits && Nat.leb 1 copies
  | CosetInterpolationGate bits degree weights =>
      Nat.leb 1 bits && Nat.leb 2 degree && Nat.leb degree (pow2 bits)
      && Nat.eqb (length weights) (pow2 bits) && Nat.leb bits (Z.to_nat TWO_ADICITY)
  | _ => true
  end.

Definition gate_num_wires (g : gate) : nat :=
  match g with
  | ArithmeticGate n => n * 4
  | ArithmeticExtensionGate n => n * 4 * 2
  | MulExtensionGate n => n * 3 * 2
  | BaseSumGate _ n => 1 + n
  | ConstantGate n => n
  | CosetInterpolationGate bits degree _ =>
      ci_start_intermediates bits + 2 * (2 * ci_num_intermediates bits degree + 1)
  | ExponentiationGate n => 2 + n + (n - 1) + 1
  | PoseidonGate => P_END
  | PoseidonMdsGate => 2 * 2 * SW
  | PublicInputGate => 4
  | RandomAccessGate bits copies extra => ra_wire_bit bits copies extra (bits - 1) (copies - 1) + 1
  | ReducingGate n => 2 * 2 + n * (2 + 1)
  | ReducingExtensionGate n => 2 * 2 + 2 * 2 * n
  | NoopGate => 0
  | LookupGate n => n * 2
  | LookupTableGate n => n * 3
  end.

(* number of wires the evaluators actually index (a shorter row makes the real code panic):
   num_wires, except that the Reducing gates read alpha and old_acc even when num_coeffs = 0 and
   the gates without constraints read nothing *)
Definition gate_eval_wires (g : gate) : nat :=
  match g with
  | ReducingGate _ | ReducingExtensionGate _ => Nat.max (gate_num_wires g) 6
  | NoopGate | LookupGate _ | LookupTableGate _ => 0
  | _ => gate_num_wires g
  end.

Definition gate_num_constants (g : gate) : nat :=
  match g with
  | ArithmeticGate _ => 2
  | ArithmeticExtensionGate _ => 2
  | MulExtensionGate _ => 1
  | ConstantGate n => n
  | RandomAccessGate _ _ extra => extra
  | _ => 0
  end.

Definition gate_degree (g : gate) : nat :=
  match g with
  | ArithmeticGate _ => 3
  | ArithmeticExtensionGate _ => 3
  | MulExtensionGate _ => 3
  | BaseSumGate b _ => b
  | ConstantGate _ => 1
  | CosetInterpolationGate _ degree _ => degree
  | ExponentiationGate _ => 4
  | PoseidonGate => 7
  | PoseidonMdsGate => 1
  | PublicInputGate => 1
  | RandomAccessGate bits _ _ => bits + 1
  | ReducingGate _ => 2
  | ReducingExtensionGate _ => 2
  | NoopGate => 0
  | LookupGate _ => 0
  | LookupTableGate _ => 0
  end.

Definition gate_num_constraints (g : gate) : nat :=
  match g with
  | ArithmeticGate n => n
  | ArithmeticExtensionGate n => n * 2
  | MulExtensionGate n => n * 2
  | BaseSumGate _ n => 1 + n
  | ConstantGate n => n
  | CosetInterpolationGate bits degree _ => 2 + 2 + 2 * 2 * ci_num_intermediates bits degree
  | ExponentiationGate n => n + 1
  | PoseidonGate => SW * (2 * HALF_FULL - 1) + N_PARTIAL + SW + 1 + 4
  | PoseidonMdsGate => SW * 2
  | PublicInputGate => 4
  | RandomAccessGate bits copies extra => copies * (bits + 2) + extra
  | ReducingGate n => 2 * n
  | ReducingExtensionGate n => 2 * n
  | NoopGate => 0
  | LookupGate _ => 0
  | LookupTableGate _ => 0
  end.

(* a number instead of the id string: the constructor index *)
Definition gate_id (g : gate) : nat :=
  match g with
  | ArithmeticGate _ => 0 | ArithmeticExtensionGate _ => 1 | MulExtensionGate _ => 2
  | BaseSumGate _ _ => 3 | ConstantGate _ => 4 | CosetInterpolationGate _ _ _ => 5
  | ExponentiationGate _ => 6 | PoseidonGate => 7 | PoseidonMdsGate => 8 | PublicInputGate => 9
  | RandomAccessGate _ _ _ => 10 | ReducingGate _ => 11 | ReducingExtensionGate _ => 12
  | NoopGate => 13 | LookupGate _ => 14 | LookupTableGate _ => 15
  end.

(* wires written by the gate's own SimpleGenerators *)
Definition reducing_acc_start (n i : nat) : nat :=
  if Nat.eqb i (n - 1) then 0 else (3 * 2 + n) + 2 * i.
Definition reducing_ext_acc_start (n i : nat) : nat :=
  if Nat.eqb i (n - 1) then 0 else (3 * 2 + n * 2) + 2 * i.
Definition pair_idx (start : nat) : list nat := [start; S start].

Definition gate_written (g : gate) : list nat :=
  match g with
  | ArithmeticGate n => map (fun i => 4 * i + 3) (seq 0 n)
  | ArithmeticExtensionGate n => flat_map (fun i => pair_idx (8 * i + 6)) (seq 0 n)
  | MulExtensionGate n => flat_map (fun i => pair_idx (6 * i + 4)) (seq 0 n)
  | BaseSumGate _ n => seq 1 n
  | ConstantGate _ => []
  | CosetInterpolationGate bits degree _ =>
      let si := ci_start_intermediates bits in
      let ni := ci_num_intermediates bits degree in
      pair_idx (si + 4 * ni)
      ++ flat_map (fun i => pair_idx (si + 2 * i) ++ pair_idx (si + 2 * (ni + i))) (seq 0 ni)
      ++ pair_idx (1 + ci_num_points bits * 2 + 2)
  | ExponentiationGate n => seq (2 + n) n ++ [1 + n]
  | PoseidonGate =>
      seq P_START_DELTA 4 ++ seq P_START_FULL_0 (P_END - P_START_FULL_0) ++ seq SW SW
  | PoseidonMdsGate => seq (2 * SW) (2 * SW)
  | PublicInputGate => []
  | RandomAccessGate bits copies extra =>
      flat_map (fun copy => ((2 + ra_vec_size bits) * copy + 1)
                            :: map (fun i => ra_wire_bit bits copies extra i copy) (seq 0 bits))
               (seq 0 copies)
  | ReducingGate n => flat_map (fun i => pair_idx (reducing_acc_start n i)) (seq 0 n) ++ pair_idx 0
  | ReducingExtensionGate n => flat_map (fun i => pair_idx (reducing_ext_acc_start n i)) (seq 0 n)
  | NoopGate => []
  | LookupGate _ => []
  | LookupTableGate _ => []
  end.

Definition ci_chunk (bits degree i : nat) : nat * nat :=
  match i with
  | O => (0, degree)
  | S _ => let start := 1 + (degree - 1) * i in (start, Nat.min (start + degree - 1) (ci_num_points bits))
  end.


Section Gates.
  Context {K : Type} `{FO : FieldOps K} {OB : OfBase K}.
  Local Open Scope field_scope.

  Definition ofN (n : nat) : K := of_base (Z.of_nat n).
  Definition ofZs (l : list Z) (i : nat) : K := of_base (nth i l 0%Z).

  (* ---- ExtensionAlgebra<K, 2> = K[X]/(X^2 - W) *)
  Definition alg : Type := (K * K)%type.
  Definition alg_W : K := of_base EXT2_W.
  Definition alg_zero : alg := (0, 0).
  Definition alg_one : alg := (1, 0).
  Definition alg_of (x : K) : alg := (x, 0).
  Definition alg_add (a b : alg) : alg := (fst a + fst b, snd a + snd b).
  Definition alg_sub (a b : alg) : alg := (fst a - fst b, snd a - snd b).
  Definition alg_mul (a b : alg) : alg :=
    (fst a * fst b + alg_W * snd a * snd b, fst a * snd b + snd a * fst b).
  Definition alg_smul (a : alg) (s : K) : alg := (fst a * s, snd a * s).
  (* vars.get_local_ext_algebra(start..start+2) *)
  Definition alg_at (ws : list K) (start : nat) : alg := (nthF ws start, nthF ws (S start)).
  (* to_basefield_array *)
  Definition alg_coords (a : alg) : list K := [fst a; snd a].

  (* ---- ArithmeticGate *)
  Definition arith_output (c0 c1 : K) (ws : list K) (i : nat) : K :=
    nthF ws (4 * i) * nthF ws (4 * i + 1) * c0 + nthF ws (4 * i + 2) * c1.
  Definition eval_arithmetic (n : nat) (cs ws : list K) : list K :=
    map (fun i => nthF ws (4 * i + 3) - arith_output (nthF cs 0) (nthF cs 1) ws i) (seq 0 n).

  (* ---- ArithmeticExtensionGate *)
  Definition arith_ext_output (c0 c1 : K) (ws : list K) (i : nat) : alg :=
    alg_add (alg_smul (alg_mul (alg_at ws (8 * i)) (alg_at ws (8 * i + 2))) c0)
            (alg_smul (alg_at ws (8 * i + 4)) c1).
  Definition eval_arithmetic_ext (n : nat) (cs ws : list K) : list K :=
    flat_map (fun i => alg_coords (alg_sub (alg_at ws (8 * i + 6))
                                           (arith_ext_output (nthF cs 0) (nthF cs 1) ws i))) (seq 0 n).

  (* ---- MulExtensionGate *)
  Definition mul_ext_output (c0 : K) (ws : list K) (i : nat) : alg :=
    alg_smul (alg_mul (alg_at ws (6 * i)) (alg_at ws (6 * i + 2))) c0.
  Definition eval_mul_ext (n : nat) (cs ws : list K) : list K :=
    flat_map (fun i => alg_coords (alg_sub (alg_at ws (6 * i + 4)) (mul_ext_output (nthF cs 0) ws i)))
             (seq 0 n).

  (* ---- BaseSumGate<B>: plonk_common::reduce_with_powers, then the range products *)
  Definition reduce_with_powers (terms : list K) (alpha : K) : K :=
    fold_right (fun t acc => acc * alpha + t) 0 terms.
  Definition range_product (B : nat) (limb : K) : K :=
    fold_left (fun acc i => acc * (limb - ofN i)) (seq 0 B) 1.
  Definition eval_base_sum (B n : nat) (ws : list K) : list K :=
    let limbs := map (nthF ws) (seq 1 n) in
    (reduce_with_powers limbs (ofN B) - nthF ws 0) :: map (range_product B) limbs.

  (* ---- ConstantGate, PublicInputGate *)
  Definition eval_constant (n : nat) (cs ws : list K) : list K :=
    map (fun i => nthF cs i - nthF ws i) (seq 0 n).
  Definition eval_public_input (ws pi : list K) : list K :=
    map (fun i => nthF ws i - nthF pi i) (seq 0 4).

  (* ---- ExponentiationGate *)
  Definition exp_prev (n : nat) (ws : list K) (i : nat) : K :=
    match i with O => 1 | S j => fsquare (nthF ws (2 + n + j)) end.
  Definition exp_computed (n : nat) (ws : list K) (i : nat) : K :=
    let cur_bit := nthF ws (1 + (n - i - 1)) in
    exp_prev n ws i * (cur_bit * nthF ws 0 + (1 - cur_bit)).
  Definition eval_exponentiation (n : nat) (ws : list K) : list K :=
    map (fun i => exp_computed n ws i - nthF ws (2 + n + i)) (seq 0 n)
    ++ [nthF ws (1 + n) - nthF ws (2 + n + (n - 1))].

  (* ---- RandomAccessGate *)
  Fixpoint fold_pairs (b : K) (l : list K) : list K :=
    match l with
    | x :: y :: rest => (x + b * (y - x)) :: fold_pairs b rest
    | _ => []
    end.
  Definition ra_select (bits_l items : list K) : K :=
    nthF (fold_left (fun l b => fold_pairs b l) bits_l items) 0.
  Definition ra_reconstruct (bits_l : list K) : K :=
    fold_right (fun b acc => (acc + acc) + b) 0 bits_l.
  Definition ra_bits (bits copies extra : nat) (ws : list K) (copy : nat) : list K :=
    map (fun i => nthF ws (ra_wire_bit bits copies extra i copy)) (seq 0 bits).
  Definition ra_items (bits : nat) (ws : list K) (copy : nat) : list K :=
    map (fun i => nthF ws ((2 + ra_vec_size bits) * copy + 2 + i)) (seq 0 (ra_vec_size bits)).
  Definition ra_copy_constraints (bits copies extra : nat) (ws : list K) (copy : nat) : list K :=
    let access_index := nthF ws ((2 + ra_vec_size bits) * copy) in
    let claimed := nthF ws ((2 + ra_vec_size bits) * copy + 1) in
    let bl := ra_bits bits copies extra ws copy in
    map (fun b => b * (b - 1)) bl
    ++ [ra_reconstruct bl - access_index]
    ++ [ra_select bl (ra_items bits ws copy) - claimed].
  Definition eval_random_access (bits copies extra : nat) (cs ws : list K) : list K :=
    flat_map (ra_copy_constraints bits copies extra ws) (seq 0 copies)
    ++ map (fun i => nthF cs i - nthF ws (ra_start_extra bits copies + i)) (seq 0 extra).

  (* ---- ReducingGate / ReducingExtensionGate: acc_i = acc_{i-1} * alpha + coeff_i *)
  Definition reducing_prev (acc_start : nat -> nat) (ws : list K) (i : nat) : alg :=
    match i with O => alg_at ws 4 | S j => alg_at ws (acc_start j) end.
  Definition eval_reducing (n : nat) (ws : list K) : list K :=
    flat_map (fun i =>
      alg_coords (alg_sub (alg_add (alg_mul (reducing_prev (reducing_acc_start n) ws i) (alg_at ws 2))
                                   (alg_of (nthF ws (6 + i))))
                          (alg_at ws (reducing_acc_start n i)))) (seq 0 n).
  Definition eval_reducing_ext (n : nat) (ws : list K) : list K :=
    flat_map (fun i =>
      alg_coords (alg_sub (alg_add (alg_mul (reducing_prev (reducing_ext_acc_start n) ws i) (alg_at ws 2))
                                   (alg_at ws (6 + 2 * i)))
                          (alg_at ws (reducing_ext_acc_start n i)))) (seq 0 n).

  (* ---- Poseidon layers over K (hash/poseidon.rs, *_field variants) *)
  Definition pg_mds_row_shf (r : nat) (v : list K) : K :=
    fold_left (fun res i => res + nthF v ((i + r) mod SW) * ofZs MDS_MATRIX_CIRC i) (seq 0 SW) 0
    + nthF v r * ofZs MDS_MATRIX_DIAG r.
  Definition pg_mds_layer (st : list K) : list K := map (fun r => pg_mds_row_shf r st) (seq 0 SW).
  Definition pg_constant_layer (st : list K) (round_ctr : nat) : list K :=
    map (fun i => nthF st i + ofZs ALL_ROUND_CONSTANTS (i + SW * round_ctr)) (seq 0 SW).
  Definition pg_sbox_monomial (x : K) : K :=
    let x2 := x * x in let x4 := x2 * x2 in let x3 := x * x2 in x3 * x4.
  Definition pg_sbox_layer (st : list K) : list K := map pg_sbox_monomial st.
  Definition pg_partial_first_constant_layer (st : list K) : list K :=
    map (fun i => nthF st i + ofZs FAST_PARTIAL_FIRST_ROUND_CONSTANT i) (seq 0 SW).
  Definition pg_mds_partial_layer_init (st : list K) : list K :=
    nthF st 0 ::
    map (fun c => fold_left (fun acc r =>
                    acc + nthF st r * ofZs (nth (r - 1) FAST_PARTIAL_ROUND_INITIAL_MATRIX []) (c - 1))
                  (seq 1 (SW - 1)) 0) (seq 1 (SW - 1)).
  Definition pg_mds_partial_layer_fast (st : list K) (r : nat) : list K :=
    let s0 := nthF st 0 in
    let mds0to0 := (nth 0 MDS_MATRIX_CIRC 0 + nth 0 MDS_MATRIX_DIAG 0)%Z in
    let d := fold_left (fun d i => d + nthF st i * ofZs (nth r FAST_PARTIAL_ROUND_W_HATS []) (i - 1))
                       (seq 1 (SW - 1)) (s0 * of_base mds0to0) in
    d :: map (fun i => s0 * ofZs (nth r FAST_PARTIAL_ROUND_VS []) (i - 1) + nthF st i) (seq 1 (SW - 1)).

  (* ---- PoseidonGate.
     One "check and substitute" step: constraints state[i] - wire(start+i) for i < len, and the state
     continues with those wires in place of its first len entries. *)
  Definition check_subst (st ws : list K) (start len : nat) : list K * list K :=
    let sb := map (nthF ws) (seq start len) in
    (map (fun p => fst p - snd p) (combine (firstn len st) sb), sb ++ skipn len st).

  Definition poseidon_full_round (ws : list K) (wire_start : option nat) (round_ctr : nat)
             (acc : list K * list K) : list K * list K :=
    let '(st, cs) := acc in
    let st1 := pg_constant_layer st round_ctr in
    let '(c, st2) := match wire_start with
                     | None => ([], st1)
                     | Some s => check_subst st1 ws s SW
                     end in
    (pg_mds_layer (pg_sbox_layer st2), cs ++ c).

  Definition poseidon_partial_round (ws : list K) (acc : list K * list K) (r : nat) : list K * list K :=
    let '(st, cs) := acc in
    let '(c, st1) := check_subst st ws (P_START_PARTIAL + r) 1 in
    let s0 := pg_sbox_monomial (nthF st1 0) in
    let s0 := if Nat.ltb r (N_PARTIAL - 1) then s0 + ofZs FAST_PARTIAL_ROUND_CONSTANTS r else s0 in
    (pg_mds_partial_layer_fast (s0 :: tl st1) r, cs ++ c).

  Definition poseidon_input_state (ws : list K) : list K :=
    map (fun i => nthF ws i + nthF ws (P_START_DELTA + i)) (seq 0 4)
    ++ map (fun i => nthF ws (i + 4) - nthF ws (P_START_DELTA + i)) (seq 0 4)
    ++ map (nthF ws) (seq 8 (SW - 8)).

  Definition poseidon_cs0 (ws : list K) : list K :=
    let swap := nthF ws P_WIRE_SWAP in
    (swap * (swap - 1))
    :: map (fun i => swap * (nthF ws (i + 4) - nthF ws i) - nthF ws (P_START_DELTA + i)) (seq 0 4).
  Definition poseidon_first_full_step (ws : list K) (acc : list K * list K) (r : nat) : list K * list K :=
    poseidon_full_round ws (match r with O => None | S j => Some (P_START_FULL_0 + SW * j)%nat end) r acc.
  Definition poseidon_second_full_step (ws : list K) (acc : list K * list K) (r : nat) : list K * list K :=
    poseidon_full_round ws (Some (P_START_FULL_1 + SW * r)%nat) (HALF_FULL + N_PARTIAL + r) acc.
  Definition poseidon_partial_init (acc : list K * list K) : list K * list K :=
    (pg_mds_partial_layer_init (pg_partial_first_constant_layer (fst acc)), snd acc).
  Definition poseidon_output_constraints (ws : list K) (acc : list K * list K) : list K :=
    snd acc ++ map (fun i => nthF (fst acc) i - nthF ws (SW + i)) (seq 0 SW).

  Definition poseidon_eval_acc (ws : list K) : list K * list K :=
    let acc := fold_left (poseidon_first_full_step ws) (seq 0 HALF_FULL) (poseidon_input_state ws, poseidon_cs0 ws) in
    let acc := poseidon_partial_init acc in
    let acc := fold_left (poseidon_partial_round ws) (seq 0 N_PARTIAL) acc in
    fold_left (poseidon_second_full_step ws) (seq 0 HALF_FULL) acc.
  Definition eval_poseidon (ws : list K) : list K :=
    poseidon_output_constraints ws (poseidon_eval_acc ws).

  (* ---- PoseidonMdsGate: the MDS layer on extension-algebra elements *)
  Definition pg_mds_row_shf_alg (r : nat) (v : list alg) : alg :=
    let res := fold_left (fun res i =>
                 alg_add res (alg_smul (nth ((i + r) mod SW) v alg_zero) (ofZs MDS_MATRIX_CIRC i)))
               (seq 0 SW) alg_zero in
    alg_add res (alg_smul (nth r v alg_zero) (ofZs MDS_MATRIX_DIAG r)).
  Definition eval_poseidon_mds (ws : list K) : list K :=
    let inputs := map (fun i => alg_at ws (2 * i)) (seq 0 SW) in
    flat_map (fun i => alg_coords (alg_sub (alg_at ws (2 * (SW + i))) (pg_mds_row_shf_alg i inputs))) (seq 0 SW).

  (* ---- CosetInterpolationGate *)
  Definition lslice {A} (l : list A) (start stop : nat) : list A := firstn (stop - start) (skipn start l).

  (* partial_interpolate_ext_algebra: fold over (value, weight, domain point) *)
  Fixpoint partial_interpolate (domain : list Z) (values : list alg) (weights : list Z) (x : alg)
           (ev pr : alg) : alg * alg :=
    match domain, values, weights with
    | x_i :: domain', v :: values', w :: weights' =>
      let term := alg_sub x (alg_of (of_base x_i)) in
      let val := alg_smul v (of_base w) in
      partial_interpolate domain' values' weights' x
        (alg_add (alg_mul ev term) (alg_mul val pr)) (alg_mul pr term)
    | _, _, _ => (ev, pr)
    end.

  Definition ci_values (bits : nat) (ws : list K) : list alg :=
    map (fun i => alg_at ws (1 + 2 * i)) (seq 0 (ci_num_points bits)).

  (* the (eval, prod) pair the evaluator has computed when it reaches check number i, given the
     accumulators it continues from *)
  Definition ci_computed (bits degree : nat) (weights : list Z) (values : list alg) (sep : alg)
             (init : alg * alg) (i : nat) : alg * alg :=
    let '(a, b) := ci_chunk bits degree i in
    partial_interpolate (lslice (two_adic_subgroup bits) a b) (lslice values a b) (lslice weights a b)
                        sep (fst init) (snd init).

  Definition ci_init (bits degree : nat) (ws : list K) (i : nat) : alg * alg :=
    let si := ci_start_intermediates bits in
    let ni := ci_num_intermediates bits degree in
    match i with
    | O => (alg_zero, alg_one)
    | S j => (alg_at ws (si + 2 * j), alg_at ws (si + 2 * (ni + j)))
    end.

  Definition eval_coset_interpolation (bits degree : nat) (weights : list Z) (ws : list K) : list K :=
    let n := ci_num_points bits in
    let si := ci_start_intermediates bits in
    let ni := ci_num_intermediates bits degree in
    let shift := nthF ws 0 in
    let ep := alg_at ws (1 + n * 2) in
    let sep := alg_at ws (si + 4 * ni) in
    let values := ci_values bits ws in
    let computed i := ci_computed bits degree weights values sep (ci_init bits degree ws i) i in
    alg_coords (alg_sub ep (alg_smul sep shift))
    ++ flat_map (fun i =>
         alg_coords (alg_sub (alg_at ws (si + 2 * i)) (fst (computed i)))
         ++ alg_coords (alg_sub (alg_at ws (si + 2 * (ni + i))) (snd (computed i)))) (seq 0 ni)
    ++ alg_coords (alg_sub (alg_at ws (1 + n * 2 + 2)) (fst (computed ni))).

  (* ---- Gate::eval_unfiltered *)
  Definition gate_eval_unfiltered (g : gate) (consts wires : list K) (pi_hash : list K) : list K :=
    match g with
    | ArithmeticGate n => eval_arithmetic n consts wires
    | ArithmeticExtensionGate n => eval_arithmetic_ext n consts wires
    | MulExtensionGate n => eval_mul_ext n consts wires
    | BaseSumGate b n => eval_base_sum b n wires
    | ConstantGate n => eval_constant n consts wires
    | CosetInterpolationGate bits degree weights => eval_coset_interpolation bits degree weights wires
    | ExponentiationGate n => eval_exponentiation n wires
    | PoseidonGate => eval_poseidon wires
    | PoseidonMdsGate => eval_poseidon_mds wires
    | PublicInputGate => eval_public_input wires pi_hash
    | RandomAccessGate bits copies extra => eval_random_access bits copies extra consts wires
    | ReducingGate n => eval_reducing n wires
    | ReducingExtensionGate n => eval_reducing_ext n wires
    | NoopGate => []
    | LookupGate _ => []
    | LookupTableGate _ => []
    end.

  (* ---- gate.rs: compute_filter and Gate::eval_filtered.
     group_range = lo..hi; the product runs over the other indices of the group and, when there are
     several selector polynomials, over UNUSED_SELECTOR. *)
  Definition filter_indices (row lo hi : nat) (many_selector : bool) : list Z :=
    map Z.of_nat (filter (fun i => negb (Nat.eqb i row)) (seq lo (hi - lo)))
    ++ (if many_selector then [UNUSED_SELECTOR] else []).
  Definition compute_filter (row lo hi : nat) (s : K) (many_selector : bool) : K :=
    fold_left (fun acc i => acc * (of_base i - s)) (filter_indices row lo hi many_selector) 1.

  Definition eval_filtered (g : gate) (consts wires pi_hash : list K)
             (row selector_index lo hi num_selectors num_lookup_selectors : nat) : list K :=
    let f := compute_filter row lo hi (nthF consts selector_index) (Nat.ltb 1 num_selectors) in
    map (fun c => f * c)
        (gate_eval_unfiltered g (skipn num_lookup_selectors (skipn num_selectors consts)) wires pi_hash).

  (* ================= witness generators (SimpleGenerator::run_once of each gate) ============ *)
  Context {TC : ToCanon K}.

  (* out_buffer.set_target on the row: sequential writes *)
  Fixpoint row_write (row : list K) (ws : list (nat * K)) : list K :=
    match ws with
    | [] => row
    | (i, v) :: t => row_write (upd row i v) t
    end.
  Definition alg_writes (start : nat) (a : alg) : list (nat * K) := [(start, fst a); (S start, snd a)].

  (* BaseSplitGenerator: limbs of sum_value in base B, little endian *)
  Fixpoint base_limbs (B : Z) (n : nat) (acc : Z) : list Z :=
    match n with O => [] | S n' => (acc mod B)%Z :: base_limbs B n' (acc / B)%Z end.

  (* ExponentiationGenerator: the intermediate values *)
  Fixpoint exp_gen_loop (base : K) (bits_be : list K) (cur : K) : list K :=
    match bits_be with
    | [] => []
    | b :: rest =>
      let cur := if (b =? 1) then cur * base else cur in
      cur :: exp_gen_loop base rest (cur * cur)
    end.

  (* ReducingGenerator: the accumulators *)
  Fixpoint reducing_gen_loop (alpha : alg) (coeffs : list alg) (acc : alg) : list alg :=
    match coeffs with
    | [] => []
    | c :: rest =>
      let acc := alg_add (alg_mul acc alpha) c in
      acc :: reducing_gen_loop alpha rest acc
    end.

  (* PoseidonGenerator *)
  Definition poseidon_gen_full_round (wire_start : option nat) (round_ctr : nat)
             (acc : list K * list (nat * K)) : list K * list (nat * K) :=
    let '(st, wr) := acc in
    let st1 := pg_constant_layer st round_ctr in
    let w := match wire_start with
             | None => []
             | Some s => combine (seq s SW) st1
             end in
    (pg_mds_layer (pg_sbox_layer st1), wr ++ w).
  Definition poseidon_gen_partial_round (acc : list K * list (nat * K)) (r : nat) : list K * list (nat * K) :=
    let '(st, wr) := acc in
    let s0 := pg_sbox_monomial (nthF st 0) in
    let s0 := if Nat.ltb r (N_PARTIAL - 1) then s0 + ofZs FAST_PARTIAL_ROUND_CONSTANTS r else s0 in
    (pg_mds_partial_layer_fast (s0 :: tl st) r, wr ++ [((P_START_PARTIAL + r)%nat, nthF st 0)]).

  Definition poseidon_gen_first_full_step (acc : list K * list (nat * K)) (r : nat) :=
    poseidon_gen_full_round (match r with O => None | S j => Some (P_START_FULL_0 + SW * j)%nat end) r acc.
  Definition poseidon_gen_second_full_step (acc : list K * list (nat * K)) (r : nat) :=
    poseidon_gen_full_round (Some (P_START_FULL_1 + SW * r)%nat) (HALF_FULL + N_PARTIAL + r) acc.
  Definition poseidon_gen_partial_init (acc : list K * list (nat * K)) : list K * list (nat * K) :=
    (pg_mds_partial_layer_init (pg_partial_first_constant_layer (fst acc)), snd acc).
  Definition poseidon_gen_start (row : list K) : list K * list (nat * K) :=
    let state := map (nthF row) (seq 0 SW) in
    let swap := nthF row P_WIRE_SWAP in
    let deltas := map (fun i => ((P_START_DELTA + i)%nat, swap * (nthF state (i + 4) - nthF state i))) (seq 0 4) in
    (if (swap =? 1) then firstn 4 (skipn 4 state) ++ firstn 4 state ++ skipn 8 state else state, deltas).

  Definition poseidon_gen_acc (row : list K) : list K * list (nat * K) :=
    let acc := fold_left poseidon_gen_first_full_step (seq 0 HALF_FULL) (poseidon_gen_start row) in
    let acc := poseidon_gen_partial_init acc in
    let acc := fold_left poseidon_gen_partial_round (seq 0 N_PARTIAL) acc in
    fold_left poseidon_gen_second_full_step (seq 0 HALF_FULL) acc.
  Definition poseidon_writes (row : list K) : list (nat * K) :=
    snd (poseidon_gen_acc row) ++ combine (seq SW SW) (fst (poseidon_gen_acc row)).

  (* InterpolationGenerator: the chain of (eval, prod) accumulators *)
  Fixpoint ci_gen_loop (bits degree : nat) (weights : list Z) (values : list alg) (sep : alg)
           (si ni : nat) (todo : nat) (i : nat) (cur : alg * alg) : list (nat * K) * alg :=
    match todo with
    | O => ([], fst cur)
    | S todo' =>
      let nxt := ci_computed bits degree weights values sep cur (S i) in
      let '(w, final) := ci_gen_loop bits degree weights values sep si ni todo' (S i) nxt in
      (alg_writes (si + 2 * i) (fst cur) ++ alg_writes (si + 2 * (ni + i)) (snd cur) ++ w, final)
    end.

  (* the debug_assert!s and input conventions under which a generated row is meaningful *)
  Definition gate_gen_guard (g : gate) (row : list K) : bool :=
    match g with
    | BaseSumGate B n =>
        Z.eqb (fold_left (fun acc _ => (acc / Z.of_nat B)%Z) (seq 0 n) (to_canon (nthF row 0))) 0
    | PoseidonGate => let s := nthF row P_WIRE_SWAP in (s =? 0) || (s =? 1)
    | _ => true
    end.

  (* the (wire, value) pairs the generators row_write, in the order they are written;
     None = the generator panics (or, for RandomAccess with an out-of-range index, reads a foreign
     wire in release builds - not modelled) *)
  Definition gate_writes (g : gate) (consts row : list K) : option (list (nat * K)) :=
    match g with
    | ArithmeticGate n =>
        Some (map (fun i => ((4 * i + 3)%nat, arith_output (nthF consts 0) (nthF consts 1) row i)) (seq 0 n))
    | ArithmeticExtensionGate n =>
        Some (flat_map (fun i => alg_writes (8 * i + 6) (arith_ext_output (nthF consts 0) (nthF consts 1) row i))
                       (seq 0 n))
    | MulExtensionGate n =>
        Some (flat_map (fun i => alg_writes (6 * i + 4) (mul_ext_output (nthF consts 0) row i)) (seq 0 n))
    | BaseSumGate B n =>
        if Nat.eqb B 0 && negb (Nat.eqb n 0) then None   (* division by zero *)
        else Some (combine (seq 1 n) (map of_base (base_limbs (Z.of_nat B) n (to_canon (nthF row 0)))))
    | ExponentiationGate n =>
        let bits_be := map (fun i => nthF row (1 + (n - i - 1))) (seq 0 n) in
        let ivs := exp_gen_loop (nthF row 0) bits_be 1 in
        Some (combine (seq (2 + n) n) ivs ++ [((1 + n)%nat, nthF ivs (n - 1))])
    | RandomAccessGate bits copies extra =>
        let vs := ra_vec_size bits in
        fold_right (fun copy acc =>
          match acc with
          | None => None
          | Some l =>
            let access_index := to_canon (nthF row ((2 + vs) * copy)) in
            if Z.ltb access_index (Z.of_nat vs) then
              Some ((((2 + vs) * copy + 1)%nat, nthF row ((2 + vs) * copy + 2 + Z.to_nat access_index))
                    :: map (fun i => (ra_wire_bit bits copies extra i copy,
                                      if Z.odd (Z.shiftr access_index (Z.of_nat i)) then 1 else 0)) (seq 0 bits)
                    ++ l)
            else None
          end) (Some []) (seq 0 copies)
    | ReducingGate n =>
        let accs := reducing_gen_loop (alg_at row 2) (map (fun i => alg_of (nthF row (6 + i))) (seq 0 n)) (alg_at row 4) in
        Some (flat_map (fun i => alg_writes (reducing_acc_start n i) (nth i accs alg_zero)) (seq 0 n)
              ++ alg_writes 0 (last accs (alg_at row 4)))
    | ReducingExtensionGate n =>
        let accs := reducing_gen_loop (alg_at row 2) (map (fun i => alg_at row (6 + 2 * i)) (seq 0 n)) (alg_at row 4) in
        Some (flat_map (fun i => alg_writes (reducing_ext_acc_start n i) (nth i accs alg_zero)) (seq 0 n))
    | PoseidonGate => Some (poseidon_writes row)
    | PoseidonMdsGate =>
        let inputs := map (fun i => alg_at row (2 * i)) (seq 0 SW) in
        Some (flat_map (fun i => alg_writes (2 * (SW + i)) (pg_mds_row_shf_alg i inputs)) (seq 0 SW))
    | CosetInterpolationGate bits degree weights =>
        let n := ci_num_points bits in
        let si := ci_start_intermediates bits in
        let ni := ci_num_intermediates bits degree in
        let shift := nthF row 0 in
        if (shift =? 0) then None   (* shift.inverse() panics *)
        else
          let sep := alg_smul (alg_at row (1 + n * 2)) (finv shift) in
          let values := ci_values bits row in
          let first := ci_computed bits degree weights values sep (alg_zero, alg_one) 0 in
          let '(w, final) := ci_gen_loop bits degree weights values sep si ni ni 0 first in
          Some (alg_writes (si + 4 * ni) sep ++ w ++ alg_writes (1 + n * 2 + 2) final)
    | ConstantGate _ | PublicInputGate | NoopGate | LookupGate _ | LookupTableGate _ => Some []
    end.

  Definition gate_generate (g : gate) (consts row : list K) : option (list K) :=
    option_map (row_write row) (gate_writes g consts row).
End Gates.

Global Instance FpOfBase : OfBase Fp := toFp.
Global Instance FpToCanon : ToCanon Fp := fval.
