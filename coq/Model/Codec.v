(* C17 - byte-level codecs of plonky2/src/util/serialization/mod.rs (traits Write / Read, struct
   Buffer), executable model.

   Bytes are `Z` in 0..255, a byte string is `list Z`. A reader has the type `R A` of
   Base/Reader.v (`list Z -> option (A * list Z)`): it consumes a prefix and returns the rest;
   `None` = `Err(IoError)` (or a panic, where noted).  `Buffer::read_exact` fails on short input
   and consumes nothing else.

   Writers: `impl Write for Vec<u8>` never fails, so the plain writers are total functions to
   `list Z`.  The one partial writer is `write_merkle_proof`
       self.write_u8(length.try_into().expect("Merkle proof length must fit in u8."))
   which PANICS for more than 255 siblings: it and every writer above it return `W = option
   (list Z)` (`None` = panic).

   Integers: u8 / u32 little endian; `write_usize` writes `(x as u64).to_le_bytes()` - 8 bytes,
   independent of the platform's usize; `read_usize` reads 8 bytes `as usize` (64-bit target).
   bool: one byte, the reader accepts only 0 and 1.

   Field elements: a Goldilocks element is modelled by its u64 REPRESENTATION (the struct field
   `GoldilocksField.0`, any value below 2^64; the element is the residue mod ORDER).
     write_field: `x.to_canonical_u64().to_le_bytes()`        -> le_bytes 8 (x mod ORDER)
     read_field:  `F::from_noncanonical_u64(u64::from_le_bytes(buf))`   NO range check: the
       non-canonical representation is constructed as is (until /repo 5fc4134 the call was
       from_canonical_u64, whose debug assertion panicked in debug builds: C18, fixed).
   Hence the round trip returns the input for canonical representations and the canonical
   representative otherwise, and two different byte strings can decode to equal field elements
   (Proofs/Codec.v: read_field_noncanonical_accepted).

   Lengths that are not written (caps, opening vectors, FRI shapes, the number of query rounds)
   are parameters of the readers (record `Shape`, filled from CommonCircuitData by the caller),
   exactly as in the Rust readers. *)
From Coq Require Import ZArith List Bool.
From Verif Require Import Base.Reader Gen.FieldConsts.
Import ListNotations.
Open Scope Z_scope.

(* ------------------------------------------------------------------ Buffer *)
(* Buffer::read_exact for a destination of n bytes *)
Fixpoint read_exact (n : nat) (s : list Z) : option (list Z * list Z) :=
  match n with
  | O => Some ([], s)
  | S n' => match s with
            | [] => None
            | b :: t => match read_exact n' t with
                        | Some (l, r) => Some (b :: l, r)
                        | None => None
                        end
            end
  end.

(* x.to_le_bytes() for an n-byte unsigned integer / from_le_bytes *)
Fixpoint le_bytes (n : nat) (x : Z) : list Z :=
  match n with
  | O => []
  | S n' => (x mod 256) :: le_bytes n' (x / 256)
  end.
Fixpoint le_val (l : list Z) : Z :=
  match l with
  | [] => 0
  | b :: t => b + 256 * le_val t
  end.

Definition is_byte (b : Z) : bool := (0 <=? b) && (b <? 256).

(* ------------------------------------------------------------------ writer monad (panics) *)
Definition W : Type := option (list Z).
Definition wapp (a b : W) : W :=
  match a, b with
  | Some x, Some y => Some (x ++ y)
  | _, _ => None
  end.
Fixpoint wconcat {A} (w : A -> W) (l : list A) : W :=
  match l with
  | [] => Some []
  | x :: t => wapp (w x) (wconcat w t)
  end.

(* ------------------------------------------------------------------ integers, bool *)
Definition write_u8 (x : Z) : list Z := le_bytes 1 x.
Definition read_u8 : R Z := rdo l <- read_exact 1 ;; rret (le_val l).
Definition write_u16 (x : Z) : list Z := le_bytes 2 x.
Definition read_u16 : R Z := rdo l <- read_exact 2 ;; rret (le_val l).
Definition write_u32 (x : Z) : list Z := le_bytes 4 x.
Definition read_u32 : R Z := rdo l <- read_exact 4 ;; rret (le_val l).
Definition write_usize (x : Z) : list Z := le_bytes 8 x.
Definition read_usize : R Z := rdo l <- read_exact 8 ;; rret (le_val l).

Definition write_bool (b : bool) : list Z := write_u8 (if b then 1 else 0).
Definition read_bool : R bool :=
  rdo i <- read_u8 ;;
  if i =? 0 then rret false else if i =? 1 then rret true else rfail.

(* `n` more items of `k` bytes each cannot be present: the real loop ends in Err (or, for
   `Vec::with_capacity(len)` with an absurd len, in a capacity-overflow panic / allocation failure) *)
Definition read_counted {A} (n k : Z) (r : R A) : R (list A) :=
  fun s => if Z.of_nat (length s) <? n * k then None else rd_n (Z.to_nat n) r s.
(* (the count is converted to a unary number only after the check: the extracted model is strict) *)

(* write_usize_vec / read_usize_vec: usize length prefix *)
Definition write_usize_vec (v : list Z) : list Z :=
  write_usize (Z.of_nat (length v)) ++ concat (map write_usize v).
Definition read_usize_vec : R (list Z) :=
  rdo len <- read_usize ;; read_counted len 8 read_usize.

(* ------------------------------------------------------------------ field, extension, hash *)
Definition canon (x : Z) : Z := x mod ORDER.          (* to_canonical_u64 *)
Definition write_field (x : Z) : list Z := le_bytes 8 (canon x).
Definition read_field : R Z := rdo l <- read_exact 8 ;; rret (le_val l).

Definition write_field_vec (v : list Z) : list Z := concat (map write_field v).
Definition read_field_vec (n : nat) : R (list Z) := rd_n n read_field.

(* quadratic extension, D = 2: to_basefield_array / from_basefield_array *)
Definition Ext : Type := (Z * Z)%type.
Definition write_ext (x : Ext) : list Z := write_field (fst x) ++ write_field (snd x).
Definition read_ext : R Ext := rdo a <- read_field ;; rdo b <- read_field ;; rret (a, b).
Definition write_ext_vec (v : list Ext) : list Z := concat (map write_ext v).
Definition read_ext_vec (n : nat) : R (list Ext) := rd_n n read_ext.

(* HashOut<F> (Poseidon): 4 field elements = 32 bytes.  read_hash reads HASH_SIZE bytes, then
   HashOut::from_bytes: bytes.chunks(8).take(4).map(from_canonical_u64(from_le_bytes)) *)
Definition HashOut : Type := list Z.                    (* well formed: length 4 *)
Fixpoint chunks (k fuel : nat) (l : list Z) : list (list Z) :=
  match fuel with
  | O => []
  | S f => firstn k l :: chunks k f (skipn k l)
  end.
Definition hash_from_bytes (buf : list Z) : HashOut := map le_val (chunks 8 4 buf).
Definition write_hash (h : HashOut) : list Z := concat (map write_field h).
Definition read_hash : R HashOut := rdo buf <- read_exact 32 ;; rret (hash_from_bytes buf).

(* MerkleCap: no length is written; the reader takes `1 << cap_height` hashes *)
Definition MerkleCap : Type := list HashOut.
Definition write_merkle_cap (c : MerkleCap) : list Z := concat (map write_hash c).
Definition read_merkle_cap (cap_height : nat) : R MerkleCap := rd_n (2 ^ cap_height)%nat read_hash.

(* MerkleProof: u8 length prefix; the writer panics above 255 siblings *)
Definition MerkleProof : Type := list HashOut.
Definition write_merkle_proof (p : MerkleProof) : W :=
  if (length p <=? 255)%nat
  then Some (write_u8 (Z.of_nat (length p)) ++ concat (map write_hash p))
  else None.
Definition read_merkle_proof : R MerkleProof :=
  rdo len <- read_u8 ;; rd_n (Z.to_nat len) read_hash.

(* ------------------------------------------------------------------ FRI configuration *)
Inductive FriStrategy : Type :=
| Fixed (arities : list Z)
| ConstantArityBits (arity_bits final_poly_bits : Z)
| MinSize (max : option Z).

Definition write_fri_reduction_strategy (s : FriStrategy) : list Z :=
  match s with
  | Fixed seq => write_u8 0 ++ write_usize_vec seq
  | ConstantArityBits a f => write_u8 1 ++ write_usize a ++ write_usize f
  | MinSize (Some m) => write_u8 2 ++ write_u8 1 ++ write_usize m
  | MinSize None => write_u8 2 ++ write_u8 0
  end.
Definition read_fri_reduction_strategy : R FriStrategy :=
  rdo variant <- read_u8 ;;
  if variant =? 0 then rdo a <- read_usize_vec ;; rret (Fixed a)
  else if variant =? 1 then rdo a <- read_usize ;; rdo f <- read_usize ;; rret (ConstantArityBits a f)
  else if variant =? 2 then
    rdo is_some <- read_u8 ;;
    if is_some =? 0 then rret (MinSize None)
    else if is_some =? 1 then rdo m <- read_usize ;; rret (MinSize (Some m))
    else rfail
  else rfail.

Record FriConfig : Type := mkFriConfig {
  fc_rate_bits : Z; fc_cap_height : Z; fc_num_query_rounds : Z; fc_pow_bits : Z (* u32 *);
  fc_strategy : FriStrategy }.
Definition write_fri_config (c : FriConfig) : list Z :=
  write_usize (fc_rate_bits c) ++ write_usize (fc_cap_height c) ++ write_usize (fc_num_query_rounds c)
  ++ write_u32 (fc_pow_bits c) ++ write_fri_reduction_strategy (fc_strategy c).
Definition read_fri_config : R FriConfig :=
  rdo r <- read_usize ;; rdo c <- read_usize ;; rdo q <- read_usize ;; rdo p <- read_u32 ;;
  rdo s <- read_fri_reduction_strategy ;; rret (mkFriConfig r c q p s).

Record FriParams : Type := mkFriParams {
  fp_config : FriConfig; fp_reduction_arity_bits : list Z; fp_degree_bits : Z; fp_hiding : bool }.
Definition write_fri_params (p : FriParams) : list Z :=
  write_fri_config (fp_config p) ++ write_usize_vec (fp_reduction_arity_bits p)
  ++ write_usize (fp_degree_bits p) ++ write_bool (fp_hiding p).
Definition read_fri_params : R FriParams :=
  rdo c <- read_fri_config ;; rdo a <- read_usize_vec ;; rdo d <- read_usize ;; rdo h <- read_bool ;;
  rret (mkFriParams c a d h).

Record CircuitConfig : Type := mkCircuitConfig {
  cc_num_wires : Z; cc_num_routed_wires : Z; cc_num_constants : Z; cc_security_bits : Z;
  cc_num_challenges : Z; cc_max_quotient_degree_factor : Z; cc_use_base_arithmetic_gate : bool;
  cc_zero_knowledge : bool; cc_fri_config : FriConfig }.
Definition write_circuit_config (c : CircuitConfig) : list Z :=
  write_usize (cc_num_wires c) ++ write_usize (cc_num_routed_wires c) ++ write_usize (cc_num_constants c)
  ++ write_usize (cc_security_bits c) ++ write_usize (cc_num_challenges c)
  ++ write_usize (cc_max_quotient_degree_factor c) ++ write_bool (cc_use_base_arithmetic_gate c)
  ++ write_bool (cc_zero_knowledge c) ++ write_fri_config (cc_fri_config c).
Definition read_circuit_config : R CircuitConfig :=
  rdo a <- read_usize ;; rdo b <- read_usize ;; rdo c <- read_usize ;; rdo d <- read_usize ;;
  rdo e <- read_usize ;; rdo f <- read_usize ;; rdo g <- read_bool ;; rdo h <- read_bool ;;
  rdo i <- read_fri_config ;; rret (mkCircuitConfig a b c d e f g h i).

(* ------------------------------------------------------------------ VerifierOnlyCircuitData *)
(* write: write_usize(cap.height()) where height() = log2_strict(len) PANICS unless len is a power
   of two; read: height from the bytes, then `1 << height` hashes (release build: the shift amount
   is taken modulo 64; a debug build panics for height >= 64 - not modelled). *)
Record VerifierOnly : Type := mkVerifierOnly { vo_cap : MerkleCap; vo_digest : HashOut }.
Definition log2_strict (n : nat) : option nat :=
  let k := Nat.log2 n in if (2 ^ k =? n)%nat then Some k else None.
Definition write_verifier_only (v : VerifierOnly) : W :=
  match log2_strict (length (vo_cap v)) with
  | Some h => Some (write_usize (Z.of_nat h) ++ write_merkle_cap (vo_cap v) ++ write_hash (vo_digest v))
  | None => None
  end.
Definition read_verifier_only : R VerifierOnly :=
  rdo h <- read_usize ;;
  let n := 2 ^ (h mod 64) in
  rdo c <- read_counted n 32 read_hash ;; rdo d <- read_hash ;; rret (mkVerifierOnly c d).

(* ------------------------------------------------------------------ proofs *)
(* everything the readers take from CommonCircuitData *)
Record Shape : Type := mkShape {
  sh_cap_height : nat;            (* config.fri_config.cap_height *)
  sh_num_constants : nat;         (* common_data.num_constants *)
  sh_num_routed_wires : nat;
  sh_num_wires : nat;
  sh_num_challenges : nat;
  sh_num_lookup_polys : nat;      (* common_data.num_lookup_polys *)
  sh_num_partial_products : nat;
  sh_quotient_degree_factor : nat;
  sh_salt : nat;                  (* salt_size(fri_params.hiding): 0 or SALT_SIZE = 4 *)
  sh_arity_bits : list nat;       (* fri_params.reduction_arity_bits *)
  sh_num_query_rounds : nat;
  sh_final_poly_len : nat }.      (* fri_params.final_poly_len() *)

Record OpeningSet : Type := mkOpeningSet {
  os_constants : list Ext; os_plonk_sigmas : list Ext; os_wires : list Ext; os_plonk_zs : list Ext;
  os_plonk_zs_next : list Ext; os_partial_products : list Ext; os_quotient_polys : list Ext;
  os_lookup_zs : list Ext; os_lookup_zs_next : list Ext }.
(* note the order on the wire: lookup vectors BEFORE partial products and quotient polys *)
Definition write_opening_set (o : OpeningSet) : list Z :=
  write_ext_vec (os_constants o) ++ write_ext_vec (os_plonk_sigmas o) ++ write_ext_vec (os_wires o)
  ++ write_ext_vec (os_plonk_zs o) ++ write_ext_vec (os_plonk_zs_next o) ++ write_ext_vec (os_lookup_zs o)
  ++ write_ext_vec (os_lookup_zs_next o) ++ write_ext_vec (os_partial_products o)
  ++ write_ext_vec (os_quotient_polys o).
Definition read_opening_set (sh : Shape) : R OpeningSet :=
  let nc := sh_num_challenges sh in
  rdo constants <- read_ext_vec (sh_num_constants sh) ;;
  rdo plonk_sigmas <- read_ext_vec (sh_num_routed_wires sh) ;;
  rdo wires <- read_ext_vec (sh_num_wires sh) ;;
  rdo plonk_zs <- read_ext_vec nc ;;
  rdo plonk_zs_next <- read_ext_vec nc ;;
  rdo lookup_zs <- read_ext_vec (nc * sh_num_lookup_polys sh)%nat ;;
  rdo lookup_zs_next <- read_ext_vec (nc * sh_num_lookup_polys sh)%nat ;;
  rdo partial_products <- read_ext_vec (sh_num_partial_products sh * nc)%nat ;;
  rdo quotient_polys <- read_ext_vec (sh_quotient_degree_factor sh * nc)%nat ;;
  rret (mkOpeningSet constants plonk_sigmas wires plonk_zs plonk_zs_next partial_products
                     quotient_polys lookup_zs lookup_zs_next).

(* FriInitialTreeProof: the writer loops over whatever evals_proofs holds, the reader reads exactly
   the four oracles with lengths from the common data *)
Definition InitialTreeProof : Type := list (list Z * MerkleProof).
Definition write_eval_proof (vp : list Z * MerkleProof) : W :=
  wapp (Some (write_field_vec (fst vp))) (write_merkle_proof (snd vp)).
Definition write_fri_initial_proof (p : InitialTreeProof) : W := wconcat write_eval_proof p.
Definition read_eval_proof (n : nat) : R (list Z * MerkleProof) :=
  rdo v <- read_field_vec n ;; rdo p <- read_merkle_proof ;; rret (v, p).
Definition initial_lengths (sh : Shape) : list nat :=
  [ (sh_num_constants sh + sh_num_routed_wires sh)%nat;
    (sh_num_wires sh + sh_salt sh)%nat;
    (sh_num_challenges sh * (1 + sh_num_partial_products sh + sh_num_lookup_polys sh) + sh_salt sh)%nat;
    (sh_num_challenges sh * sh_quotient_degree_factor sh + sh_salt sh)%nat ].
Fixpoint read_each {A} (r : nat -> R A) (ns : list nat) : R (list A) :=
  match ns with
  | [] => rret []
  | n :: t => rdo x <- r n ;; rdo xs <- read_each r t ;; rret (x :: xs)
  end.
Definition read_fri_initial_proof (sh : Shape) : R InitialTreeProof :=
  read_each read_eval_proof (initial_lengths sh).

Record FriQueryStep : Type := mkFriQueryStep { qs_evals : list Ext; qs_proof : MerkleProof }.
Definition write_fri_query_step (s : FriQueryStep) : W :=
  wapp (Some (write_ext_vec (qs_evals s))) (write_merkle_proof (qs_proof s)).
(* read_fri_query_step(arity, compressed = false): arity - 0 evaluations; arity = 1 << arity_bits *)
Definition read_fri_query_step (arity_bits : nat) : R FriQueryStep :=
  rdo e <- read_ext_vec (2 ^ arity_bits)%nat ;; rdo p <- read_merkle_proof ;; rret (mkFriQueryStep e p).

Record FriQueryRound : Type := mkFriQueryRound { qr_initial : InitialTreeProof; qr_steps : list FriQueryStep }.
Definition write_fri_query_round (q : FriQueryRound) : W :=
  wapp (write_fri_initial_proof (qr_initial q)) (wconcat write_fri_query_step (qr_steps q)).
Definition read_fri_query_round (sh : Shape) : R FriQueryRound :=
  rdo i <- read_fri_initial_proof sh ;;
  rdo s <- read_each read_fri_query_step (sh_arity_bits sh) ;;
  rret (mkFriQueryRound i s).

Record FriProof : Type := mkFriProof {
  fr_commit_phase_merkle_caps : list MerkleCap; fr_query_round_proofs : list FriQueryRound;
  fr_final_poly : list Ext; fr_pow_witness : Z }.
Definition write_fri_proof (p : FriProof) : W :=
  wapp (Some (concat (map write_merkle_cap (fr_commit_phase_merkle_caps p))))
  (wapp (wconcat write_fri_query_round (fr_query_round_proofs p))
        (Some (write_ext_vec (fr_final_poly p) ++ write_field (fr_pow_witness p)))).
Definition read_fri_proof (sh : Shape) : R FriProof :=
  rdo caps <- rd_n (length (sh_arity_bits sh)) (read_merkle_cap (sh_cap_height sh)) ;;
  rdo rounds <- rd_n (sh_num_query_rounds sh) (read_fri_query_round sh) ;;
  rdo fin <- read_ext_vec (sh_final_poly_len sh) ;;
  rdo pow <- read_field ;;
  rret (mkFriProof caps rounds fin pow).

Record Proof : Type := mkProof {
  pr_wires_cap : MerkleCap; pr_zs_partial_products_cap : MerkleCap; pr_quotient_polys_cap : MerkleCap;
  pr_openings : OpeningSet; pr_opening_proof : FriProof }.
Definition write_proof (p : Proof) : W :=
  wapp (Some (write_merkle_cap (pr_wires_cap p) ++ write_merkle_cap (pr_zs_partial_products_cap p)
              ++ write_merkle_cap (pr_quotient_polys_cap p) ++ write_opening_set (pr_openings p)))
       (write_fri_proof (pr_opening_proof p)).
Definition read_proof (sh : Shape) : R Proof :=
  rdo a <- read_merkle_cap (sh_cap_height sh) ;;
  rdo b <- read_merkle_cap (sh_cap_height sh) ;;
  rdo c <- read_merkle_cap (sh_cap_height sh) ;;
  rdo o <- read_opening_set sh ;;
  rdo f <- read_fri_proof sh ;;
  rret (mkProof a b c o f).

(* ProofWithPublicInputs: proof, then usize count and that many field elements *)
Record ProofWithPublicInputs : Type := mkPwpi { pw_proof : Proof; pw_public_inputs : list Z }.
Definition write_proof_with_public_inputs (p : ProofWithPublicInputs) : W :=
  wapp (write_proof (pw_proof p))
       (Some (write_usize (Z.of_nat (length (pw_public_inputs p))) ++ write_field_vec (pw_public_inputs p))).
Definition read_proof_with_public_inputs (sh : Shape) : R ProofWithPublicInputs :=
  rdo p <- read_proof sh ;;
  rdo n <- read_usize ;;
  rdo pis <- read_counted n 8 read_field ;;
  rret (mkPwpi p pis).

(* ProofWithPublicInputs::from_bytes does not require the buffer to be used up *)
Definition proof_from_bytes (sh : Shape) (bytes : list Z) : option ProofWithPublicInputs :=
  match read_proof_with_public_inputs sh bytes with
  | Some (p, _) => Some p
  | None => None
  end.
