(* C09: the algebraic kernel of the STARK verifier (starky/src/verifier.rs, vanishing_poly.rs,
   constraint_consumer.rs), over an abstract field.

   - [exp_power_of_2], [eval_l_0_and_l_last]: the closed forms evaluated at zeta
     (vanishing_poly.rs). The two denominators go through batch_multiplicative_inverse, which
     panics on a zero input: [None].
   - [consumer]: ConstraintConsumer (one accumulator per challenge alpha; acc := acc * alpha + c).
   - constraints as data: [cexpr] over local / next / public values, kind first | last |
     transition | always; evaluation is partial (a column index out of range is the slice-index
     panic of the real frame accessors).
   - [quotient_check]: the loop of verify_stark_proof_with_challenges comparing
     vanishing_polys_zeta[i] with z_h_zeta * reduce_with_powers(chunk, zeta^n).
   - [trace_sat]: what it means for a trace to satisfy the constraints (the property's notion),
     as a Prop and as an executable check. *)
From Coq Require Import ZArith List Bool Lia.
From Verif Require Import Base.Field.
Import ListNotations.
Local Open Scope field_scope.

Inductive ckind : Type := KFirst | KLast | KTransition | KAlways.

(* constants are integers, embedded by [ofZ] into whichever field the constraints are evaluated
   in (the base field on trace rows, the extension at zeta) *)
Inductive cexpr : Type :=
| EConst (c : Z)
| ELocal (i : nat)
| ENext (i : nat)
| EPub (i : nat)
| EAdd (a b : cexpr)
| ESub (a b : cexpr)
| EMul (a b : cexpr).

Definition constr : Type := (ckind * cexpr)%type.

Section Stark.
  Context {F : Type} `{FO : FieldOps F}.
  Variable ofZ : Z -> F.

  (* Field::exp_power_of_2: square k times *)
  Fixpoint exp_power_of_2 (x : F) (k : nat) : F :=
    match k with
    | O => x
    | S k' => let r := exp_power_of_2 x k' in r * r
    end.

  (* F::from_canonical_usize(1 << log_n) *)
  Definition two_pow_F (log_n : nat) : F := fpow (1 + 1) log_n.

  (* Field::batch_multiplicative_inverse on a slice of length 2 (its n == 2 special case):
     one inversion of the product; `inverse()` of zero panics *)
  Definition batch_inv2 (a b : F) : option (F * F) :=
    let p := a * b in
    if (p =? 0) then None else let pinv := finv p in Some (pinv * b, pinv * a).

  (* vanishing_poly.rs eval_l_0_and_l_last, with g = primitive_root_of_unity(log_n) passed in *)
  Definition eval_l_0_and_l_last (log_n : nat) (g x : F) : option (F * F) :=
    let n := two_pow_F log_n in
    let z_x := exp_power_of_2 x log_n - 1 in
    match batch_inv2 (n * (x - 1)) (n * (g * x - 1)) with
    | None => None
    | Some (i0, i1) => Some (z_x * i0, z_x * i1)
    end.

  (* verifier.rs: last = g^-1 ; z_last = zeta - last *)
  Definition z_last_at (g x : F) : F := x - finv g.

  (* ---------------------------------------------------------------- ConstraintConsumer *)
  Record consumer : Type := mkConsumer {
    c_alphas : list F;
    c_accs : list F;
    c_z_last : F;
    c_first : F;
    c_last : F;
  }.

  Definition consumer_new (alphas : list F) (zl l0 ll : F) : consumer :=
    mkConsumer alphas (map (fun _ => 0) alphas) zl l0 ll.

  (* for (&alpha, acc) in alphas.iter().zip(&mut accs) { *acc *= alpha; *acc += constraint } *)
  Definition constraint (c : consumer) (v : F) : consumer :=
    mkConsumer (c_alphas c)
               (map (fun p => snd p * fst p + v) (combine (c_alphas c) (c_accs c)))
               (c_z_last c) (c_first c) (c_last c).
  Definition constraint_transition (c : consumer) (v : F) : consumer := constraint c (v * c_z_last c).
  Definition constraint_first_row (c : consumer) (v : F) : consumer := constraint c (v * c_first c).
  Definition constraint_last_row (c : consumer) (v : F) : consumer := constraint c (v * c_last c).

  Definition yield (k : ckind) (c : consumer) (v : F) : consumer :=
    match k with
    | KFirst => constraint_first_row c v
    | KLast => constraint_last_row c v
    | KTransition => constraint_transition c v
    | KAlways => constraint c v
    end.

  (* the filter a kind multiplies its constraint with *)
  Definition filter_of (zl l0 ll : F) (k : ckind) : F :=
    match k with KFirst => l0 | KLast => ll | KTransition => zl | KAlways => 1 end.

  (* ---------------------------------------------------------------- constraint evaluation *)
  Definition olift2 (f : F -> F -> F) (a b : option F) : option F :=
    match a, b with Some x, Some y => Some (f x y) | _, _ => None end.

  Fixpoint ceval (lv nv pis : list F) (e : cexpr) : option F :=
    match e with
    | EConst c => Some (ofZ c)
    | ELocal i => nth_error lv i
    | ENext i => nth_error nv i
    | EPub i => nth_error pis i
    | EAdd a b => olift2 fadd (ceval lv nv pis a) (ceval lv nv pis b)
    | ESub a b => olift2 fsub (ceval lv nv pis a) (ceval lv nv pis b)
    | EMul a b => olift2 fmul (ceval lv nv pis a) (ceval lv nv pis b)
    end.

  (* Stark::eval_packed_generic of the data-driven family: the constraints in order *)
  Fixpoint eval_constraints (cs : list constr) (lv nv pis : list F) (c : consumer) : option consumer :=
    match cs with
    | [] => Some c
    | (k, e) :: t =>
      match ceval lv nv pis e with
      | Some v => eval_constraints t lv nv pis (yield k c v)
      | None => None
      end
    end.

  (* vanishing_polys_zeta of verify_stark_proof_with_challenges (no lookups, no CTLs) *)
  Definition vanishing_at (log_n : nat) (g zeta : F) (alphas : list F) (cs : list constr)
             (pis lv nv : list F) : option (list F) :=
    match eval_l_0_and_l_last log_n g zeta with
    | None => None
    | Some (l0, ll) =>
      match eval_constraints cs lv nv pis (consumer_new alphas (z_last_at g zeta) l0 ll) with
      | Some c => Some (c_accs c)
      | None => None
      end
    end.

  (* ---------------------------------------------------------------- quotient identity *)
  (* plonk_common::reduce_with_powers: terms.rev().fold(0, |acc, t| acc * alpha + t) *)
  Definition reduce_with_powers (terms : list F) (alpha : F) : F :=
    fold_left (fun acc t => acc * alpha + t) (rev terms) 0.

  (* slice::chunks(k): panics for k = 0; the last chunk may be shorter *)
  Fixpoint chunks_fuel (fuel k : nat) (l : list F) : list (list F) :=
    match fuel with
    | O => []
    | S fuel' => match l with
                 | [] => []
                 | _ => firstn k l :: chunks_fuel fuel' k (skipn k l)
                 end
    end.
  Definition chunks (k : nat) (l : list F) : option (list (list F)) :=
    match k with O => None | _ => Some (chunks_fuel (length l) k l) end.

  (* for (i, chunk) in quotient_polys.iter().flat_map(|x| x.chunks(qdf)).enumerate() {
       ensure!(vanishing_polys_zeta[i] == z_h_zeta * reduce_with_powers(chunk, zeta_pow_deg)) }
     None = panic (chunks(0), or more chunks than accumulators); Some false = Err *)
  Fixpoint check_chunks (van : list F) (i : nat) (cks : list (list F)) (zh zn : F) : option bool :=
    match cks with
    | [] => Some true
    | ck :: t =>
      match nth_error van i with
      | None => None
      | Some v => if (v =? zh * reduce_with_powers ck zn) then check_chunks van (S i) t zh zn else Some false
      end
    end.

  Definition quotient_check (log_n qdf : nat) (zeta : F) (van : list F) (quotient : option (list F)) : option bool :=
    let zn := exp_power_of_2 zeta log_n in
    let zh := zn - 1 in
    match quotient with
    | None => Some true
    | Some q =>
      match chunks qdf q with
      | None => None                      (* chunks(0) panics even on an empty slice *)
      | Some cks => check_chunks van 0 cks zh zn
      end
    end.

  (* ---------------------------------------------------------------- satisfaction of a trace *)
  Definition applies (k : ckind) (r n : nat) : bool :=
    match k with
    | KFirst => Nat.eqb r 0
    | KLast => Nat.eqb (S r) n
    | KTransition => negb (Nat.eqb (S r) n)
    | KAlways => true
    end.

  Definition row (rows : list (list F)) (r : nat) : list F := nth r rows [].

  (* every applicable constraint evaluates (no index out of range) to zero *)
  Definition trace_sat (cs : list constr) (pis : list F) (rows : list (list F)) : Prop :=
    let n := length rows in
    forall r, (r < n)%nat -> forall k e, In (k, e) cs -> applies k r n = true ->
      ceval (row rows r) (row rows (S r mod n)) pis e = Some 0.

  Definition row_sat_b (cs : list constr) (pis : list F) (rows : list (list F)) (r : nat) : bool :=
    let n := length rows in
    forallb (fun ke : constr =>
               if applies (fst ke) r n
               then match ceval (row rows r) (row rows (S r mod n)) pis (snd ke) with
                    | Some v => (v =? 0)
                    | None => false
                    end
               else true) cs.

  Definition trace_sat_b (cs : list constr) (pis : list F) (rows : list (list F)) : bool :=
    forallb (row_sat_b cs pis rows) (seq 0 (length rows)).

End Stark.
