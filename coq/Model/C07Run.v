(* Uniform entry points (list Z -> option (list Z)) for the C07 correspondence run.
   Gate encoding: <code> <params..> with code = gate_id:
     0 Arithmetic n | 1 ArithmeticExtension n | 2 MulExtension n | 3 BaseSum B n | 4 Constant n
     5 CosetInterpolation bits degree nw w_1..w_nw | 6 Exponentiation n | 7 Poseidon | 8 PoseidonMds
     9 PublicInput | 10 RandomAccess bits copies extra | 11 Reducing n | 12 ReducingExtension n
     13 Noop | 14 Lookup slots | 15 LookupTable slots
   Rows: <nconsts> c.. <nwires> w.. ; over Fp2 an element is two consecutive integers.
   None = the model says the real code panics (bad parameters or a row that is too short). *)
From Coq Require Import ZArith List Bool.
From Verif Require Import Base.Field Gen.FieldConsts Model.Fp Model.Fp2 Model.FieldGeneric Model.Gates.
Import ListNotations.
Open Scope Z_scope.

Definition fp2_of_base_Z (z : Z) : Fp2 := (toFp z, toFp 0).
Global Instance Fp2OfBase : OfBase Fp2 := fp2_of_base_Z.

Definition gnat_of (z : Z) : nat := Z.to_nat z.

Definition parse_gate (a : list Z) : option (gate * list Z) :=
  match a with
  | 0 :: n :: r => Some (ArithmeticGate (gnat_of n), r)
  | 1 :: n :: r => Some (ArithmeticExtensionGate (gnat_of n), r)
  | 2 :: n :: r => Some (MulExtensionGate (gnat_of n), r)
  | 3 :: b :: n :: r => Some (BaseSumGate (gnat_of b) (gnat_of n), r)
  | 4 :: n :: r => Some (ConstantGate (gnat_of n), r)
  | 5 :: bits :: degree :: nw :: r =>
      Some (CosetInterpolationGate (gnat_of bits) (gnat_of degree) (firstn (gnat_of nw) r), skipn (gnat_of nw) r)
  | 6 :: n :: r => Some (ExponentiationGate (gnat_of n), r)
  | 7 :: r => Some (PoseidonGate, r)
  | 8 :: r => Some (PoseidonMdsGate, r)
  | 9 :: r => Some (PublicInputGate, r)
  | 10 :: bits :: copies :: extra :: r => Some (RandomAccessGate (gnat_of bits) (gnat_of copies) (gnat_of extra), r)
  | 11 :: n :: r => Some (ReducingGate (gnat_of n), r)
  | 12 :: n :: r => Some (ReducingExtensionGate (gnat_of n), r)
  | 13 :: r => Some (NoopGate, r)
  | 14 :: n :: r => Some (LookupGate (gnat_of n), r)
  | 15 :: n :: r => Some (LookupTableGate (gnat_of n), r)
  | _ => None
  end.

(* <n> x_1 .. x_(n*width) *)
Definition gparse_vec (width : nat) (a : list Z) : option (list Z * list Z) :=
  match a with
  | n :: r => let k := (gnat_of n * width)%nat in
              if Nat.leb k (length r) then Some (firstn k r, skipn k r) else None
  | _ => None
  end.

Fixpoint gpairs (l : list Z) : list Fp2 :=
  match l with
  | a :: b :: r => (toFp a, toFp b) :: gpairs r
  | _ => []
  end.
Definition gunpairs (l : list Fp2) : list Z := flat_map (fun p => [fval (fst p); fval (snd p)]) l.
Definition gfps (l : list Z) : list Fp := map toFp l.
Definition gzs (l : list Fp) : list Z := map fval l.

Definition gsized (g : gate) (nconsts nwires : nat) : bool :=
  gate_wf g && Nat.leb (gate_num_constants g) nconsts && Nat.leb (gate_eval_wires g) nwires.

(* evalbase <gate> <nconsts> c.. <nwires> w.. pi0 pi1 pi2 pi3 : Gate::eval_unfiltered_base_batch, one point *)
Definition run_gate_evalbase (a : list Z) : option (list Z) :=
  match parse_gate a with
  | Some (g, r) =>
    match gparse_vec 1 r with
    | Some (cs, r) =>
      match gparse_vec 1 r with
      | Some (ws, pi) =>
        if gsized g (length cs) (length ws) && Nat.eqb (length pi) 4
        then Some (gzs (gate_eval_unfiltered g (gfps cs) (gfps ws) (gfps pi)))
        else None
      | None => None end
    | None => None end
  | None => None
  end.

(* basevsext: num_constraints, then the base-field values, then the extension-field values of the embedded row *)
Definition run_gate_basevsext (a : list Z) : option (list Z) :=
  match parse_gate a with
  | Some (g, r) =>
    match gparse_vec 1 r with
    | Some (cs, r) =>
      match gparse_vec 1 r with
      | Some (ws, pi) =>
        if gsized g (length cs) (length ws) && Nat.eqb (length pi) 4
        then Some (Z.of_nat (gate_num_constraints g)
                   :: gzs (gate_eval_unfiltered g (gfps cs) (gfps ws) (gfps pi))
                   ++ gunpairs (gate_eval_unfiltered g (map fp2_of_base_Z cs) (map fp2_of_base_Z ws) (map fp2_of_base_Z pi)))
        else None
      | None => None end
    | None => None end
  | None => None
  end.

(* evalext: Gate::eval_unfiltered over the quadratic extension (also the in-circuit evaluator) *)
Definition run_gate_evalext (a : list Z) : option (list Z) :=
  match parse_gate a with
  | Some (g, r) =>
    match gparse_vec 2 r with
    | Some (cs, r) =>
      match gparse_vec 2 r with
      | Some (ws, pi) =>
        if gsized g (Nat.div2 (length cs)) (Nat.div2 (length ws)) && Nat.eqb (length pi) 4
        then Some (gunpairs (gate_eval_unfiltered g (gpairs cs) (gpairs ws) (map fp2_of_base_Z pi)))
        else None
      | None => None end
    | None => None end
  | None => None
  end.

(* generate <gate> <nconsts> c.. <nwires> w.. : the row after running the gate's generators (release build) *)
Definition run_gate_generate (a : list Z) : option (list Z) :=
  match parse_gate a with
  | Some (g, r) =>
    match gparse_vec 1 r with
    | Some (cs, r) =>
      match gparse_vec 1 r with
      | Some (ws, []) =>
        if gsized g (length cs) (length ws)
        then option_map gzs (gate_generate g (gfps cs) (gfps ws))
        else None
      | _ => None end
    | None => None end
  | None => None
  end.

(* genguard: 1 if the debug assertions of the generators hold and they do not panic (debug build);
   0 also when the row is too short for the generators' reads *)
Definition run_gate_genguard (a : list Z) : option (list Z) :=
  match parse_gate a with
  | Some (g, r) =>
    match gparse_vec 1 r with
    | Some (cs, r) =>
      match gparse_vec 1 r with
      | Some (ws, []) =>
        Some [if gsized g (length cs) (length ws)
              then match gate_generate g (gfps cs) (gfps ws) with
                   | Some _ => if gate_gen_guard g (gfps ws) then 1 else 0
                   | None => 0 end
              else 0]
      | _ => None end
    | None => None end
  | None => None
  end.

(* pinned <gate> <nconsts> c.. <nwires> row.. pi0..pi3 <wire> <value> :
   base-field constraint values of the row with one wire replaced *)
Definition run_gate_pinned (a : list Z) : option (list Z) :=
  match parse_gate a with
  | Some (g, r) =>
    match gparse_vec 1 r with
    | Some (cs, r) =>
      match gparse_vec 1 r with
      | Some (ws, [p0; p1; p2; p3; w; v]) =>
        if gsized g (length cs) (length ws) && Nat.ltb (gnat_of w) (length ws)
        then Some (gzs (gate_eval_unfiltered g (gfps cs) (upd (gfps ws) (gnat_of w) (toFp v)) (gfps [p0; p1; p2; p3])))
        else None
      | _ => None end
    | None => None end
  | None => None
  end.

(* sizes <gate> = num_wires num_constants degree num_constraints *)
Definition run_gate_sizes (a : list Z) : option (list Z) :=
  match parse_gate a with
  | Some (g, []) =>
    if gate_wf g then
      Some (map Z.of_nat [gate_num_wires g; gate_num_constants g; gate_degree g; gate_num_constraints g])
    else None
  | _ => None
  end.

(* written <gate> = sorted list of the wires the gate's generators write *)
Fixpoint ginsert_sorted (x : nat) (l : list nat) : list nat :=
  match l with
  | [] => [x]
  | y :: t => if Nat.leb x y then (if Nat.eqb x y then l else x :: l) else y :: ginsert_sorted x t
  end.
Definition run_gate_written (a : list Z) : option (list Z) :=
  match parse_gate a with
  | Some (g, []) =>
    if gate_wf g then Some (map Z.of_nat (fold_right ginsert_sorted [] (gate_written g))) else None
  | _ => None
  end.

(* lowdeg <gate> <measured max degree> <witness degree> = declared degree, num_constraints *)
Definition run_gate_lowdeg (a : list Z) : option (list Z) :=
  match parse_gate a with
  | Some (g, [_; _]) => Some (map Z.of_nat [gate_degree g; gate_num_constraints g])
  | _ => None
  end.

(* Abstract degree: the same polymorphic evaluator run over the "degree semiring" (nat, max, +) with
   every wire and constant of degree 1 and field constants / the public-input hash of degree 0 yields an
   upper bound on the degree of each constraint polynomial (add/sub -> max, mul -> +). *)
Definition DegOps : FieldOps nat := {|
  fzero := 0%nat; fone := 0%nat; fadd := Nat.max; fsub := Nat.max; fmul := Nat.add;
  fneg := fun x => x; finv := fun x => x; feqb := Nat.eqb |}.
Definition DegOfBase : OfBase nat := fun _ => 0%nat.
Definition gate_abs_degree (g : gate) : nat :=
  fold_right Nat.max 0%nat
    (@gate_eval_unfiltered nat DegOps DegOfBase g (repeat 1%nat (gate_num_constants g))
       (repeat 1%nat (Nat.max (gate_eval_wires g) (gate_num_wires g))) (repeat 0%nat 4)).
(* absdeg <gate> = 1 iff the abstract degree does not exceed the declared degree *)
Definition run_gate_absdeg (a : list Z) : option (list Z) :=
  match parse_gate a with
  | Some (g, []) => if gate_wf g then Some [if Nat.leb (gate_abs_degree g) (gate_degree g) then 1 else 0] else None
  | _ => None
  end.

(* circuit_agrees <gate> .. = 1 : Rust-side comparison of eval_unfiltered_circuit with eval_unfiltered *)
Definition run_gate_circuit_agrees (a : list Z) : option (list Z) := Some [1].

(* filter row lo hi many s0 s1 : compute_filter over Fp2 *)
Definition run_gate_filter (a : list Z) : option (list Z) :=
  match a with
  | [row; lo; hi; many; s0; s1] =>
    if Z.leb lo row && Z.ltb row hi then
      Some (gunpairs [compute_filter (gnat_of row) (gnat_of lo) (gnat_of hi) (toFp s0, toFp s1) (negb (Z.eqb many 0))])
    else None
  | _ => None
  end.

(* evalfiltered <gate> <nconsts> c.. <nwires> w.. pi0..pi3 row selector_index lo hi num_selectors num_lookup_selectors *)
Definition run_gate_evalfiltered (a : list Z) : option (list Z) :=
  match parse_gate a with
  | Some (g, r) =>
    match gparse_vec 2 r with
    | Some (cs, r) =>
      match gparse_vec 2 r with
      | Some (ws, [p0; p1; p2; p3; row; sel; lo; hi; nsel; nlsel]) =>
        let nc := Nat.div2 (length cs) in
        if gate_wf g && Nat.leb (gnat_of nsel + gnat_of nlsel + gate_num_constants g) nc
           && Nat.leb (gate_eval_wires g) (Nat.div2 (length ws)) && Nat.ltb (gnat_of sel) nc
        then Some (gunpairs (eval_filtered g (gpairs cs) (gpairs ws) (map fp2_of_base_Z [p0; p1; p2; p3])
                                          (gnat_of row) (gnat_of sel) (gnat_of lo) (gnat_of hi) (gnat_of nsel) (gnat_of nlsel)))
        else None
      | _ => None end
    | None => None end
  | None => None
  end.

(* cosetnew bits = degree weights.. : CosetInterpolationGate::new(bits) *)
Definition run_gate_cosetnew (a : list Z) : option (list Z) :=
  match a with
  | [bits] =>
    match coset_gate_new (gnat_of bits) with
    | CosetInterpolationGate _ degree weights => Some (Z.of_nat degree :: weights)
    | _ => None
    end
  | _ => None
  end.

(* subgroup bits = two_adic_subgroup(bits) *)
Definition run_gate_subgroup (a : list Z) : option (list Z) :=
  match a with [bits] => Some (two_adic_subgroup (gnat_of bits)) | _ => None end.
