(* Model of plonky2/src/hash/{merkle_tree,merkle_proofs,batch_merkle_tree,path_compression}.rs.
   The hash is ABSTRACT (section variables): [hash_leaf] models [H::hash_or_noop], [two_to_one]
   models [H::two_to_one], [digest_to_vec] models [GenericHashOut::to_vec].

   The definitions mirror the code that exists:
   - [fill_subtree] works on an (offset, length) window of the digest buffer and returns the list
     of WRITES (absolute index, value) it performs, with the code's split points
     ([split_at_mut(len/2)], [split_last_mut], [split_first_mut], [leaves.split_at(len/2)]);
   - the buffer itself is a [list (option digest)]: [None] is a slot of the
     [MaybeUninit] capacity that nobody wrote.  [MerkleTree::new] does [set_len]: the model returns
     a tree only if every slot was written ([all_init]); the theorem [layout_total_disjoint]
     (Proofs/Merkle.v) shows that this is always the case and that every slot is written once;
   - [merkle_tree_prove] reads siblings out of that buffer with the code's index arithmetic;
   - [verify_batch_merkle_proof_to_cap] is the bit walk with the height-triggered re-hash.
   Partial operations of the Rust code (assert, unwrap, slice/array index) give [None] / [VPanic].
   Indices and lengths are [nat] ([usize] values far below 2^64 in every use). *)
From Coq Require Import List Arith Bool ZArith Lia.
Import ListNotations.

(* util::log2_strict : panics unless n is a power of two *)
Fixpoint log2_strict_fuel (fuel n : nat) : option nat :=
  match fuel with
  | O => None
  | S f =>
    if n =? 1 then Some 0
    else if (n =? 0) || (n mod 2 =? 1) then None
    else option_map S (log2_strict_fuel f (n / 2))
  end.
Definition log2_strict (n : nat) : option nat := log2_strict_fuel n n.

(* usize [x ^ 1] *)
Definition xor1 (i : nat) : nat := if Nat.even i then i + 1 else i - 1.

(* [v[i] = x]; out of range leaves the list unchanged (callers check the range first) *)
Fixpoint upd {A} (i : nat) (x : A) (l : list A) : list A :=
  match l with
  | [] => []
  | y :: r => match i with O => x :: r | S i' => y :: upd i' x r end
  end.

(* slice [l[a..b]] (None = the slice index panic) *)
Definition slice {A} (l : list A) (a b : nat) : option (list A) :=
  if (a <=? b) && (b <=? length l) then Some (firstn (b - a) (skipn a l)) else None.

(* verdict of a verifier: Ok(()), Err(_), panic *)
Inductive vres : Type := VOk | VErr | VPanic.

Section Merkle.
  Variable F : Type.                                  (* field element of a leaf *)
  Variable digest : Type.                             (* H::Hash *)
  Variable hash_leaf : list F -> digest.              (* H::hash_or_noop *)
  Variable two_to_one : digest -> digest -> digest.   (* H::two_to_one *)
  Variable digest_eqb : digest -> digest -> bool.     (* PartialEq of H::Hash *)
  Variable digest_to_vec : digest -> list F.          (* GenericHashOut::to_vec *)

  (* ------------------------------------------------------------------------------------ *)
  (* Specification: hash the leaves, then hash pairwise level by level.                   *)

  Fixpoint pair_up (l : list digest) : list digest :=
    match l with
    | a :: b :: r => two_to_one a b :: pair_up r
    | _ => []
    end.

  Fixpoint iter_levels (n : nat) (l : list digest) : list digest :=
    match n with O => l | S n' => iter_levels n' (pair_up l) end.

  (* the cap of height [cap_height] of the tree over [leaves] (length 2^k, cap_height <= k):
     k - cap_height rounds of pairwise hashing *)
  Definition merkle_cap_spec (leaves : list (list F)) (cap_height : nat) : list digest :=
    iter_levels (Nat.log2 (length leaves) - cap_height) (map hash_leaf leaves).

  (* ------------------------------------------------------------------------------------ *)
  (* merkle_tree.rs                                                                        *)

  Definition writes : Type := list (nat * digest).

  (* fill_subtree(digests_buf = buffer[off .. off+len], leaves) -> (digest, writes performed).
     [fuel]: recursion depth bound (the leaves halve at each call). *)
  Fixpoint fill_subtree (fuel off len : nat) (leaves : list (list F)) : option (digest * writes) :=
    match fuel with
    | O => None
    | S fuel' =>
      (* assert_eq!(leaves.len(), digests_buf.len() / 2 + 1) *)
      if negb (length leaves =? len / 2 + 1) then None
      else if len =? 0 then
        match leaves with l0 :: _ => Some (hash_leaf l0, []) | [] => None end
      else
        (* split_at_mut(len / 2): left = [off, off+half), right = [off+half, off+len) *)
        let half := len / 2 in
        (* left.split_last_mut().unwrap() : panics on an empty left part *)
        if half =? 0 then None
        else
          let left_mem := off + half - 1 in
          let left_off := off in
          let left_len := half - 1 in
          (* right.split_first_mut().unwrap() : right part has len - half >= 1 elements *)
          let right_mem := off + half in
          let right_off := off + half + 1 in
          let right_len := len - half - 1 in
          (* leaves.split_at(leaves.len() / 2) *)
          let lh := length leaves / 2 in
          let left_leaves := firstn lh leaves in
          let right_leaves := skipn lh leaves in
          (* join(|| fill_subtree(left..), || fill_subtree(right..)) *)
          match fill_subtree fuel' left_off left_len left_leaves,
                fill_subtree fuel' right_off right_len right_leaves with
          | Some (ld, lw), Some (rd, rw) =>
            Some (two_to_one ld rd, lw ++ rw ++ [(left_mem, ld); (right_mem, rd)])
          | _, _ => None
          end
    end.

  (* the j-th chunk of [chunks_exact(sz)] *)
  Definition chunk {A} (sz j : nat) (l : list A) : list A := firstn sz (skipn (j * sz) l).

  Fixpoint fill_chunks (off sdl sll : nat) (leaves : list (list F)) (js : list nat)
    : option (writes * writes) :=
    match js with
    | [] => Some ([], [])
    | j :: js' =>
      match fill_subtree (S (length (chunk sll j leaves))) (off + j * sdl) sdl (chunk sll j leaves),
            fill_chunks off sdl sll leaves js' with
      | Some (d, w), Some (dw, cw) => Some (w ++ dw, (j, d) :: cw)
      | _, _ => None
      end
    end.

  (* fill_digests_buf(digests_buf = buffer[off .. off+digests_len], cap_buf (cap_len slots),
     leaves, cap_height) -> (writes to the digest buffer, writes to the cap buffer).
     (The [debug_assert_eq!(cap_buf.len(), leaves.len())] of the all-cap case holds at both call
     sites, MerkleTree::new and BatchMerkleTree::new; [zip] truncates to the shorter side.) *)
  Definition fill_digests_buf (off digests_len cap_len : nat) (leaves : list (list F))
             (cap_height : nat) : option (writes * writes) :=
    if digests_len =? 0 then
      Some ([], combine (seq 0 cap_len) (map hash_leaf leaves))
    else
      let subtree_digests_len := digests_len / 2 ^ cap_height in
      let subtree_leaves_len := length leaves / 2 ^ cap_height in
      (* chunks_exact(0) panics *)
      if (subtree_digests_len =? 0) || (subtree_leaves_len =? 0) then None
      else
        let n_dchunks := digests_len / subtree_digests_len in
        let n_lchunks := length leaves / subtree_leaves_len in
        if negb (n_dchunks =? cap_len) then None
        else if negb (n_dchunks =? n_lchunks) then None
        else fill_chunks off subtree_digests_len subtree_leaves_len leaves (seq 0 n_dchunks).

  (* the MaybeUninit buffer *)
  Definition apply_writes (ws : writes) (buf : list (option digest)) : list (option digest) :=
    fold_left (fun b w => upd (fst w) (Some (snd w)) b) ws buf.

  (* set_len: sound only if every slot has been written *)
  Fixpoint all_init (buf : list (option digest)) : option (list digest) :=
    match buf with
    | [] => Some []
    | Some d :: r => option_map (cons d) (all_init r)
    | None :: _ => None
    end.

  Record MerkleTree : Type := mkTree {
    mt_leaves : list (list F);
    mt_digests : list digest;
    mt_cap : list digest;
  }.

  (* MerkleTree::new *)
  Definition merkle_tree_new (leaves : list (list F)) (cap_height : nat) : option MerkleTree :=
    match log2_strict (length leaves) with
    | None => None
    | Some log2_leaves_len =>
      if log2_leaves_len <? cap_height then None
      else
        let num_digests := 2 * (length leaves - 2 ^ cap_height) in
        let len_cap := 2 ^ cap_height in
        match fill_digests_buf 0 num_digests len_cap leaves cap_height with
        | None => None
        | Some (dw, cw) =>
          match all_init (apply_writes dw (repeat None num_digests)),
                all_init (apply_writes cw (repeat None len_cap)) with
          | Some digests, Some cap => Some (mkTree leaves digests cap)
          | _, _ => None
          end
        end
    end.

  (* the closure of merkle_tree_prove, layers i = layer .. layer+n-1, [pair_index] the loop state *)
  Fixpoint prove_layers (digest_tree : list digest) (n layer pair_index : nat)
    : option (list digest) :=
    match n with
    | O => Some []
    | S n' =>
      let parity := pair_index mod 2 in
      let pair_index := pair_index / 2 in
      let siblings_index := pair_index * 2 ^ (layer + 1) + 2 ^ layer - 1 in
      let sibling_index := 2 * siblings_index + (1 - parity) in
      match nth_error digest_tree sibling_index, prove_layers digest_tree n' (S layer) pair_index with
      | Some d, Some r => Some (d :: r)
      | _, _ => None
      end
    end.

  (* merkle_tree_prove(leaf_index, leaves_len, cap_height, digests).
     [dbg = true]: debug build ([debug_assert_eq!(leaf_index >> (cap_height + num_layers), 0)]). *)
  Definition merkle_tree_prove (dbg : bool) (leaf_index leaves_len cap_height : nat)
             (digests : list digest) : option (list digest) :=
    match log2_strict leaves_len with
    | None => None
    | Some lg =>
      if lg <? cap_height then None (* usize underflow: debug panic; not reachable from prove() *)
      else
        let num_layers := lg - cap_height in
        if dbg && negb (leaf_index / 2 ^ (cap_height + num_layers) =? 0) then None
        else
          let digest_len := 2 * (leaves_len - 2 ^ cap_height) in
          if negb (digest_len =? length digests) then None
          else
            let tree_index := leaf_index / 2 ^ num_layers in
            let tree_len := digest_len / 2 ^ cap_height in
            match slice digests (tree_len * tree_index) (tree_len * (tree_index + 1)) with
            | None => None
            | Some digest_tree =>
              prove_layers digest_tree num_layers 0 (leaf_index mod 2 ^ num_layers)
            end
    end.

  (* MerkleTree::prove *)
  Definition tree_prove (dbg : bool) (t : MerkleTree) (leaf_index : nat) : option (list digest) :=
    match log2_strict (length (mt_cap t)) with
    | None => None
    | Some cap_height =>
      merkle_tree_prove dbg leaf_index (length (mt_leaves t)) cap_height (mt_digests t)
    end.

  (* observable functions of a commitment: its cap and the opening of position i *)
  Definition merkle_cap (leaves : list (list F)) (cap_height : nat) : option (list digest) :=
    option_map mt_cap (merkle_tree_new leaves cap_height).
  Definition merkle_prove (leaves : list (list F)) (cap_height i : nat) : option (list digest) :=
    match merkle_tree_new leaves cap_height with
    | None => None
    | Some t => tree_prove false t i
    end.

  (* ------------------------------------------------------------------------------------ *)
  (* merkle_proofs.rs                                                                      *)

  (* one step of the walk *)
  Definition walk_step (cur : digest) (idx : nat) (sib : digest) : digest :=
    if idx mod 2 =? 1 then two_to_one sib cur else two_to_one cur sib.

  Fixpoint verify_walk (cur : digest) (idx : nat) (sibs : list digest) : digest * nat :=
    match sibs with
    | [] => (cur, idx)
    | s :: r => verify_walk (walk_step cur idx s) (idx / 2) r
    end.

  (* verify_merkle_proof_to_cap, with the panic of [merkle_cap.0[leaf_index]] visible *)
  Definition verify_merkle_proof_to_cap_res (leaf_data : list F) (leaf_index : nat)
             (cap : list digest) (siblings : list digest) : vres :=
    let '(d, j) := verify_walk (hash_leaf leaf_data) leaf_index siblings in
    match nth_error cap j with
    | None => VPanic
    | Some c => if digest_eqb d c then VOk else VErr
    end.

  (* acceptance as a boolean: true iff the Rust function returns Ok(()) *)
  Definition verify_merkle_proof_to_cap (leaf_data : list F) (leaf_index : nat)
             (cap : list digest) (siblings : list digest) : bool :=
    match verify_merkle_proof_to_cap_res leaf_data leaf_index cap siblings with
    | VOk => true
    | _ => false
    end.

  (* verify_batch_merkle_proof_to_cap.  Loop state: current digest, current_height (a usize:
     [current_height -= 1] panics in a debug build and wraps in a release build when it is 0),
     leaf_data_index, leaf_index. *)
  Fixpoint batch_walk (dbg : bool) (leaf_data : list (list F)) (leaf_heights : list nat)
           (cur : digest) (cur_h : Z) (ldi idx : nat) (sibs : list digest)
    : option (digest * nat * nat) :=
    match sibs with
    | [] => Some (cur, ldi, idx)
    | s :: r =>
      let cur := walk_step cur idx s in
      let idx := idx / 2 in
      if dbg && (cur_h =? 0)%Z then None
      else
        (* usize: 0 - 1 wraps to 2^64 - 1 in a release build *)
        let cur_h := (if cur_h =? 0 then 2 ^ 64 - 1 else cur_h - 1)%Z in
        if (ldi <? length leaf_heights) && Z.eqb cur_h (Z.of_nat (nth ldi leaf_heights O)) then
          let new_leaves := digest_to_vec cur ++ nth ldi leaf_data [] in
          batch_walk dbg leaf_data leaf_heights (hash_leaf new_leaves) cur_h (S ldi) idx r
        else batch_walk dbg leaf_data leaf_heights cur cur_h ldi idx r
    end.

  Definition verify_batch_merkle_proof_to_cap (dbg : bool) (leaf_data : list (list F))
             (leaf_heights : list nat) (leaf_index : nat) (cap : list digest)
             (siblings : list digest) : vres :=
    if negb (length leaf_data =? length leaf_heights) then VPanic
    else
      match leaf_data, leaf_heights with
      | l0 :: _, h0 :: _ =>
        match batch_walk dbg leaf_data leaf_heights (hash_leaf l0) (Z.of_nat h0) 1 leaf_index siblings with
        | None => VPanic
        | Some (d, ldi, j) =>
          if negb (ldi =? length leaf_data) then VPanic
          else match nth_error cap j with
               | None => VPanic
               | Some c => if digest_eqb d c then VOk else VErr
               end
        end
      | _, _ => VPanic
      end.

  (* ------------------------------------------------------------------------------------ *)
  (* batch_merkle_tree.rs                                                                  *)

  Record BatchMerkleTree : Type := mkBatch {
    bt_leaves : list (list (list F));
    bt_digests : list digest;
    bt_cap : list digest;
    bt_leaf_heights : list nat;
  }.

  Definition is_pow2 (n : nat) : bool := match log2_strict n with Some _ => true | None => false end.

  Fixpoint strictly_decreasing (l : list nat) : bool :=
    match l with
    | a :: ((b :: _) as r) => (b <? a) && strictly_decreasing r
    | _ => true
    end.

  (* the loop over [leaves.windows(2)] (after the dummy layer of 2^cap_height rows was pushed).
     state: the uninitialised digest buffer, the position in it, the current cap, leaf_heights *)
  Fixpoint batch_layers (num_digests leaves_len : nat) (layers : list (list (list F)))
           (dummy_len : nat) (buf : list (option digest)) (pos : nat) (cap : list digest)
           (heights : list nat) : option (list (option digest) * list digest * list nat) :=
    match layers with
    | [] => Some (buf, cap, heights)
    | cur :: rest =>
      let cur_leaf_len := length cur in
      let next_cap_len := match rest with nxt :: _ => length nxt | [] => dummy_len end in
      match log2_strict next_cap_len, log2_strict cur_leaf_len with
      | Some next_cap_height, Some cur_h =>
        (* usize subtraction cur_leaf_len - next_cap_len *)
        if cur_leaf_len <? next_cap_len then None
        else
          let num_tmp_digests := 2 * (cur_leaf_len - next_cap_len) in
          (* &mut digests_buf[pos .. pos + num_tmp_digests] *)
          if num_digests <? pos + num_tmp_digests then None
          else
            let lv :=
              if cur_leaf_len =? leaves_len then Some cur
              else if length cap <=? length cur
                   then Some (map (fun p => digest_to_vec (fst p) ++ snd p) (combine cap cur))
                   else None (* cur[i] out of range *) in
            match lv with
            | None => None
            | Some lv =>
              match fill_digests_buf pos num_tmp_digests next_cap_len lv next_cap_height with
              | None => None
              | Some (dw, cw) =>
                match all_init (apply_writes cw (repeat None next_cap_len)) with
                | None => None
                | Some cap' =>
                  batch_layers num_digests leaves_len rest dummy_len (apply_writes dw buf)
                               (pos + num_tmp_digests) cap' (heights ++ [cur_h])
                end
              end
            end
      | _, _ => None
      end
    end.

  (* BatchMerkleTree::new *)
  Definition batch_merkle_tree_new (leaves : list (list (list F))) (cap_height : nat)
    : option BatchMerkleTree :=
    match leaves with
    | [] => None
    | first :: _ =>
      if negb (forallb (fun m => is_pow2 (length m)) leaves) then None
      else if negb (strictly_decreasing (map (@length _) leaves)) then None
      else
        match log2_strict (length (last leaves [])) with
        | None => None
        | Some last_h =>
          if last_h <? cap_height then None
          else
            let leaves_len := length first in
            let num_digests := 2 * (leaves_len - 2 ^ cap_height) in
            match batch_layers num_digests leaves_len leaves (2 ^ cap_height)
                               (repeat None num_digests) 0 [] [] with
            | None => None
            | Some (buf, cap, heights) =>
              match all_init buf with
              | None => None
              | Some digests => Some (mkBatch leaves digests cap heights)
              end
            end
        end
    end.

  (* open_batch: the loop over cap_heights.windows(2) *)
  Fixpoint open_batch_layers (dbg : bool) (digests : list digest) (leaf_index initial_h : nat)
           (hs : list nat) (pos : nat) : option (list digest) :=
    match hs with
    | cur_h :: ((next_h :: _) as r) =>
      (* usize subtractions *)
      if (initial_h <? cur_h) || (2 ^ cur_h <? 2 ^ next_h) then None
      else
        let num_digests := 2 * (2 ^ cur_h - 2 ^ next_h) in
        match slice digests pos (pos + num_digests) with
        | None => None
        | Some ds =>
          match merkle_tree_prove dbg (leaf_index / 2 ^ (initial_h - cur_h)) (2 ^ cur_h) next_h ds,
                open_batch_layers dbg digests leaf_index initial_h r (pos + num_digests) with
          | Some p, Some q => Some (p ++ q)
          | _, _ => None
          end
        end
    | _ => Some []
    end.

  Definition open_batch (dbg : bool) (t : BatchMerkleTree) (leaf_index : nat) : option (list digest) :=
    match bt_leaves t with
    | [] => None
    | first :: _ =>
      match log2_strict (length first), log2_strict (length (bt_cap t)) with
      | Some initial_h, Some cap_h =>
        open_batch_layers dbg (bt_digests t) leaf_index initial_h (bt_leaf_heights t ++ [cap_h]) 0
      | _, _ => None
      end
    end.

  (* BatchMerkleTree::values *)
  Fixpoint values_layers (leaf_index lch : nat) (ls : list (list (list F))) (hs : list nat)
    : option (list (list F)) :=
    match ls, hs with
    | m :: ls', h :: hs' =>
      if lch <? h then None
      else match nth_error m (leaf_index / 2 ^ (lch - h)), values_layers leaf_index lch ls' hs' with
           | Some v, Some r => Some (v :: r)
           | _, _ => None
           end
    | _, _ => Some []
    end.

  Definition batch_values (t : BatchMerkleTree) (leaf_index : nat) : option (list (list F)) :=
    match bt_leaves t with
    | [] => None
    | first :: _ =>
      match log2_strict (length first) with
      | Some lch => values_layers leaf_index lch (bt_leaves t) (bt_leaf_heights t)
      | None => None
      end
    end.

  (* ------------------------------------------------------------------------------------ *)
  (* path_compression.rs.  Tree nodes are numbered heap-style: root 1, children 2i, 2i+1,
     leaf i is node i + num_leaves.                                                        *)

  (* known[(i + num_leaves) >> j] = true for j in 0..n *)
  Fixpoint mark_path (known : list bool) (node n : nat) : option (list bool) :=
    match n with
    | O => Some known
    | S n' =>
      if node <? length known then mark_path (upd node true known) (node / 2) n' else None
    end.

  Fixpoint mark_paths (known : list bool) (num_leaves n : nat) (indices : list nat)
    : option (list bool) :=
    match indices with
    | [] => Some known
    | i :: r =>
      match mark_path known (i + num_leaves) n with
      | None => None
      | Some k => mark_paths k num_leaves n r
      end
    end.

  (* the inner loop over p.siblings: returns (known, compressed siblings) *)
  Fixpoint compress_one (known : list bool) (index : nat) (sibs : list digest)
    : option (list bool * list digest) :=
    match sibs with
    | [] => Some (known, [])
    | s :: r =>
      let sibling_index := xor1 index in
      match nth_error known sibling_index with
      | None => None
      | Some k =>
        let known1 := if k then known else upd sibling_index true known in
        let index := index / 2 in
        if length known1 <=? index then None
        else
          match compress_one (upd index true known1) index r with
          | None => None
          | Some (known2, out) => Some (known2, if k then out else s :: out)
          end
      end
    end.

  Fixpoint compress_all (known : list bool) (num_leaves : nat) (ips : list (nat * list digest))
    : option (list (list digest)) :=
    match ips with
    | [] => Some []
    | (i, p) :: r =>
      match compress_one known (i + num_leaves) p with
      | None => None
      | Some (known', cp) => option_map (cons cp) (compress_all known' num_leaves r)
      end
    end.

  Definition compress_merkle_proofs (cap_height : nat) (indices : list nat)
             (proofs : list (list digest)) : option (list (list digest)) :=
    match proofs with
    | [] => None (* assert!(!proofs.is_empty()) *)
    | p0 :: _ =>
      let height := cap_height + length p0 in
      let num_leaves := 2 ^ height in
      match mark_paths (repeat false (2 * num_leaves)) num_leaves (height - cap_height) indices with
      | None => None
      | Some known => compress_all known num_leaves (combine indices proofs)
      end
    end.

  (* the [seen] HashMap: association list, [insert] overwrites *)
  Definition seen_map : Type := list (nat * digest).
  Fixpoint seen_get (m : seen_map) (k : nat) : option digest :=
    match m with
    | [] => None
    | (k', v) :: r => if k' =? k then Some v else seen_get r k
    end.
  Definition seen_insert (m : seen_map) (k : nat) (v : digest) : seen_map := (k, v) :: m.

  (* one layer of the fill loop: over (index, sibling iterator) pairs; returns the map and the
     advanced iterators *)
  Fixpoint decompress_layer (seen : seen_map) (num_leaves layer_height : nat)
           (ips : list (nat * list digest)) : option (seen_map * list (list digest)) :=
    match ips with
    | [] => Some (seen, [])
    | (i, p) :: r =>
      let index := (i + num_leaves) / 2 ^ layer_height in
      match seen_get seen index with
      | None => None (* seen[&index] *)
      | Some current_hash =>
        let sibling_index := xor1 index in
        let step (seen1 : seen_map) (sibling_hash : digest) (p' : list digest) :=
          let parent_hash :=
            if Nat.even index then two_to_one current_hash sibling_hash
            else two_to_one sibling_hash current_hash in
          match decompress_layer (seen_insert seen1 (index / 2) parent_hash) num_leaves layer_height r with
          | None => None
          | Some (seen2, ps) => Some (seen2, p' :: ps)
          end in
        match seen_get seen sibling_index with
        | Some sh => step seen sh p
        | None =>
          match p with
          | [] => None (* p.next().unwrap() *)
          | sh :: p' => step (seen_insert seen sibling_index sh) sh p'
          end
        end
      end
    end.

  Fixpoint decompress_fill (seen : seen_map) (num_leaves layer_height n : nat)
           (indices : list nat) (its : list (list digest)) : option seen_map :=
    match n with
    | O => Some seen
    | S n' =>
      match decompress_layer seen num_leaves layer_height (combine indices its) with
      | None => None
      | Some (seen', its') =>
        (* zip(siblings.iter_mut()) only visits the first min(#indices, #proofs) iterators *)
        decompress_fill seen' num_leaves (S layer_height) n' indices
                        (its' ++ skipn (length its') its)
      end
    end.

  Fixpoint read_path (seen : seen_map) (index n : nat) : option (list digest) :=
    match n with
    | O => Some []
    | S n' =>
      match seen_get seen (xor1 index), read_path seen (index / 2) n' with
      | Some h, Some r => Some (h :: r)
      | _, _ => None
      end
    end.

  Fixpoint read_paths (seen : seen_map) (num_leaves n : nat) (indices : list nat)
    : option (list (list digest)) :=
    match indices with
    | [] => Some []
    | i :: r =>
      match read_path seen (i + num_leaves) n, read_paths seen num_leaves n r with
      | Some p, Some ps => Some (p :: ps)
      | _, _ => None
      end
    end.

  Definition decompress_merkle_proofs (leaves_data : list (list F)) (leaves_indices : list nat)
             (compressed_proofs : list (list digest)) (height cap_height : nat)
    : option (list (list digest)) :=
    if height <? cap_height then None (* usize underflow of height - cap_height *)
    else
      let num_leaves := 2 ^ height in
      let seen0 :=
        fold_left (fun m iv => seen_insert m (fst iv + num_leaves) (hash_leaf (snd iv)))
                  (combine leaves_indices leaves_data) [] in
      match decompress_fill seen0 num_leaves 0 (height - cap_height) leaves_indices compressed_proofs with
      | None => None
      | Some seen => read_paths seen num_leaves (height - cap_height) leaves_indices
      end.

End Merkle.

Arguments mkTree {F digest}.
Arguments mt_leaves {F digest}.
Arguments mt_digests {F digest}.
Arguments mt_cap {F digest}.
Arguments mkBatch {F digest}.
Arguments bt_leaves {F digest}.
Arguments bt_digests {F digest}.
Arguments bt_cap {F digest}.
Arguments bt_leaf_heights {F digest}.
