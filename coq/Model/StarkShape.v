(* C09 / C18: the shape rules of the STARK verifier (starky/src/verifier.rs validate_proof_shape and
   check_lookup_options), the list of Merkle caps the verifier hands to the FRI verifier
   (verify_stark_proof_with_challenges: once(trace_cap).chain(auxiliary_polys_cap).chain(quotient_polys_cap))
   and the oracles of Stark::fri_instance (starky/src/stark.rs).

   Only presence (Option) and lengths matter here: a proof is abstracted to [proof_shape].
   fri_verify_initial_proof zips the per-oracle (evals, Merkle path) pairs with that list of caps and
   get_challenges observes exactly the caps that are present, so an oracle without a cap is neither
   checked against a Merkle root nor bound to the transcript: the shape rules are what makes
   "one cap per oracle" hold (Props/C09b.v). *)
From Coq Require Import ZArith List Bool Lia.
Import ListNotations.

(* what a Stark implementation and its configuration say *)
Record stark_desc : Type := mkStarkDesc {
  sd_cap_height : nat;        (* config.fri_config.cap_height *)
  sd_rate_bits : nat;         (* config.fri_config.rate_bits *)
  sd_columns : nat;           (* S::COLUMNS *)
  sd_npis : nat;              (* S::PUBLIC_INPUTS *)
  sd_uses_lookups : bool;
  sd_requires_ctls : bool;
  sd_num_lookup_helpers : nat;(* stark.num_lookup_helper_columns(config) *)
  sd_num_quotient : nat;      (* stark.num_quotient_polys(config) = quotient_degree_factor * num_challenges *)
  sd_num_ctl_helpers : nat;   (* arguments of validate_proof_shape *)
  sd_num_ctl_zs : nat;
}.

(* presence and lengths of the parts of a StarkProofWithPublicInputs *)
Record proof_shape : Type := mkProofShape {
  ps_pis : nat;
  ps_first_path : option nat; (* siblings of the first Merkle path of the first query round, if there is one *)
  ps_trace_cap : nat;
  ps_aux_cap : option nat;
  ps_quot_cap : option nat;
  ps_local : nat;
  ps_next : nat;
  ps_aux : option nat;
  ps_aux_next : option nat;
  ps_ctl_zs_first : option nat;
  ps_quot : option nat;
}.

Definition two_adicity : nat := 32.

Definition is_none {A} (o : option A) : bool := match o with None => true | Some _ => false end.

(* check_lookup_options *)
Definition check_lookup_options (s : stark_desc) (p : proof_shape) : bool :=
  if sd_uses_lookups s || sd_requires_ctls s then
    let num_aux := sd_num_lookup_helpers s + sd_num_ctl_helpers s + sd_num_ctl_zs s in
    match ps_aux_cap p, ps_aux p, ps_aux_next p with
    | Some cap, Some aux, Some auxn =>
      (match ps_ctl_zs_first p with
       | Some z => sd_requires_ctls s && Nat.eqb z (sd_num_ctl_zs s)
       | None => negb (sd_requires_ctls s)
       end)
      && Nat.eqb cap (2 ^ sd_cap_height s) && Nat.eqb aux num_aux && Nat.eqb auxn num_aux
    | _, _, _ => false
    end
  else is_none (ps_aux_cap p) && is_none (ps_aux p) && is_none (ps_aux_next p) && is_none (ps_ctl_zs_first p).

(* an optional part that has to be there exactly when the STARK has quotient polynomials *)
Definition present_iff_quotient (s : stark_desc) (o : option nat) (len : nat) : bool :=
  match o with
  | Some l => negb (Nat.eqb (sd_num_quotient s) 0) && Nat.eqb l len
  | None => Nat.eqb (sd_num_quotient s) 0
  end.

(* validate_proof_shape, in the order of the code *)
Definition validate_proof_shape (s : stark_desc) (p : proof_shape) : bool :=
  match ps_first_path p with
  | None => false
  | Some fpl =>
    let lde_bits := sd_cap_height s + fpl in
    Nat.leb (sd_rate_bits s) lde_bits && Nat.leb lde_bits two_adicity
    && Nat.eqb (ps_pis p) (sd_npis s)
    && Nat.eqb (ps_trace_cap p) (2 ^ sd_cap_height s)
    && present_iff_quotient s (ps_quot_cap p) (2 ^ sd_cap_height s)
    && Nat.eqb (ps_local p) (sd_columns s) && Nat.eqb (ps_next p) (sd_columns s)
    && present_iff_quotient s (ps_quot p) (sd_num_quotient s)
    && check_lookup_options s p
  end.

(* the rule as it stood before the repair recorded in known_findings.txt (fixed: property=C09): the
   quotient cap was optional whatever the STARK says *)
Definition validate_proof_shape_cap_optional (s : stark_desc) (p : proof_shape) : bool :=
  match ps_first_path p with
  | None => false
  | Some fpl =>
    let lde_bits := sd_cap_height s + fpl in
    Nat.leb (sd_rate_bits s) lde_bits && Nat.leb lde_bits two_adicity
    && Nat.eqb (ps_pis p) (sd_npis s)
    && Nat.eqb (ps_trace_cap p) (2 ^ sd_cap_height s)
    && (match ps_quot_cap p with None => true | Some l => Nat.eqb l (2 ^ sd_cap_height s) end)
    && Nat.eqb (ps_local p) (sd_columns s) && Nat.eqb (ps_next p) (sd_columns s)
    && present_iff_quotient s (ps_quot p) (sd_num_quotient s)
    && check_lookup_options s p
  end.

(* number of caps given to verify_fri_proof (and observed by the challenger) *)
Definition opt_count {A} (o : option A) : nat := match o with Some _ => 1 | None => 0 end.
Definition num_merkle_caps (p : proof_shape) : nat := 1 + opt_count (ps_aux_cap p) + opt_count (ps_quot_cap p).

(* number of oracles of Stark::fri_instance *)
Definition num_oracles (s : stark_desc) : nat :=
  1 + (if sd_uses_lookups s || sd_requires_ctls s then 1 else 0) + (if Nat.eqb (sd_num_quotient s) 0 then 0 else 1).

(* polynomials opened at zeta (the zeta batch of fri_instance) against the openings the proof carries *)
Definition num_zeta_openings (p : proof_shape) : nat :=
  ps_local p + match ps_aux p with Some a => a | None => 0 end + match ps_quot p with Some q => q | None => 0 end.
Definition num_zeta_polys (s : stark_desc) : nat :=
  sd_columns s
  + (if sd_uses_lookups s || sd_requires_ctls s then sd_num_lookup_helpers s + sd_num_ctl_helpers s + sd_num_ctl_zs s else 0)
  + sd_num_quotient s.

(* ---- correspondence entry point:
   starkshape cap_height rate_bits columns npis uses_lookups requires_ctls num_lookup_helpers num_quotient
              num_ctl_helpers num_ctl_zs | pis first_path trace_cap aux_cap quot_cap local next aux aux_next
              ctl_zs_first quot            (an absent optional part is -1)
   = 1 | 0 *)
Open Scope Z_scope.
Definition optlen (z : Z) : option nat := if z <? 0 then None else Some (Z.to_nat z).
Definition zbool (z : Z) : bool := negb (z =? 0).

Definition run_starkshape (a : list Z) : option (list Z) :=
  match a with
  | [ch; rb; cols; npis; ul; rc; nlh; nq; nch; ncz; pis; fp; tc; ac; qc; lo; nx; au; aun; czf; qu] =>
    let s := mkStarkDesc (Z.to_nat ch) (Z.to_nat rb) (Z.to_nat cols) (Z.to_nat npis) (zbool ul) (zbool rc)
                         (Z.to_nat nlh) (Z.to_nat nq) (Z.to_nat nch) (Z.to_nat ncz) in
    let p := mkProofShape (Z.to_nat pis) (optlen fp) (Z.to_nat tc) (optlen ac) (optlen qc) (Z.to_nat lo) (Z.to_nat nx)
                          (optlen au) (optlen aun) (optlen czf) (optlen qu) in
    Some [if validate_proof_shape s p then 1 else 0]
  | _ => None
  end.
