(* Uniform entry points (list Z -> option (list Z)) for the C12 correspondence run; used by the
   extracted model_cli and by vm_compute inside Coq.  [None] = the model says the real code panics.
   First argument of most operations: hasher id, 0 = PoseidonHash, 1 = ToyHash.
   Field elements are canonical u64; a digest is 4 field elements; lists carry their lengths. *)
From Coq Require Import ZArith List Bool.
From Verif Require Import Base.Field Model.Fp Model.Merkle Model.MerklePoseidonInst.
Import ListNotations.
Open Scope Z_scope.

Definition digest : Type := list Fp.

Definition HL (hid : Z) : list Fp -> digest :=
  if hid =? 0 then poseidon_hash_or_noop else toy_hash_or_noop.
Definition TT (hid : Z) : digest -> digest -> digest :=
  if hid =? 0 then poseidon_two_to_one else toy_two_to_one.
Definition TV (d : digest) : list Fp := d.

(* ---- parsing helpers ---- *)
Definition take (n : nat) (l : list Z) : option (list Z * list Z) :=
  if (n <=? length l)%nat then Some (firstn n l, skipn n l) else None.

(* n groups of w numbers *)
Fixpoint groups (n w : nat) (l : list Z) : option (list (list Z) * list Z) :=
  match n with
  | O => Some ([], l)
  | S n' =>
    match take w l with
    | None => None
    | Some (g, r) =>
      match groups n' w r with
      | None => None
      | Some (gs, r') => Some (g :: gs, r')
      end
    end
  end.

Definition fps (l : list Z) : list Fp := map toFp l.
Definition zs (l : list Fp) : list Z := map fval l.
Definition flat (ds : list digest) : list Z := concat (map zs ds).
Definition nat_of (z : Z) : nat := Z.to_nat z.

(* n length-prefixed digest lists: len d.. len d.. *)
Fixpoint lp_lists (n : nat) (l : list Z) : option (list (list digest) * list Z) :=
  match n with
  | O => Some ([], l)
  | S n' =>
    match l with
    | [] => None
    | len :: r =>
      match groups (nat_of len) 4 r with
      | None => None
      | Some (ds, r') =>
        match lp_lists n' r' with
        | None => None
        | Some (ps, r'') => Some (map fps ds :: ps, r'')
        end
      end
    end
  end.

Definition lp_out (ps : list (list digest)) : list Z :=
  concat (map (fun p => Z.of_nat (length p) :: flat p) ps).

Definition vres_out (v : vres) : option (list Z) :=
  match v with VOk => Some [1] | VErr => Some [0] | VPanic => None end.

Fixpoint all_some {A} (l : list (option A)) : option (list A) :=
  match l with
  | [] => Some []
  | Some a :: r => option_map (cons a) (all_some r)
  | None :: _ => None
  end.

(* ---- plain trees ---- *)
(* cap hid cap_height n w leaf_0 .. leaf_{n-1} *)
Definition run_cap (a : list Z) : option (list Z) :=
  match a with
  | hid :: h :: n :: w :: r =>
    match groups (nat_of n) (nat_of w) r with
    | Some (ls, []) =>
      option_map flat (merkle_cap Fp digest (HL hid) (TT hid) (map fps ls) (nat_of h))
    | _ => None
    end
  | _ => None
  end.

(* prove hid cap_height n w i leaves : the siblings of MerkleTree::new(leaves, h).prove(i) *)
Definition run_prove (a : list Z) : option (list Z) :=
  match a with
  | hid :: h :: n :: w :: i :: r =>
    match groups (nat_of n) (nat_of w) r with
    | Some (ls, []) =>
      option_map flat (merkle_prove Fp digest (HL hid) (TT hid) (map fps ls) (nat_of h) (nat_of i))
    | _ => None
    end
  | _ => None
  end.

(* proveall hid cap_height n w leaves : prove(0) ++ .. ++ prove(n-1) (one tree construction) *)
Definition run_proveall (a : list Z) : option (list Z) :=
  match a with
  | hid :: h :: n :: w :: r =>
    match groups (nat_of n) (nat_of w) r with
    | Some (ls, []) =>
      match merkle_tree_new Fp digest (HL hid) (TT hid) (map fps ls) (nat_of h) with
      | None => None
      | Some t =>
        option_map (fun ps => concat (map flat ps))
                   (all_some (map (tree_prove Fp digest false t) (seq 0 (nat_of n))))
      end
    | _ => None
    end
  | _ => None
  end.

(* verify hid i w ncap nsib leaf(w) cap(4*ncap) siblings(4*nsib) -> 1 (Ok) | 0 (Err) | panic *)
Definition run_verify (a : list Z) : option (list Z) :=
  match a with
  | hid :: i :: w :: ncap :: nsib :: r =>
    match take (nat_of w) r with
    | Some (leaf, r1) =>
      match groups (nat_of ncap) 4 r1 with
      | Some (cap, r2) =>
        match groups (nat_of nsib) 4 r2 with
        | Some (sibs, []) =>
          vres_out (verify_merkle_proof_to_cap_res Fp digest (HL hid) (TT hid) digest_eqb
                      (fps leaf) (nat_of i) (map fps cap) (map fps sibs))
        | _ => None
        end
      | None => None
      end
    | None => None
    end
  | _ => None
  end.

(* ---- path compression ---- *)
(* compress cap_height m idx_1..idx_m  (len d..)*m  ->  (len d..)*m *)
Definition run_compress (a : list Z) : option (list Z) :=
  match a with
  | h :: m :: r =>
    match take (nat_of m) r with
    | Some (idx, r1) =>
      match lp_lists (nat_of m) r1 with
      | Some (ps, []) =>
        option_map lp_out (compress_merkle_proofs digest (nat_of h) (map nat_of idx) ps)
      | _ => None
      end
    | None => None
    end
  | _ => None
  end.

(* decompress hid height cap_height m w idx_1..idx_m leaf_1..leaf_m (len d..)*m -> (len d..)*m *)
Definition run_decompress (a : list Z) : option (list Z) :=
  match a with
  | hid :: height :: h :: m :: w :: r =>
    match take (nat_of m) r with
    | Some (idx, r1) =>
      match groups (nat_of m) (nat_of w) r1 with
      | Some (ls, r2) =>
        match lp_lists (nat_of m) r2 with
        | Some (ps, []) =>
          option_map lp_out
            (decompress_merkle_proofs Fp digest (HL hid) (TT hid) (map fps ls) (map nat_of idx) ps
                                      (nat_of height) (nat_of h))
        | _ => None
        end
      | None => None
      end
    | None => None
    end
  | _ => None
  end.

(* ---- batch trees ---- *)
(* layer shapes: (n_j w_j)*nl then the data of each layer *)
Fixpoint shapes (nl : nat) (l : list Z) : option (list (nat * nat) * list Z) :=
  match nl with
  | O => Some ([], l)
  | S nl' =>
    match l with
    | n :: w :: r =>
      match shapes nl' r with
      | Some (ss, r') => Some ((nat_of n, nat_of w) :: ss, r')
      | None => None
      end
    | _ => None
    end
  end.

Fixpoint layers_data (ss : list (nat * nat)) (l : list Z) : option (list (list (list Fp)) * list Z) :=
  match ss with
  | [] => Some ([], l)
  | (n, w) :: ss' =>
    match groups n w l with
    | None => None
    | Some (m, r) =>
      match layers_data ss' r with
      | None => None
      | Some (ms, r') => Some (map fps m :: ms, r')
      end
    end
  end.

Definition parse_batch (nl : Z) (r : list Z) : option (list (list (list Fp))) :=
  match shapes (nat_of nl) r with
  | Some (ss, r1) =>
    match layers_data ss r1 with
    | Some (ms, []) => Some ms
    | _ => None
    end
  | None => None
  end.

(* bcap hid cap_height nl (n_j w_j)* data *)
Definition run_bcap (a : list Z) : option (list Z) :=
  match a with
  | hid :: h :: nl :: r =>
    match parse_batch nl r with
    | Some ms =>
      option_map (fun t => flat (bt_cap t))
                 (batch_merkle_tree_new Fp digest (HL hid) (TT hid) TV ms (nat_of h))
    | None => None
    end
  | _ => None
  end.

(* bopen hid cap_height i nl (n_j w_j)* data : siblings of open_batch(i) *)
Definition run_bopen (a : list Z) : option (list Z) :=
  match a with
  | hid :: h :: i :: nl :: r =>
    match parse_batch nl r with
    | Some ms =>
      match batch_merkle_tree_new Fp digest (HL hid) (TT hid) TV ms (nat_of h) with
      | Some t => option_map flat (open_batch Fp digest false t (nat_of i))
      | None => None
      end
    | None => None
    end
  | _ => None
  end.

(* bopenall hid cap_height nl (n_j w_j)* data : open_batch(0) ++ .. ++ open_batch(n_0 - 1) *)
Definition run_bopenall (a : list Z) : option (list Z) :=
  match a with
  | hid :: h :: nl :: r =>
    match parse_batch nl r with
    | Some ms =>
      match batch_merkle_tree_new Fp digest (HL hid) (TT hid) TV ms (nat_of h) with
      | Some t =>
        option_map (fun ps => concat (map flat ps))
                   (all_some (map (open_batch Fp digest false t) (seq 0 (length (hd [] ms)))))
      | None => None
      end
    | None => None
    end
  | _ => None
  end.

(* bverify hid i nl (height_j w_j)* ncap nsib leaf_1(w_1) .. leaf_nl(w_nl) cap siblings *)
Fixpoint batch_leaves (ss : list (nat * nat)) (l : list Z) : option (list (list Fp) * list Z) :=
  match ss with
  | [] => Some ([], l)
  | (_, w) :: ss' =>
    match take w l with
    | None => None
    | Some (v, r) =>
      match batch_leaves ss' r with
      | None => None
      | Some (vs, r') => Some (fps v :: vs, r')
      end
    end
  end.

Definition run_bverify (a : list Z) : option (list Z) :=
  match a with
  | hid :: i :: nl :: r =>
    match shapes (nat_of nl) r with
    | Some (ss, ncap :: nsib :: r1) =>
      match batch_leaves ss r1 with
      | Some (vs, r2) =>
        match groups (nat_of ncap) 4 r2 with
        | Some (cap, r3) =>
          match groups (nat_of nsib) 4 r3 with
          | Some (sibs, []) =>
            vres_out (verify_batch_merkle_proof_to_cap Fp digest (HL hid) (TT hid) digest_eqb TV false
                        vs (map fst ss) (nat_of i) (map fps cap) (map fps sibs))
          | _ => None
          end
        | None => None
        end
      | None => None
      end
    | _ => None
    end
  | _ => None
  end.

(* the two hash primitives themselves (ties the local Poseidon copy / ToyHash to the harness) *)
(* hashleaf hid x.. -> hash_or_noop ; twoto1 hid a(4) b(4) *)
Definition run_hashleaf (a : list Z) : option (list Z) :=
  match a with hid :: r => Some (zs (HL hid (fps r))) | _ => None end.
Definition run_twoto1 (a : list Z) : option (list Z) :=
  match a with
  | [hid; a0; a1; a2; a3; b0; b1; b2; b3] => Some (zs (TT hid (fps [a0; a1; a2; a3]) (fps [b0; b1; b2; b3])))
  | _ => None
  end.
