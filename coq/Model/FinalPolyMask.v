(* C11: the constraint that verify_fri_proof_with_multiple_degree_bits (plonky2/src/fri/recursive_verifier.rs)
   puts on the final polynomial of a proof whose degree is below the circuit's maximum (added by the repair
   d58b66f; before it the coefficients above the proof's own length were free):

     final_bits = current_degree_bits - sum of the arities of the active steps        (a target)
     one_hot    = bits of 2^final_bits, max_final_bits + 1 of them                      (split_le)
     allowed    = 0
     for k in (0..max_final_bits).rev():
         allowed += one_hot[k + 1]                      -- allowed = [final_bits > k]
         for j in 2^k .. 2^(k+1):  assert  final_poly[j] * (1 - allowed) = 0   (per limb)

   Model: the one-hot bits as field elements, [allowed] as the sum the loop has accumulated when it is at k,
   the assertions as a predicate on the list of coefficients (one limb; the code repeats it per limb). *)
From Coq Require Import List Arith.
From Verif Require Import Base.Field.
Import ListNotations.

Section Mask.
  Context {F : Type} `{FO : FieldOps F}.
  Local Open Scope field_scope.

  (* bit i of 2^final_bits *)
  Definition one_hot (final_bits i : nat) : F := if Nat.eqb i final_bits then 1 else 0.

  (* allowed when the loop is at k: one_hot[max] + ... + one_hot[k+1] *)
  Definition allowed (final_bits max_final_bits k : nat) : F :=
    fold_right fadd 0 (map (one_hot final_bits) (seq (S k) (max_final_bits - k))).

  (* every assertion of the loop *)
  Definition mask_constraints (final_bits max_final_bits : nat) (coeffs : list F) : Prop :=
    forall k, (k < max_final_bits)%nat ->
      forall j, (2 ^ k <= j < 2 ^ S k)%nat ->
        nth j coeffs 0 * (1 - allowed final_bits max_final_bits k) = 0.

  (* what the native validate_fri_proof_shape demands of a proof of that degree, read on the zero-padded
     coefficient list of the circuit: nothing beyond 2^final_bits *)
  Definition length_bound (final_bits max_final_bits : nat) (coeffs : list F) : Prop :=
    forall j, (2 ^ final_bits <= j < 2 ^ max_final_bits)%nat -> nth j coeffs 0 = 0.
End Mask.
