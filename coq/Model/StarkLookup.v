(* C10: logUp lookups (starky/src/lookup.rs) and cross-table lookups
   (starky/src/cross_table_lookup.rs), over an abstract field.

   As in the code:
   - a [column] is a linear combination of current-row and next-row trace cells plus a constant;
     [col_eval] reads the current row only (Column::eval), [col_eval_with_next] both rows,
     [col_eval_table] a row of the trace with the next row taken cyclically;
   - a [filter] is a sum of products of two columns plus a sum of columns;
   - helper columns batch [constraint_degree - 1] looking columns (checked_sub(1).unwrap_or(1):
     degree 0 batches 1, degree 1 divides by zero = panic); only batches of one and two are
     implemented in the constraints (todo!() otherwise = panic);
   - there is no committed column for 1/(table + challenge): the Z constraint is
     (Z(next) - Z) * (t + x) - ((sum of helpers) * (t + x) - m) on EVERY row;
   - the lookup Z is a forward running sum starting at 0, the CTL Z a reverse running sum whose
     first entry is the total.
   [None] = the real code panics (index out of range, inverse of zero, todo!()). *)
From Coq Require Import ZArith List Bool Lia.
From Verif Require Import Base.Field Model.Stark.
Import ListNotations.
Local Open Scope field_scope.

Section Lookup.
  Context {F : Type} `{FO : FieldOps F}.

  Record column : Type := mkColumn { c_lin : list (nat * F); c_next : list (nat * F); c_const : F }.
  Record filter : Type := mkFilter { f_products : list (column * column); f_constants : list column }.
  Record lookup : Type := mkLookup {
    l_columns : list column; l_table : column; l_freq : column; l_filters : list filter }.

  Definition obind {A B} (o : option A) (k : A -> option B) : option B :=
    match o with Some a => k a | None => None end.
  Notation "'odo' x <- m ;; k" := (obind m (fun x => k)) (at level 200, x pattern, right associativity).

  Fixpoint omap {A B} (f : A -> option B) (l : list A) : option (list B) :=
    match l with
    | [] => Some []
    | a :: t => odo b <- f a ;; odo bs <- omap f t ;; Some (b :: bs)
    end.

  (* sum_{(c, k)} v[c] * k *)
  Fixpoint lin_eval (v : list F) (l : list (nat * F)) : option F :=
    match l with
    | [] => Some 0
    | (c, k) :: t => odo x <- nth_error v c ;; odo s <- lin_eval v t ;; Some (x * k + s)
    end.

  (* Column::eval: the current row only *)
  Definition col_eval (c : column) (v : list F) : option F :=
    odo s <- lin_eval v (c_lin c) ;; Some (s + c_const c).
  (* Column::eval_with_next *)
  Definition col_eval_with_next (c : column) (v nv : list F) : option F :=
    odo s <- lin_eval v (c_lin c) ;; odo s' <- lin_eval nv (c_next c) ;; Some (s + s' + c_const c).
  (* Column::eval_table on row r of a trace given by rows; next row = (r + 1) % len *)
  Definition col_eval_table (c : column) (rows : list (list F)) (r : nat) : option F :=
    col_eval_with_next c (nth r rows []) (nth (S r mod length rows) rows []).

  Fixpoint osum (l : list (option F)) : option F :=
    match l with [] => Some 0 | o :: t => odo x <- o ;; odo s <- osum t ;; Some (x + s) end.

  (* Filter::eval_filter / eval_table *)
  Definition filter_eval (f : filter) (v nv : list F) : option F :=
    odo p <- osum (map (fun ab => odo a <- col_eval_with_next (fst ab) v nv ;;
                                  odo b <- col_eval_with_next (snd ab) v nv ;; Some (a * b)) (f_products f)) ;;
    odo c <- osum (map (fun c => col_eval_with_next c v nv) (f_constants f)) ;;
    Some (p + c).
  Definition filter_eval_table (f : filter) (rows : list (list F)) (r : nat) : option F :=
    filter_eval f (nth r rows []) (nth (S r mod length rows) rows []).

  (* GrandProductChallenge::combine = reduce_with_powers(terms, beta) + gamma *)
  Definition gp_combine (beta gamma : F) (terms : list F) : F := reduce_with_powers terms beta + gamma.

  (* slice::chunks for any element type *)
  Fixpoint chunks_of {A} (fuel k : nat) (l : list A) : list (list A) :=
    match fuel with
    | O => []
    | S fuel' => match l with [] => [] | _ => firstn k l :: chunks_of fuel' k (skipn k l) end
    end.
  Definition chunk_size (constraint_degree : nat) : nat :=
    match constraint_degree with O => 1 | S d => d end.

  Definition fsum_list (l : list F) : F := fold_right fadd 0 l.

  (* ---------------------------------------------------------------- prover side *)

  (* get_helper_cols: for each chunk of (columns, filter) pairs one column
       h[d] = sum_j filter_j(d) / combine(columns_j evaluated on row d)
     batch_multiplicative_inverse panics on a zero *)
  Definition helper_entry (rows : list (list F)) (beta gamma : F) (cf : list column * filter) (d : nat) : option F :=
    odo evals <- omap (fun c => col_eval_table c rows d) (fst cf) ;;
    let comb := gp_combine beta gamma evals in
    if (comb =? 0) then None else
    odo f <- filter_eval_table (snd cf) rows d ;;
    Some (finv comb * f).

  Definition helper_col (rows : list (list F)) (beta gamma : F) (chunk : list (list column * filter)) : option (list F) :=
    omap (fun d => odo es <- omap (fun cf => helper_entry rows beta gamma cf d) chunk ;; Some (fsum_list es))
         (seq 0 (length rows)).

  Definition get_helper_cols (rows : list (list F)) (cfs : list (list column * filter)) (beta gamma : F)
             (constraint_degree : nat) : option (list (list F)) :=
    match chunk_size constraint_degree with
    | O => None                                    (* div_ceil(0) / chunks(0) *)
    | k => omap (helper_col rows beta gamma) (chunks_of (length cfs) k cfs)
    end.

  (* the forward running sum of lookup_helper_columns: z[0] = 0, z[i+1] = z[i] + x_i *)
  Fixpoint running (acc : F) (xs : list F) : list F :=
    match xs with [] => [] | x :: t => acc :: running (acc + x) t end.

  Definition nth_col (cols : list (list F)) (i : nat) : F := fsum_list (map (fun col => nth i col 0) cols).

  (* lookup_helper_columns: helper columns, then Z *)
  Definition lookup_helper_columns (lk : lookup) (rows : list (list F)) (challenge : F) (constraint_degree : nat)
    : option (list (list F)) :=
    if negb (Nat.eqb (length (l_columns lk)) (length (l_filters lk))) then None else
    let cfs := combine (map (fun c => [c]) (l_columns lk)) (l_filters lk) in
    odo helpers <- get_helper_cols rows cfs 1 challenge constraint_degree ;;
    odo table <- omap (fun r => col_eval_table (l_table lk) rows r) (seq 0 (length rows)) ;;
    let tc := map (fun t => challenge + t) table in
    if existsb (fun t => t =? 0) tc then None else
    odo freqs <- omap (fun r => col_eval_table (l_freq lk) rows r) (seq 0 (length rows)) ;;
    let steps := map (fun i => nth_col helpers i - nth i freqs 0 * finv (nth i tc 0)) (seq 0 (length rows)) in
    match rows with
    | [] => None                                   (* frequencies.len() - 1 underflows *)
    | _ => Some (helpers ++ [running 0 steps])
    end.

  (* partial_sums of cross_table_lookup.rs: reverse running sum; the helper columns are kept only
     when the table occurs more than once *)
  Fixpoint suffix_sums (xs : list F) : list F :=
    match xs with
    | [] => []
    | x :: t => match suffix_sums t with
                | [] => [x]
                | (s :: _) as rest => (s + x) :: rest
                end
    end.

  Definition partial_sums (rows : list (list F)) (cfs : list (list column * filter)) (beta gamma : F)
             (constraint_degree : nat) : option (list (list F)) :=
    match rows with
    | [] => None
    | _ =>
      odo helpers <- get_helper_cols rows cfs beta gamma constraint_degree ;;
      let z := suffix_sums (map (nth_col helpers) (seq 0 (length rows))) in
      if (1 <? length cfs)%nat then Some (helpers ++ [z]) else Some [z]
    end.

  (* ---------------------------------------------------------------- constraints *)

  (* eval_helper_columns: one constraint per chunk *)
  Fixpoint eval_helper_chunks (cks : list (list (list F))) (fks : list (list filter)) (hs : list F)
           (lv nv : list F) (beta gamma : F) (c : consumer) : option consumer :=
    match cks, fks, hs with
    | ck :: cks', fk :: fks', h :: hs' =>
      match ck, fk with
      | [e0; e1], f0 :: f1 :: _ =>
        let combin0 := gp_combine beta gamma e0 in
        let combin1 := gp_combine beta gamma e1 in
        odo v0 <- filter_eval f0 lv nv ;; odo v1 <- filter_eval f1 lv nv ;;
        eval_helper_chunks cks' fks' hs' lv nv beta gamma
          (constraint c (combin1 * combin0 * h - v0 * combin1 - v1 * combin0))
      | [e0], f0 :: _ =>
        let combin := gp_combine beta gamma e0 in
        odo v0 <- filter_eval f0 lv nv ;;
        eval_helper_chunks cks' fks' hs' lv nv beta gamma (constraint c (combin * h - v0))
      | _, _ => None                               (* todo!() / fs[i] out of range *)
      end
    | _, _, _ => Some c                            (* zip stops at the shortest *)
    end.

  Definition eval_helper_columns (fs : list filter) (cols : list (list F)) (lv nv : list F) (hs : list F)
             (constraint_degree : nat) (beta gamma : F) (c : consumer) : option consumer :=
    match hs with
    | [] => Some c
    | _ => match chunk_size constraint_degree with
           | O => None
           | k => eval_helper_chunks (chunks_of (length cols) k cols) (chunks_of (length fs) k fs) hs lv nv beta gamma c
           end
    end.

  Definition slice {A} (l : list A) (a b : nat) : option (list A) :=
    if (b <? a)%nat || (length l <? b)%nat then None else Some (firstn (b - a) (skipn a l)).

  (* Lookup::num_helper_columns *)
  Definition num_helper_columns (lk : lookup) (constraint_degree : nat) : option nat :=
    match chunk_size constraint_degree with
    | O => None
    | k => Some ((length (l_columns lk) + k - 1) / k + 1)%nat
    end.

  (* eval_packed_lookups_generic: for each lookup, for each challenge *)
  Fixpoint eval_lookup_challenges (lk : lookup) (nh : nat) (chs : list F) (lv nv auxl auxn : list F)
           (degree start : nat) (c : consumer) : option (consumer * nat) :=
    match chs with
    | [] => Some (c, start)
    | ch :: chs' =>
      odo lcols <- omap (fun col => odo v <- col_eval_with_next col lv nv ;; Some [v]) (l_columns lk) ;;
      odo hs <- slice auxl start (start + nh - 1) ;;
      odo c1 <- eval_helper_columns (l_filters lk) lcols lv nv hs degree 1 ch c ;;
      odo z <- nth_error auxl (start + nh - 1) ;;
      odo nz <- nth_error auxn (start + nh - 1) ;;
      (* table and frequency columns with their next-row part, as the prover evaluates them (Column::eval_table);
         until the repair recorded in known_findings.txt (fixed: property=C10, lookup.rs) the constraints used
         Column::eval, the current row only *)
      odo t <- col_eval_with_next (l_table lk) lv nv ;;
      let twc := t + ch in
      odo fr <- col_eval_with_next (l_freq lk) lv nv ;;
      let y := fold_left (fun acc x => acc + x) hs 0 * twc - fr in
      let c2 := constraint_first_row c1 z in
      let c3 := constraint c2 ((nz - z) * twc - y) in
      eval_lookup_challenges lk nh chs' lv nv auxl auxn degree (start + nh) c3
    end.

  Fixpoint eval_packed_lookups (lks : list lookup) (chs : list F) (lv nv auxl auxn : list F)
           (degree start : nat) (c : consumer) : option consumer :=
    match lks with
    | [] => Some c
    | lk :: lks' =>
      odo nh <- num_helper_columns lk degree ;;
      match nh with
      | O => None
      | _ => odo r <- eval_lookup_challenges lk nh chs lv nv auxl auxn degree start c ;;
             eval_packed_lookups lks' chs lv nv auxl auxn degree (snd r) (fst r)
      end
    end.

  (* eval_cross_table_lookup_checks for one CtlCheckVars *)
  Definition eval_ctl_check (hs : list F) (local_z next_z : F) (beta gamma : F)
             (cols : list (list column)) (fs : list filter) (lv nv : list F) (degree : nat) (c : consumer)
    : option consumer :=
    odo evals <- omap (fun col => omap (fun cc => col_eval_with_next cc lv nv) col) cols ;;
    odo c1 <- eval_helper_columns fs evals lv nv hs degree beta gamma c ;;
    match hs with
    | _ :: _ =>
      let h_sum := fold_left (fun acc x => acc + x) hs 0 in
      Some (constraint_transition (constraint_last_row c1 (local_z - h_sum)) (local_z - next_z - h_sum))
    | [] =>
      match evals, fs with
      | e0 :: e1 :: _, f0 :: f1 :: _ =>
        let combin0 := gp_combine beta gamma e0 in
        let combin1 := gp_combine beta gamma e1 in
        odo v0 <- filter_eval f0 lv nv ;; odo v1 <- filter_eval f1 lv nv ;;
        Some (constraint_transition
                (constraint_last_row c1 (combin0 * combin1 * local_z - v0 * combin1 - v1 * combin0))
                (combin0 * combin1 * (local_z - next_z) - v0 * combin1 - v1 * combin0))
      | [e0], f0 :: _ =>
        let combin0 := gp_combine beta gamma e0 in
        odo v0 <- filter_eval f0 lv nv ;;
        Some (constraint_transition (constraint_last_row c1 (combin0 * local_z - v0))
                                    (combin0 * (local_z - next_z) - v0))
      | _, _ => None
      end
    end.

  (* ---------------------------------------------------------------- verify_cross_table_lookups *)

  (* one iterator per table over its first-row openings *)
  Definition take_next (its : list (list F)) (t : nat) : option (F * list (list F)) :=
    match nth_error its t with
    | Some (x :: rest) => Some (x, firstn t its ++ [rest] ++ skipn (S t) its)
    | _ => None                                    (* index out of range / next().unwrap() on None *)
    end.

  Fixpoint dedup_nat (l : list nat) (seen : list nat) : list nat :=
    match l with
    | [] => []
    | t :: r => if existsb (Nat.eqb t) seen then dedup_nat r seen else t :: dedup_nat r (seen ++ [t])
    end.

  Fixpoint sum_looking (its : list (list F)) (ts : list nat) : option (F * list (list F)) :=
    match ts with
    | [] => Some (0, its)
    | t :: r => odo p <- take_next its t ;; odo q <- sum_looking (snd p) r ;; Some (fst p + fst q, snd q)
    end.

  (* per CTL: (looking table indices, looked table index, extra looking sums) *)
  Definition ctl_decl : Type := (list nat * nat * option (list F))%type.

  Fixpoint ctl_challenges (nch c : nat) (filtered : list nat) (looked : nat) (extra : option (list F))
           (its : list (list F)) : option (bool * list (list F)) :=
    match nch with
    | O => Some (true, its)
    | S nch' =>
      odo p <- sum_looking its filtered ;;
      odo ex <- match extra with None => Some 0 | Some v => nth_error v c end ;;
      odo q <- take_next (snd p) looked ;;
      if (fst p + ex =? fst q) then ctl_challenges nch' (S c) filtered looked extra (snd q)
      else Some (false, snd q)
    end.

  (* Some true = Ok, Some false = Err, None = panic *)
  Fixpoint verify_ctl_sums (ctls : list ctl_decl) (nch : nat) (its : list (list F)) : option bool :=
    match ctls with
    | [] => Some true
    | (looking, looked, extra) :: r =>
      odo p <- ctl_challenges nch 0 (dedup_nat looking []) looked extra its ;;
      if fst p then verify_ctl_sums r nch (snd p) else Some false
    end.

End Lookup.
