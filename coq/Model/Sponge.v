(* C13 - hashing.rs / config.rs: the overwrite-mode sponge (rate 8, capacity 4, width 12) over an
   abstract permutation [permute : list F -> list F] (a state is a list; the Rust type is
   [F; 12], so theorems carry the hypothesis [forall s, length (permute s) = 12] where the
   width matters).
     hash_n_to_m_no_pad, hash_n_to_hash_no_pad, compress (two_to_one), hash_or_noop, hash_pad
   and the Poseidon instances poseidon_hash_no_pad / poseidon_two_to_one / ... *)
From Coq Require Import ZArith List Arith.
From Verif Require Import Base.Field Model.Fp Model.Poseidon.
Import ListNotations.

Definition SPONGE_RATE : nat := 8.
Definition SPONGE_WIDTH : nat := 12.
Definition NUM_HASH_OUT_ELTS : nat := 4.

Section PermState.
  Context {T : Type}.

  (* PlonkyPermutation::set_from_slice: self.state[start..start + elts.len()].copy_from_slice(elts).
     The Rust slice indexing panics when start + len > WIDTH: None. *)
  Definition set_from_slice (st elts : list T) (start : nat) : option (list T) :=
    if Nat.leb (start + length elts) (length st)
    then Some (firstn start st ++ elts ++ skipn (start + length elts) st)
    else None.

  (* set_from_iter: for (s, e) in self.state[start..].iter_mut().zip(elts) { *s = e }
     (zip stops at the shorter side: never panics for start <= WIDTH) *)
  Fixpoint zip_over (st elts : list T) : list T :=
    match st, elts with
    | _ :: st', e :: elts' => e :: zip_over st' elts'
    | _, _ => st
    end.
  Definition set_from_iter (st elts : list T) (start : nat) : list T :=
    firstn start st ++ zip_over (skipn start st) elts.

  (* the common case of both at start = 0 with at most RATE <= WIDTH elements *)
  Definition overwrite (st elts : list T) : list T := elts ++ skipn (length elts) st.

  (* squeeze: &self.state[..RATE] *)
  Definition squeeze (st : list T) : list T := firstn SPONGE_RATE st.
End PermState.

Section Sponge.
  Context {F : Type} `{FO : FieldOps F}.
  Variable permute : list F -> list F.
  Local Open Scope field_scope.

  Definition zero_state : list F := repeat 0 SPONGE_WIDTH.

  (* for input_chunk in inputs.chunks(RATE) { perm.set_from_slice(input_chunk, 0); perm.permute() }
     (fuel = number of inputs is enough; a chunk has 1..8 elements, so set_from_slice cannot fail
     on a 12-element state: it is [overwrite]) *)
  Fixpoint absorb_chunks (fuel : nat) (st inputs : list F) : list F :=
    match fuel with
    | O => st
    | S fuel' =>
      match inputs with
      | [] => st
      | _ => absorb_chunks fuel' (permute (overwrite st (firstn SPONGE_RATE inputs)))
                           (skipn SPONGE_RATE inputs)
      end
    end.
  Definition absorb (st inputs : list F) : list F := absorb_chunks (length inputs) st inputs.

  (* loop { for &item in perm.squeeze() { outputs.push(item); if outputs.len() == n { return } }
            perm.permute() }
     with n >= 1 outputs still wanted; fuel bounds the number of permutations *)
  Fixpoint squeeze_loop (fuel : nat) (st : list F) (n : nat) : list F :=
    if Nat.leb n SPONGE_RATE then firstn n (squeeze st)
    else match fuel with
         | O => squeeze st
         | S fuel' => squeeze st ++ squeeze_loop fuel' (permute st) (n - SPONGE_RATE)
         end.

  (* hash_n_to_m_no_pad.  With num_outputs = 0 the Rust loop never reaches
     `outputs.len() == num_outputs` (the test comes after a push) and does not terminate: None. *)
  Definition hash_n_to_m_no_pad (inputs : list F) (num_outputs : nat) : option (list F) :=
    match num_outputs with
    | O => None
    | _ => Some (squeeze_loop num_outputs (absorb zero_state inputs) num_outputs)
    end.

  (* HashOut::from_vec(hash_n_to_m_no_pad(inputs, 4)) *)
  Definition hash_n_to_hash_no_pad (inputs : list F) : list F :=
    squeeze_loop NUM_HASH_OUT_ELTS (absorb zero_state inputs) NUM_HASH_OUT_ELTS.

  (* compress: perm = zeros; set_from_slice(x, 0); set_from_slice(y, 4); permute; squeeze()[..4].
     x and y are HashOut values (4 elements each by type); for other lengths the slice copy
     panics (None). *)
  Definition compress (x y : list F) : option (list F) :=
    if (Nat.eqb (length x) NUM_HASH_OUT_ELTS && Nat.eqb (length y) NUM_HASH_OUT_ELTS)%bool then
      match set_from_slice zero_state x 0 with
      | None => None
      | Some st1 =>
        match set_from_slice st1 y NUM_HASH_OUT_ELTS with
        | None => None
        | Some st2 => Some (firstn NUM_HASH_OUT_ELTS (squeeze (permute st2)))
        end
      end
    else None.

  (* two_to_one on well-typed digests, total *)
  Definition two_to_one (x y : list F) : list F :=
    firstn NUM_HASH_OUT_ELTS (squeeze (permute (x ++ y ++ repeat 0 (SPONGE_WIDTH - 2 * NUM_HASH_OUT_ELTS)))).

  (* Hasher::hash_or_noop (HASH_SIZE = 32 bytes): at most 4 elements are zero-padded to a
     digest (through their canonical byte encoding), longer inputs are hashed *)
  Definition hash_or_noop (inputs : list F) : list F :=
    if Nat.leb (length inputs * 8) 32
    then inputs ++ repeat 0 (NUM_HASH_OUT_ELTS - length inputs)
    else hash_n_to_hash_no_pad inputs.

  (* Hasher::hash_pad: push ONE; while (len + 1) % RATE != 0 push ZERO; push ONE *)
  Fixpoint pad_zeros (fuel : nat) (l : list F) : list F :=
    match fuel with
    | O => l
    | S fuel' => if Nat.eqb ((length l + 1) mod SPONGE_RATE) 0 then l else pad_zeros fuel' (l ++ [0])
    end.
  Definition pad10star1 (input : list F) : list F := pad_zeros SPONGE_RATE (input ++ [1]) ++ [1].
  Definition hash_pad (input : list F) : list F := hash_n_to_hash_no_pad (pad10star1 input).

  (* ---- the textbook overwrite-mode sponge, for the theorem hash_no_pad_is_overwrite_sponge *)
  Fixpoint chunks_of (fuel : nat) (l : list F) : list (list F) :=
    match fuel with
    | O => []
    | S fuel' => match l with [] => [] | _ => firstn SPONGE_RATE l :: chunks_of fuel' (skipn SPONGE_RATE l) end
    end.
  Definition rate_chunks (l : list F) : list (list F) := chunks_of (length l) l.
  (* absorbing a chunk: the first |chunk| state elements are REPLACED by the chunk *)
  Definition sponge_absorb (chunks : list (list F)) : list F :=
    fold_left (fun st c => permute (c ++ skipn (length c) st)) chunks zero_state.
  (* output stream: the rate parts of st, permute st, permute (permute st), ... *)
  Fixpoint sponge_stream (blocks : nat) (st : list F) : list F :=
    match blocks with
    | O => []
    | S b => firstn SPONGE_RATE st ++ sponge_stream b (permute st)
    end.
  Definition overwrite_sponge (inputs : list F) (m : nat) : list F :=
    firstn m (sponge_stream (S (m / SPONGE_RATE)) (sponge_absorb (rate_chunks inputs))).
End Sponge.

(* ------------------------------------------------------------------ Poseidon instances *)
Definition poseidon_hash_no_pad : list Fp -> list Fp := hash_n_to_hash_no_pad poseidon_fp.
Definition poseidon_hash_n_to_m_no_pad : list Fp -> nat -> option (list Fp) := hash_n_to_m_no_pad poseidon_fp.
Definition poseidon_two_to_one : list Fp -> list Fp -> list Fp := two_to_one poseidon_fp.
Definition poseidon_compress : list Fp -> list Fp -> option (list Fp) := compress poseidon_fp.
Definition poseidon_hash_or_noop : list Fp -> list Fp := hash_or_noop poseidon_fp.
Definition poseidon_hash_pad : list Fp -> list Fp := hash_pad poseidon_fp.
