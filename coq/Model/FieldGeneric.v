(* Hand-written model of the generic (trait-default) field code of field/src/types.rs and
   field/src/extension/{mod,quadratic,quartic,quintic}.rs over an abstract FieldOps.
   Tied to the implementation by the C14 correspondence run (ops expu64, inv2exp, batchinv,
   extNinv, extNfrob, extNsq). *)
From Coq Require Import ZArith List Lia.
From Verif Require Import Base.Field.
Import ListNotations.

Section Generic.
  Context {F : Type} `{FO : FieldOps F}.
  Local Open Scope field_scope.

  Definition fsquare (x : F) : F := x * x.
  Definition fdouble (x : F) : F := x + x.

  (* exp_u64: for j in 0..bits_u64(power): if bit j then product *= current; current = current^2 *)
  Fixpoint exp_bits (bits : nat) (power : N) (current product : F) : F :=
    match bits with
    | O => product
    | S b =>
      let product' := if N.odd power then product * current else product in
      exp_bits b (N.div2 power) (fsquare current) product'
    end.
  Definition bits_u64 (n : N) : nat := N.to_nat (N.size n).
  Definition exp_u64 (x : F) (power : N) : F := exp_bits (bits_u64 power) power x 1.

  Fixpoint exp_power_of_2 (x : F) (k : nat) : F :=
    match k with O => x | S k' => exp_power_of_2 (fsquare x) k' end.

  (* Powers iterator: take n *)
  Fixpoint powers_from (cur base : F) (n : nat) : list F :=
    match n with O => [] | S n' => cur :: powers_from (cur * base) base n' end.
  Definition powers (base : F) (n : nat) : list F := powers_from 1 base n.

  (* ---- batch_multiplicative_inverse (Montgomery trick, four chains) *)
  Definition nthF (l : list F) (i : nat) : F := nth i l 0.
  Fixpoint upd {A} (l : list A) (i : nat) (v : A) : list A :=
    match l, i with
    | [], _ => []
    | _ :: t, O => v :: t
    | h :: t, S i' => h :: upd t i' v
    end.

  (* forward pass: for (i, xi) in x[4..].enumerate(): cumul[i%4] *= xi; buf.push(cumul[i%4]) *)
  Fixpoint bmi_forward (xs : list F) (i : nat) (cumul : list F) (buf_rev : list F) : list F * list F :=
    match xs with
    | [] => (cumul, rev buf_rev)
    | xi :: xs' =>
      let c := nthF cumul (i mod 4) * xi in
      bmi_forward xs' (S i) (upd cumul (i mod 4) c) (c :: buf_rev)
    end.

  (* backward pass: for i in (4..n).rev(): buf[i] = buf[i-4] * a_inv[i%4]; a_inv[i%4] *= x[i] *)
  Fixpoint bmi_backward (k : nat) (i : nat) (x buf a_inv : list F) : list F * list F :=
    match k with
    | O => (buf, a_inv)
    | S k' =>
      let buf' := upd buf i (nthF buf (i - 4) * nthF a_inv (i mod 4)) in
      let a_inv' := upd a_inv (i mod 4) (nthF a_inv (i mod 4) * nthF x i) in
      bmi_backward k' (i - 1) x buf' a_inv'
    end.

  Definition batch_multiplicative_inverse (x : list F) : list F :=
    match x with
    | [] => []
    | [x0] => [finv x0]
    | [x0; x1] => let x01inv := finv (x0 * x1) in [x01inv * x1; x01inv * x0]
    | [x0; x1; x2] =>
      let x01 := x0 * x1 in
      let x012inv := finv (x01 * x2) in
      let x01inv := x012inv * x2 in
      [x01inv * x1; x01inv * x0; x012inv * x01]
    | x0 :: x1 :: x2 :: x3 :: rest =>
      let n := length x in
      let '(cumul, tailbuf) := bmi_forward rest 0 [x0; x1; x2; x3] [] in
      let buf := [x0; x1; x2; x3] ++ tailbuf in
      let c0 := nthF cumul 0 in let c1 := nthF cumul 1 in
      let c2 := nthF cumul 2 in let c3 := nthF cumul 3 in
      let c01 := c0 * c1 in
      let c23 := c2 * c3 in
      let c0123inv := finv (c01 * c23) in
      let c01inv := c0123inv * c23 in
      let c23inv := c0123inv * c01 in
      let a_inv := [c01inv * c1; c01inv * c0; c23inv * c3; c23inv * c2] in
      let '(buf', a_inv') := bmi_backward (n - 4) (n - 1) x buf a_inv in
      (* for i in (0..4).rev(): buf[i] = a_inv[i] *)
      a_inv' ++ skipn 4 buf'
    end.

  (* ---- extension fields F[X]/(X^D - W), elements as coefficient lists of length D *)
  Section Ext.
    Variable D : nat.
    Variable W : F.
    Variable DTH_ROOT : F.

    Definition ext := list F.
    Definition ext_add (a b : ext) : ext := map (fun p => fst p + snd p) (combine a b).
    Definition ext_sub (a b : ext) : ext := map (fun p => fst p - snd p) (combine a b).
    Definition ext_neg (a : ext) : ext := map fneg a.
    Definition ext_scalar_mul (a : ext) (s : F) : ext := map (fun x => x * s) a.
    Definition ext_zero : ext := repeat 0 D.
    Definition ext_of_base (x : F) : ext := x :: repeat 0 (D - 1).

    (* schoolbook product reduced by X^D = W: c_k = sum_{i+j=k} a_i b_j + W * sum_{i+j=k+D} a_i b_j *)
    Definition ext_mul_coeff (a b : ext) (k : nat) : F :=
      let lo := fsum (map (fun i => nthF a i * nthF b (k - i)) (seq 0 (S k))) in
      let hi := fsum (map (fun i => nthF a i * nthF b (k + D - i)) (seq (S k) (D - S k))) in
      lo + W * hi.
    Definition ext_mul (a b : ext) : ext := map (ext_mul_coeff a b) (seq 0 D).

    Definition ext_is_zero (a : ext) : bool := forallb (fun x => x =? 0) a.

    (* repeated_frobenius(count), 0 < count < D: z0 = DTH_ROOT^count; res[i] = arr[i] * z0^i *)
    Definition ext_repeated_frobenius (a : ext) (count : nat) : ext :=
      let c := Nat.modulo count D in
      match c with
      | O => a
      | S c' =>
        let z0 := fpow DTH_ROOT c in
        map (fun p => fst p * snd p) (combine a (powers z0 D))
      end.
    Definition ext_frobenius (a : ext) : ext := ext_repeated_frobenius a 1.
  End Ext.

  (* the three specialised Square impls and try_inverse chains *)
  Definition ext2_square (W : F) (a : ext) : ext :=
    match a with
    | [a0; a1] => [fsquare a0 + W * fsquare a1; a0 * fdouble a1]
    | _ => []
    end.
  Definition ext4_square (w : F) (a : ext) : ext :=
    match a with
    | [a0; a1; a2; a3] =>
      [fsquare a0 + w * (a1 * fdouble a3 + fsquare a2);
       fdouble (a0 * a1 + w * a2 * a3);
       a0 * fdouble a2 + fsquare a1 + w * fsquare a3;
       fdouble (a0 * a3 + a1 * a2)]
    | _ => []
    end.
  Definition ext5_square (w : F) (a : ext) : ext :=
    match a with
    | [a0; a1; a2; a3; a4] =>
      let double_w := fdouble w in
      let double_a0 := fdouble a0 in
      let double_a1 := fdouble a1 in
      [fsquare a0 + double_w * (a1 * a4 + a2 * a3);
       double_a0 * a1 + double_w * a2 * a4 + w * a3 * a3;
       double_a0 * a2 + a1 * a1 + double_w * a4 * a3;
       double_a0 * a3 + double_a1 * a2 + w * a4 * a4;
       double_a0 * a4 + double_a1 * a3 + a2 * a2]
    | _ => []
    end.

  Definition ext2_try_inverse (W DTH : F) (a : ext) : option ext :=
    if ext_is_zero a then None else
    let a_pow_r_minus_1 := ext_frobenius 2 DTH a in
    let a_pow_r := ext_mul 2 W a_pow_r_minus_1 a in
    Some (ext_scalar_mul a_pow_r_minus_1 (finv (nthF a_pow_r 0))).

  Definition ext4_try_inverse (W DTH : F) (a : ext) : option ext :=
    if ext_is_zero a then None else
    let a_pow_p := ext_frobenius 4 DTH a in
    let a_pow_p_plus_1 := ext_mul 4 W a_pow_p a in
    let a_pow_p3_plus_p2 := ext_repeated_frobenius 4 DTH a_pow_p_plus_1 2 in
    let a_pow_r_minus_1 := ext_mul 4 W a_pow_p3_plus_p2 a_pow_p in
    let a_pow_r := ext_mul 4 W a_pow_r_minus_1 a in
    Some (ext_scalar_mul a_pow_r_minus_1 (finv (nthF a_pow_r 0))).

  Definition ext5_try_inverse (W DTH : F) (a : ext) : option ext :=
    if ext_is_zero a then None else
    let d := ext_frobenius 5 DTH a in
    let e := ext_mul 5 W d (ext_frobenius 5 DTH d) in
    let f := ext_mul 5 W e (ext_repeated_frobenius 5 DTH e 2) in
    let g := nthF a 0 * nthF f 0
             + W * (nthF a 1 * nthF f 4 + nthF a 2 * nthF f 3 + nthF a 3 * nthF f 2 + nthF a 4 * nthF f 1) in
    Some (ext_scalar_mul f (finv g)).
End Generic.

(* inverse_2exp for a prime field of characteristic p with 2-adicity t (types.rs):
   p - (p-1)/2^exp for exp <= t, otherwise products of inverse_2_pow_adicity *)
Section Inv2Exp.
  Context {F : Type} `{FO : FieldOps F}.
  Variable of_Z : Z -> F.          (* from_canonical_u64 *)
  Variable p : Z.
  Variable t : nat.
  Local Open Scope field_scope.

  Fixpoint inv2exp_loop (fuel : nat) (res inv_adic : F) (e : nat) : F * nat :=
    match fuel with
    | O => (res, e)
    | S fuel' =>
      if Nat.ltb t e then inv2exp_loop fuel' (res * inv_adic) inv_adic (e - t) else (res, e)
    end.

  Definition inverse_2exp (exp : nat) : F :=
    if Nat.ltb t exp then
      let inv_adic := of_Z (p - Z.shiftr (p - 1) (Z.of_nat t))%Z in
      let '(res, e) := inv2exp_loop exp inv_adic inv_adic (exp - t) in
      res * of_Z (p - Z.shiftr (p - 1) (Z.of_nat e))%Z
    else of_Z (p - Z.shiftr (p - 1) (Z.of_nat exp))%Z.
End Inv2Exp.
