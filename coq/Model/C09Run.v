(* C09 correspondence entry points (list Z -> option (list Z)): Model/Stark.v instantiated with
   the Goldilocks field Fp and its quadratic extension Fp2 (extension elements as two integers),
   replaying the lines written by harness/src/c09.rs. [None] = the model says the real code panics. *)
From Coq Require Import ZArith List Bool.
From Verif Require Import Base.Field Base.Reader Gen.FieldConsts Model.Fp Model.Fp2 Model.Stark.
Import ListNotations.
Open Scope Z_scope.

Definition fp_ofZ (z : Z) : Fp := toFp z.
Definition fp2_ofZ (z : Z) : Fp2 := (toFp z, toFp 0).
Definition fp2_out (x : Fp2) : list Z := [fval (fst x); fval (snd x)].

(* Field::primitive_root_of_unity: assert!(n_log <= TWO_ADICITY);
   POWER_OF_TWO_GENERATOR.exp_power_of_2(TWO_ADICITY - n_log) *)
Definition fp_root (log_n : nat) : option Fp :=
  if (Z.of_nat log_n <=? TWO_ADICITY)
  then Some (exp_power_of_2 (toFp POWER_OF_TWO_GENERATOR) (Z.to_nat TWO_ADICITY - log_n)) else None.

(* quadratic.rs: TWO_ADICITY = F::TWO_ADICITY + 1, POWER_OF_TWO_GENERATOR = EXT_POWER_OF_TWO_GENERATOR *)
Definition fp2_gen : Fp2 :=
  match EXT2_EXT_POWER_OF_TWO_GENERATOR with [a; b] => (toFp a, toFp b) | _ => (toFp 0, toFp 0) end.
Definition fp2_root (log_n : nat) : option Fp2 :=
  if (Z.of_nat log_n <=? TWO_ADICITY + 1)
  then Some (exp_power_of_2 fp2_gen (Z.to_nat (TWO_ADICITY + 1) - log_n)) else None.

Definition rd_fp : R Fp := rdo x <- rd_z ;; rret (toFp x).
Definition rd_fp2 : R Fp2 := rdo a <- rd_z ;; rdo b <- rd_z ;; rret (toFp a, toFp b).

(* ---- l0lastb log_n x / l0last log_n x0 x1 *)
Definition run_l0lastb (a : list Z) : option (list Z) :=
  match a with
  | [ln; x] =>
    match fp_root (Z.to_nat ln) with
    | Some g => match eval_l_0_and_l_last (Z.to_nat ln) g (toFp x) with
                | Some (l0, ll) => Some [fval l0; fval ll]
                | None => None end
    | None => None end
  | _ => None end.

Definition run_l0last (a : list Z) : option (list Z) :=
  match a with
  | [ln; x0; x1] =>
    match fp2_root (Z.to_nat ln) with
    | Some g => match eval_l_0_and_l_last (Z.to_nat ln) g (toFp x0, toFp x1) with
                | Some (l0, ll) => Some (fp2_out l0 ++ fp2_out ll)
                | None => None end
    | None => None end
  | _ => None end.

(* ---- consumer nalpha alphas.. zlast l0 llast m (kind c)*m *)
Definition kind_of (z : Z) : option ckind :=
  match z with 0 => Some KFirst | 1 => Some KLast | 2 => Some KTransition | 3 => Some KAlways | _ => None end.
Definition rd_kind : R ckind := rdo k <- rd_z ;; match kind_of k with Some k => rret k | None => rfail end.

Definition run_consumer (a : list Z) : option (list Z) :=
  let r :=
    rdo alphas <- rd_list rd_fp2 ;;
    rdo zl <- rd_fp2 ;; rdo l0 <- rd_fp2 ;; rdo ll <- rd_fp2 ;;
    rdo items <- rd_list (rd_pair rd_kind rd_fp2) ;;
    rret (alphas, zl, l0, ll, items) in
  match run_reader r a with
  | Some (alphas, zl, l0, ll, items) =>
    let c := fold_left (fun c kv => yield (fst kv) c (snd kv)) items (consumer_new alphas zl l0 ll) in
    Some (concat (map fp2_out (c_accs c)))
  | None => None
  end.

(* ---- constraint systems: ncols npi ncons (kind len tok..)* ; postfix tokens
   0 c | 1 i | 2 i | 3 i | 4 add | 5 sub | 6 mul *)
Fixpoint parse_rpn (fuel : nat) (tok : list Z) (st : list cexpr) : option cexpr :=
  match fuel with
  | O => None
  | S fuel' =>
    match tok with
    | [] => match st with [e] => Some e | _ => None end
    | 0 :: c :: t => parse_rpn fuel' t (EConst c :: st)
    | 1 :: i :: t => if i <? 0 then None else parse_rpn fuel' t (ELocal (Z.to_nat i) :: st)
    | 2 :: i :: t => if i <? 0 then None else parse_rpn fuel' t (ENext (Z.to_nat i) :: st)
    | 3 :: i :: t => if i <? 0 then None else parse_rpn fuel' t (EPub (Z.to_nat i) :: st)
    | 4 :: t => match st with b :: a :: s => parse_rpn fuel' t (EAdd a b :: s) | _ => None end
    | 5 :: t => match st with b :: a :: s => parse_rpn fuel' t (ESub a b :: s) | _ => None end
    | 6 :: t => match st with b :: a :: s => parse_rpn fuel' t (EMul a b :: s) | _ => None end
    | _ => None
    end
  end.

Definition rd_constr : R constr :=
  rdo k <- rd_kind ;;
  rdo tok <- rd_list rd_z ;;
  match parse_rpn (S (length tok)) tok [] with Some e => rret (k, e) | None => rfail end.

Record csys := { cs_ncols : nat; cs_npi : nat; cs_cons : list constr }.
Definition rd_csys : R csys :=
  rdo nc <- rd_nat ;; rdo np <- rd_nat ;; rdo cs <- rd_list rd_constr ;;
  rret {| cs_ncols := nc; cs_npi := np; cs_cons := cs |}.

(* ---- sat <cs> npi pis.. nrows trace(row-major) *)
Definition run_sat (a : list Z) : option (list Z) :=
  let r :=
    rdo cs <- rd_csys ;;
    rdo pis <- rd_list rd_fp ;;
    rdo n <- rd_nat ;;
    rdo rows <- rd_n n (rd_n (cs_ncols cs) rd_fp) ;;
    rret (cs, pis, rows) in
  match run_reader r a with
  | Some (cs, pis, rows) => Some [if trace_sat_b fp_ofZ (cs_cons cs) pis rows then 1 else 0]
  | None => None
  end.

(* ---- vanish degree_bits zeta nalpha alphas(base).. <cs> npi pis(base).. local.. next.. *)
Definition of_base (x : Fp) : Fp2 := (x, toFp 0).

Definition run_vanish (a : list Z) : option (list Z) :=
  let r :=
    rdo db <- rd_nat ;; rdo zeta <- rd_fp2 ;;
    rdo alphas <- rd_list rd_fp ;;
    rdo cs <- rd_csys ;;
    rdo pis <- rd_list rd_fp ;;
    rdo lv <- rd_n (cs_ncols cs) rd_fp2 ;;
    rdo nv <- rd_n (cs_ncols cs) rd_fp2 ;;
    rret (db, zeta, alphas, cs, pis, lv, nv) in
  match run_reader r a with
  | Some (db, zeta, alphas, cs, pis, lv, nv) =>
    match fp2_root db, fp_root db with
    | Some g2, Some g =>
      (* eval_l_0_and_l_last uses the extension's root, z_last the base field's: the same element *)
      match eval_l_0_and_l_last db g2 zeta with
      | Some (l0, ll) =>
        match eval_constraints fp2_ofZ (cs_cons cs) lv nv (map of_base pis)
                (consumer_new (map of_base alphas) (z_last_at (of_base g) zeta) l0 ll) with
        | Some c => Some (concat (map fp2_out (c_accs c)))
        | None => None end
      | None => None end
    | _, _ => None end
  | None => None
  end.

(* ---- starkid degree_bits qdf zeta nalpha alphas.. <cs> npi pis.. local.. next.. nq quotient.. *)
Definition run_starkid (a : list Z) : option (list Z) :=
  let r :=
    rdo db <- rd_nat ;; rdo qdf <- rd_nat ;; rdo zeta <- rd_fp2 ;;
    rdo alphas <- rd_list rd_fp ;;
    rdo cs <- rd_csys ;;
    rdo pis <- rd_list rd_fp ;;
    rdo lv <- rd_n (cs_ncols cs) rd_fp2 ;;
    rdo nv <- rd_n (cs_ncols cs) rd_fp2 ;;
    rdo q <- rd_list rd_fp2 ;;
    rret (db, qdf, zeta, alphas, cs, pis, lv, nv, q) in
  match run_reader r a with
  | Some (db, qdf, zeta, alphas, cs, pis, lv, nv, q) =>
    match fp2_root db, fp_root db with
    | Some g2, Some g =>
      match eval_l_0_and_l_last db g2 zeta with
      | Some (l0, ll) =>
        match eval_constraints fp2_ofZ (cs_cons cs) lv nv (map of_base pis)
                (consumer_new (map of_base alphas) (z_last_at (of_base g) zeta) l0 ll) with
        | Some c =>
          (* quotient_polys is None exactly for quotient_degree_factor = 0 after shape validation *)
          match quotient_check db qdf zeta (c_accs c) (match qdf with O => None | _ => Some q end) with
          | Some b => Some [if b then 1 else 0]
          | None => None end
        | None => None end
      | None => None end
    | _, _ => None end
  | None => None
  end.
