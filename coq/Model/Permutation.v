(* C02 model: the permutation argument as computed by plonky2.
   - util/partial_products.rs: quotient_chunk_products, partial_products_and_z_gx,
     check_partial_products (chunks of [max_degree], zip_eq = panic on a length mismatch);
   - plonk/vanishing_poly.rs eval_vanishing_poly: numerators wire + beta*(k_j*x) + gamma,
     denominators wire + beta*sigma_j + gamma, the L_0(x)(Z(x)-1) term;
   - plonk/prover.rs wires_permutation_partial_products_and_zs: per row the chunk products of
     num/den, the running products started from Z(x), the swap that stores Z(x) in the row and
     carries Z(gx) to the next row;
   - plonk/plonk_common.rs reduce_with_powers_multi / reduce_with_powers.
   Executable definitions only, over FieldOps. Partial operations return [option]. *)
From Coq Require Import List Arith Bool.
From Verif Require Import Base.Field.
Import ListNotations.
Local Open Scope field_scope.

Section PermModel.
  Context {F : Type} `{FO : FieldOps F}.

  (* slice::chunks(k) for k >= 1: ceil(len/k) chunks, the last one possibly shorter; fuel = length *)
  Fixpoint chunks_aux {A} (fuel k : nat) (l : list A) : list (list A) :=
    match fuel with
    | O => []
    | S f => match l with
             | [] => []
             | _ :: _ => firstn k l :: chunks_aux f k (skipn k l)
             end
    end.
  Definition chunks {A} (k : nat) (l : list A) : list (list A) := chunks_aux (length l) k l.

  (* Iterator::product(): left fold from ONE *)
  Definition fprodl (l : list F) : F := fold_left fmul l 1.

  (* quotient_chunk_products: assert!(!quotient_values.is_empty()); chunks(0) panics *)
  Definition quotient_chunk_products (qv : list F) (max_degree : nat) : option (list F) :=
    match qv, max_degree with
    | [], _ => None
    | _, O => None
    | _, _ => Some (map fprodl (chunks max_degree qv))
    end.

  (* partial_products_and_z_gx: running products acc *= q, pushed after each step *)
  Fixpoint running_products (acc : F) (qs : list F) : list F :=
    match qs with
    | [] => []
    | q :: qs' => let acc' := acc * q in acc' :: running_products acc' qs'
    end.
  Definition partial_products_and_z_gx (z_x : F) (qcp : list F) : option (list F) :=
    match qcp with [] => None | _ => Some (running_products z_x qcp) end.

  (* tuple_windows over z_x, partials.., z_gx *)
  Fixpoint windows (l : list F) : list (F * F) :=
    match l with
    | a :: ((b :: _) as t) => (a, b) :: windows t
    | _ => []
    end.

  (* check_partial_products: zip_eq panics when the three sequences differ in length *)
  Definition check_partial_products (nums dens partials : list F) (z_x z_gx : F) (max_degree : nat)
    : option (list F) :=
    match max_degree with
    | O => None                       (* chunks(0) panics (debug_assert!(max_degree > 1) aside) *)
    | _ =>
      let cn := chunks max_degree nums in
      let cd := chunks max_degree dens in
      let ws := windows (z_x :: partials ++ [z_gx]) in
      if negb (Nat.eqb (length cn) (length cd)) then None
      else if negb (Nat.eqb (length cn) (length ws)) then None
      else Some (map (fun '((n, d), (prev, next)) => prev * fprodl n - next * fprodl d)
                     (combine (combine cn cd) ws))
    end.

  (* eval_vanishing_poly, one challenge: numerator / denominator values of a row *)
  Definition numerators (beta gamma x : F) (ks wires : list F) : list F :=
    map (fun '(w, k) => w + beta * (k * x) + gamma) (combine wires ks).
  Definition denominators (beta gamma : F) (sigmas wires : list F) : list F :=
    map (fun '(w, s) => w + beta * s + gamma) (combine wires sigmas).
  Definition z1_term (l0 z_x : F) : F := l0 * (z_x - 1).

  (* the permutation terms of one row for one challenge: L_0 term, then the partial product checks *)
  Definition perm_terms (beta gamma x l0 : F) (ks sigmas wires partials : list F) (z_x z_gx : F)
             (max_degree : nat) : option (list F) :=
    match check_partial_products (numerators beta gamma x ks wires) (denominators beta gamma sigmas wires)
                                 partials z_x z_gx max_degree with
    | Some ts => Some (z1_term l0 z_x :: ts)
    | None => None
    end.

  (* ---- prover: wires_permutation_partial_products_and_zs *)
  (* one row: quotient values num * den^-1 (batch_multiplicative_inverse panics on a zero) *)
  Definition quotient_values (nums dens : list F) : option (list F) :=
    if existsb (fun d => d =? 0) dens then None
    else Some (map (fun '(n, d) => n * finv d) (combine nums dens)).

  Definition row_chunk_products (beta gamma x : F) (ks sigmas wires : list F) (degree : nat) : option (list F) :=
    match quotient_values (numerators beta gamma x ks wires) (denominators beta gamma sigmas wires) with
    | Some qv => quotient_chunk_products qv degree
    | None => None
    end.

  (* the sequential loop: z_x starts at ONE; per row [partial_products_and_z_gx], then
     swap(z_x, row[num_prods]): the row keeps (partials, Z(x)), Z(gx) is carried on.
     Indexing row[num_prods] panics when the row is shorter than num_prods + 1. *)
  Fixpoint prover_rows (num_prods : nat) (z_x : F) (qcps : list (list F)) : option (list (list F * F) * F) :=
    match qcps with
    | [] => Some ([], z_x)
    | qcp :: rest =>
      match partial_products_and_z_gx z_x qcp with
      | None => None
      | Some ppz =>
        (* by construction length ppz = num_prods + 1 (num_partial_products = #chunks - 1); a shorter row
           panics at the index, a longer one does not occur and is not modelled *)
        if negb (Nat.eqb (length ppz) (S num_prods)) then None
        else
          let z_gx := nth num_prods ppz 0 in
          match prover_rows num_prods z_gx rest with
          | Some (rows, zfinal) => Some ((firstn num_prods ppz, z_x) :: rows, zfinal)
          | None => None
          end
      end
    end.

  (* ---- reduce_with_powers_multi: cumul_k := term + cumul_k * alpha_k over the reversed terms *)
  Definition reduce_with_powers_multi (terms alphas : list F) : list F :=
    fold_left (fun cumul term => map (fun '(c, alpha) => term + c * alpha) (combine cumul alphas))
              (rev terms) (map (fun _ => 0) alphas).
  (* reduce_with_powers: sum := sum * alpha + term over the reversed terms *)
  Definition reduce_with_powers (terms : list F) (alpha : F) : F :=
    fold_left (fun sum term => sum * alpha + term) (rev terms) 0.

  (* eval_l_0 and eval_zero_poly *)
  Fixpoint fpow' (x : F) (n : nat) : F := match n with O => 1 | S n' => x * fpow' x n' end.
  Definition eval_zero_poly (n : nat) (x : F) : F := fpow' x n - 1.

  (* one row of the permutation argument as the verifier sees it *)
  Record prow : Type := { r_nums : list F; r_dens : list F; r_partials : list F; r_z : F }.
  (* Z(g x): the next row's Z, the last row wraps around to the first *)
  Definition next_zs (rows : list prow) : list F :=
    tl (map r_z rows) ++ [hd 1 (map r_z rows)].
End PermModel.
