(* C13 - iop/challenger.rs: the native [Challenger] as a state machine over an abstract
   permutation, and the behaviour of the [RecursiveChallenger] (which buffers every observed
   element and absorbs the whole buffer in RATE-sized chunks at the next challenge).

   Partiality of the Rust code and how it is modelled:
   * [duplexing] starts with `assert!(input_buffer.len() <= RATE)`.  The condition is
     [duplexing_assert]; it holds in every state reachable from [ch_new] through the public
     operations ([ch_wf] is an invariant, Proofs/Challenger.v: ch_wf_reachable,
     duplexing_assert_holds), so the state functions below are total.
   * `output_buffer.pop().expect(..)` cannot fail after a duplexing because the state is an
     array of 12 and RATE = 8; on lists this needs [length (permute s) = 12]
     (Proofs/Challenger.v: get_challenge_pops_nonempty).  [pop_last] returns 0 for the empty
     buffer, a case that is unreachable under that hypothesis. *)
From Coq Require Import ZArith List Arith Bool.
From Verif Require Import Base.Field Model.Fp Model.Poseidon Model.Sponge.
Import ListNotations.

Record chstate (F : Type) : Type := mkCh {
  sponge_state : list F;
  input_buffer : list F;
  output_buffer : list F;
}.
Arguments mkCh {F}.
Arguments sponge_state {F}.
Arguments input_buffer {F}.
Arguments output_buffer {F}.

Inductive chop (F : Type) : Type :=
| Observe (xs : list F)      (* observe_elements(xs) *)
| Squeeze (n : nat).         (* get_n_challenges(n) *)
Arguments Observe {F}.
Arguments Squeeze {F}.

Definition is_nil {A} (l : list A) : bool := match l with [] => true | _ => false end.

Section Challenger.
  Context {F : Type} `{FO : FieldOps F}.
  Variable permute : list F -> list F.
  Local Open Scope field_scope.

  Notation st := (chstate F).

  (* Challenger::new *)
  Definition ch_new : st := mkCh (@zero_state F _) [] [].

  Definition duplexing_assert (s : st) : bool := Nat.leb (length (input_buffer s)) SPONGE_RATE.

  (* sponge_state.set_from_iter(input_buffer.drain(..), 0); permute; output_buffer = squeeze *)
  Definition duplexing (s : st) : st :=
    let s' := permute (set_from_iter (sponge_state s) (input_buffer s) 0) in
    mkCh s' [] (squeeze s').

  Definition observe_element (s : st) (x : F) : st :=
    let s1 := mkCh (sponge_state s) (input_buffer s ++ [x]) [] in
    if Nat.eqb (length (input_buffer s1)) SPONGE_RATE then duplexing s1 else s1.

  Definition observe_elements (s : st) (xs : list F) : st := fold_left observe_element xs s.

  (* Vec::pop: the LAST element *)
  Definition pop_last (l : list F) : F * list F := (last l 0, removelast l).

  Definition get_challenge (s : st) : F * st :=
    let s1 := if (negb (is_nil (input_buffer s)) || is_nil (output_buffer s))%bool
              then duplexing s else s in
    let '(c, ob) := pop_last (output_buffer s1) in
    (c, mkCh (sponge_state s1) (input_buffer s1) ob).

  Fixpoint get_n_challenges (n : nat) (s : st) : list F * st :=
    match n with
    | O => ([], s)
    | S n' => let '(c, s1) := get_challenge s in
              let '(cs, s2) := get_n_challenges n' s1 in
              (c :: cs, s2)
    end.

  (* HashOut { elements: [get_challenge(); 4] } *)
  Definition get_hash (s : st) : list F * st := get_n_challenges NUM_HASH_OUT_ELTS s.
  (* D = 2: from_basefield_array(get_n_challenges(2)) *)
  Definition get_extension_challenge (s : st) : list F * st := get_n_challenges 2 s.
  Fixpoint get_n_extension_challenges (n : nat) (s : st) : list (list F) * st :=
    match n with
    | O => ([], s)
    | S n' => let '(c, s1) := get_extension_challenge s in
              let '(cs, s2) := get_n_extension_challenges n' s1 in
              (c :: cs, s2)
    end.

  (* compact: returns the sponge state *)
  Definition compact (s : st) : list F * st :=
    let s1 := if negb (is_nil (input_buffer s)) then duplexing s else s in
    (sponge_state s1, mkCh (sponge_state s1) (input_buffer s1) []).

  Definition ch_step (acc : list F * st) (op : chop F) : list F * st :=
    let '(out, s) := acc in
    match op with
    | Observe xs => (out, observe_elements s xs)
    | Squeeze n => let '(cs, s') := get_n_challenges n s in (out ++ cs, s')
    end.
  Definition run_native_from (s : st) (ops : list (chop F)) : list F * st :=
    fold_left ch_step ops ([], s).
  (* all squeezed values, in order *)
  Definition run_native (ops : list (chop F)) : list F := fst (run_native_from ch_new ops).

  (* well-formed (reachable) states *)
  Definition ch_wf (s : st) : Prop :=
    (length (sponge_state s) = SPONGE_WIDTH /\ length (input_buffer s) < SPONGE_RATE)%nat.

  (* ------------------------------------------------------------- RecursiveChallenger *)
  Definition r_observe_element (s : st) (x : F) : st :=
    mkCh (sponge_state s) (input_buffer s ++ [x]) [].
  Definition r_observe_elements (s : st) (xs : list F) : st := fold_left r_observe_element xs s.

  (* absorb_buffered_inputs: for chunk in input_buffer.chunks(RATE) { set_from_slice(chunk, 0);
     permute }; output_buffer = squeeze; input_buffer.clear() *)
  Definition absorb_buffered_inputs (s : st) : st :=
    if is_nil (input_buffer s) then s
    else let s' := absorb permute (sponge_state s) (input_buffer s) in
         mkCh s' [] (squeeze s').

  Definition r_get_challenge (s : st) : F * st :=
    let s1 := absorb_buffered_inputs s in
    let s2 := if is_nil (output_buffer s1)
              then let s' := permute (sponge_state s1) in mkCh s' (input_buffer s1) (squeeze s')
              else s1 in
    let '(c, ob) := pop_last (output_buffer s2) in
    (c, mkCh (sponge_state s2) (input_buffer s2) ob).

  Fixpoint r_get_n_challenges (n : nat) (s : st) : list F * st :=
    match n with
    | O => ([], s)
    | S n' => let '(c, s1) := r_get_challenge s in
              let '(cs, s2) := r_get_n_challenges n' s1 in
              (c :: cs, s2)
    end.

  Definition r_compact (s : st) : list F * st :=
    let s1 := absorb_buffered_inputs s in
    (sponge_state s1, mkCh (sponge_state s1) (input_buffer s1) []).

  Definition rch_step (acc : list F * st) (op : chop F) : list F * st :=
    let '(out, s) := acc in
    match op with
    | Observe xs => (out, r_observe_elements s xs)
    | Squeeze n => let '(cs, s') := r_get_n_challenges n s in (out ++ cs, s')
    end.
  Definition run_recursive_from (s : st) (ops : list (chop F)) : list F * st :=
    fold_left rch_step ops ([], s).
  Definition run_recursive (ops : list (chop F)) : list F := fst (run_recursive_from ch_new ops).
End Challenger.

(* Poseidon instances *)
Definition poseidon_run_native : list (chop Fp) -> list Fp := run_native poseidon_fp.
Definition poseidon_run_recursive : list (chop Fp) -> list Fp := run_recursive poseidon_fp.
