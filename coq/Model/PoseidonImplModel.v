(* C13 - the raw-u64 level of the Goldilocks Poseidon implementation
   (plonky2/src/hash/poseidon.rs with the overrides of poseidon_goldilocks.rs), built from the
   TRANSLATED pieces: gl_* of Gen/GoldilocksImpl.v and add_u160_u128 / reduce_u160 /
   mds_multiply_freq of Gen/PoseidonImpl.v, in the checked monad of Base/Mach.v.
   A state is a list of 12 raw u64 representations (possibly non-canonical).  [None] = a checked
   operation overflowed / an assume failed (the debug-build panic), or the state does not have
   12 elements (excluded by the Rust type [F; 12]).

   The hand-written glue here (loop structure, index arithmetic) is tied to the implementation
   by the C13 correspondence run (ops poseidon, poseidon_naive, mds_layer, partial_rounds). *)
From Coq Require Import ZArith List.
From Verif Require Import Base.Mach Gen.FieldConsts Gen.GoldilocksImpl Gen.PoseidonConsts Gen.PoseidonImpl.
Import ListNotations.
Open Scope Z_scope.

Fixpoint mapM {A B} (f : A -> M B) (l : list A) : M (list B) :=
  match l with
  | [] => ret []
  | a :: t => bind (f a) (fun b => bind (mapM f t) (fun bs => ret (b :: bs)))
  end.

Fixpoint foldM {A B} (f : B -> A -> M B) (l : list A) (b : B) : M B :=
  match l with
  | [] => ret b
  | a :: t => bind (f b a) (fun b' => foldM f t b')
  end.

Definition nthZ (l : list Z) (i : nat) : Z := nth i l 0.
Definition tbl2 (t : list (list Z)) (r i : nat) : Z := nth i (nth r t []) 0.

(* constant_layer: state[i] = state[i].add_canonical_u64(ALL_ROUND_CONSTANTS[i + 12 * round_ctr]) *)
Definition constant_layer_impl (r : nat) (s : list Z) : M (list Z) :=
  mapM (fun i => gl_add_canonical_u64 (nthZ s i) (nthZ ALL_ROUND_CONSTANTS (i + 12 * r))) (seq 0 12).

(* sbox_monomial at D = 1: x2 = x.square(); x4 = x2.square(); x3 = x * x2; x3 * x4 *)
Definition sbox_monomial_impl (x : Z) : M Z :=
  bind (gl_square x) (fun x2 =>
  bind (gl_square x2) (fun x4 =>
  bind (gl_mul x x2) (fun x3 =>
  gl_mul x3 x4))).

Definition sbox_layer_impl (s : list Z) : M (list Z) := mapM sbox_monomial_impl s.

Definition tuple12 (l : list Z) : M (Z * Z * Z * Z * Z * Z * Z * Z * Z * Z * Z * Z) :=
  match l with
  | [a0; a1; a2; a3; a4; a5; a6; a7; a8; a9; a10; a11] =>
    ret (a0, a1, a2, a3, a4, a5, a6, a7, a8, a9, a10, a11)
  | _ => None
  end.
Definition untuple12 (t : Z * Z * Z * Z * Z * Z * Z * Z * Z * Z * Z * Z) : list Z :=
  let '(a0, a1, a2, a3, a4, a5, a6, a7, a8, a9, a10, a11) := t in
  [a0; a1; a2; a3; a4; a5; a6; a7; a8; a9; a10; a11].

Definition mds_multiply_freq_list (l : list Z) : M (list Z) :=
  bind (tuple12 l) (fun t => bind (mds_multiply_freq t) (fun o => ret (untuple12 o))).

(* from_noncanonical_u96((s as u64, (s >> 64) as u32)) for a u128 s *)
Definition reduce96_of_u128 (s : Z) : M Z :=
  gl_reduce96 (wrapU 64 s, wrapU 32 (shrZ s 64)).

(* mds_layer of poseidon_goldilocks.rs:
     state_h[r] = s >> 32; state_l[r] = (s as u32) as u64;
     state_h = mds_multiply_freq(state_h); state_l = mds_multiply_freq(state_l);
     s = state_l[r] as u128 + ((state_h[r] as u128) << 32);  result[r] = from_noncanonical_u96(..)
     s = MDS_MATRIX_DIAG[0] as u128 * (state[0].0 as u128);  result[0] += from_noncanonical_u96(..) *)
Definition mds_layer_impl (s : list Z) : M (list Z) :=
  let state_h := map (fun x => shrZ x 32) s in
  let state_l := map (fun x => wrapU 32 x) s in
  bind (mds_multiply_freq_list state_h) (fun fh =>
  bind (mds_multiply_freq_list state_l) (fun fl =>
  bind (mapM (fun r =>
          bind (chkU 128 (nthZ fl r + shlU 128 (nthZ fh r) 32)) (fun sum =>
          reduce96_of_u128 sum)) (seq 0 12)) (fun result =>
  bind (chkU 128 (nthZ MDS_MATRIX_DIAG 0 * nthZ s 0)) (fun sd =>
  bind (reduce96_of_u128 sd) (fun t =>
  bind (gl_add (nthZ result 0) t) (fun r0 =>
  ret (r0 :: tl result))))))).

Definition full_round_impl (r : nat) (s : list Z) : M (list Z) :=
  bind (constant_layer_impl r s) (fun s1 =>
  bind (sbox_layer_impl s1) (fun s2 =>
  mds_layer_impl s2)).

Definition full_rounds_impl (r0 : nat) (s : list Z) : M (list Z) :=
  foldM (fun s r => full_round_impl r s) (seq r0 4) s.

(* state[i] += F::from_canonical_u64(FAST_PARTIAL_FIRST_ROUND_CONSTANT[i]) (field Add) *)
Definition partial_first_constant_layer_impl (s : list Z) : M (list Z) :=
  mapM (fun i => gl_add (nthZ s i) (nthZ FAST_PARTIAL_FIRST_ROUND_CONSTANT i)) (seq 0 12).

(* result = [ZERO; 12]; result[0] = state[0];
   for r in 1..12 { for c in 1..12 { result[c] += state[r] * from_canonical_u64(INIT[r-1][c-1]) } }
   Each result[c] only depends on its own accumulation over r, so the model computes it column
   by column (same operations on the same operands; the monad fails iff one of them fails). *)
Definition mds_partial_layer_init_impl (s : list Z) : M (list Z) :=
  bind (mapM (fun c =>
          foldM (fun acc r =>
                   bind (gl_mul (nthZ s r) (tbl2 FAST_PARTIAL_ROUND_INITIAL_MATRIX (r - 1) (c - 1))) (fun p =>
                   gl_add acc p))
                (seq 1 11) 0) (seq 1 11)) (fun t =>
  ret (nthZ s 0 :: t)).

(* mds_partial_layer_fast: u160 accumulator d_sum over state[i] * W_HATS[r][i-1] (i = 1..11), then
   state[0] * (CIRC[0] + DIAG[0]); d = reduce_u160(d_sum);
   result[i] = state[i].multiply_accumulate(state[0], VS[r][i-1]) *)
Definition mds_partial_layer_fast_impl (r : nat) (s : list Z) : M (list Z) :=
  bind (foldM (fun d_sum i =>
                 bind (chkU 128 (nthZ s i * tbl2 FAST_PARTIAL_ROUND_W_HATS r (i - 1))) (fun p =>
                 add_u160_u128 d_sum p))
              (seq 1 11) (0, 0)) (fun d_sum =>
  bind (chkU 64 (nthZ MDS_MATRIX_CIRC 0 + nthZ MDS_MATRIX_DIAG 0)) (fun mds0to0 =>
  bind (chkU 128 (nthZ s 0 * mds0to0)) (fun p0 =>
  bind (add_u160_u128 d_sum p0) (fun d_sum' =>
  bind (reduce_u160 d_sum') (fun d =>
  bind (mapM (fun i => gl_multiply_accumulate (nthZ s i) (nthZ s 0) (tbl2 FAST_PARTIAL_ROUND_VS r (i - 1)))
             (seq 1 11)) (fun t =>
  ret (d :: t))))))).

(* state[0] = sbox_monomial(state[0]); state[0] = state[0].add_canonical_u64(C[i]);
   state = mds_partial_layer_fast(state, i) *)
Definition partial_round_fast_impl (i : nat) (s : list Z) : M (list Z) :=
  bind (sbox_monomial_impl (nthZ s 0)) (fun x =>
  bind (gl_add_canonical_u64 x (nthZ FAST_PARTIAL_ROUND_CONSTANTS i)) (fun s0 =>
  mds_partial_layer_fast_impl i (s0 :: tl s))).

Definition partial_rounds_impl (s : list Z) : M (list Z) :=
  bind (partial_first_constant_layer_impl s) (fun s1 =>
  bind (mds_partial_layer_init_impl s1) (fun s2 =>
  foldM (fun s i => partial_round_fast_impl i s) (seq 0 22) s2)).

Definition poseidon_impl (s : list Z) : M (list Z) :=
  bind (full_rounds_impl 0 s) (fun s1 =>
  bind (partial_rounds_impl s1) (fun s2 =>
  full_rounds_impl 26 s2)).

(* partial_rounds_naive / poseidon_naive *)
Definition partial_round_naive_impl (k : nat) (s : list Z) : M (list Z) :=
  bind (constant_layer_impl (4 + k) s) (fun s1 =>
  bind (sbox_monomial_impl (nthZ s1 0)) (fun x =>
  mds_layer_impl (x :: tl s1))).

Definition partial_rounds_naive_impl (s : list Z) : M (list Z) :=
  foldM (fun s k => partial_round_naive_impl k s) (seq 0 22) s.

Definition poseidon_naive_impl (s : list Z) : M (list Z) :=
  bind (full_rounds_impl 0 s) (fun s1 =>
  bind (partial_rounds_naive_impl s1) (fun s2 =>
  full_rounds_impl 26 s2)).

(* the generic (non-specialised) mds_layer of poseidon.rs: mds_row_shf accumulates in u128,
   result[r] = from_noncanonical_u96((sum as u64, (sum >> 64) as u32)).  Not used by the
   Goldilocks instance (overridden); modelled for the constant check "the accumulation stays
   below 2^96". *)
Definition mds_row_shf_impl (r : nat) (v : list Z) : M Z :=
  bind (foldM (fun res i =>
                 bind (chkU 128 (nthZ v ((i + r) mod 12) * nthZ MDS_MATRIX_CIRC i)) (fun p =>
                 chkU 128 (res + p))) (seq 0 12) 0) (fun res =>
  bind (chkU 128 (nthZ v r * nthZ MDS_MATRIX_DIAG r)) (fun p =>
  chkU 128 (res + p))).

Definition mds_layer_generic_impl (s : list Z) : M (list Z) :=
  mapM (fun r =>
          bind (mds_row_shf_impl r s) (fun sum =>
          bind (chkU 32 (shrZ sum 64)) (fun _ =>   (* `(sum >> 64) as u32` must not truncate *)
          reduce96_of_u128 sum))) (seq 0 12).
