//! Keccak-configuration variants (KeccakGoldilocksConfig: Keccak-256 truncated to 25 bytes for
//! Merkle trees and the transcript's byte->field packing) of the C03 tamper sweep and the C04
//! sensitivity sweep, written over the serde tree so that they do not depend on the digest type.
use std::io::Write;
use std::panic::{catch_unwind, AssertUnwindSafe};

use plonky2::field::goldilocks_field::GoldilocksField as F;
use plonky2::plonk::circuit_builder::CircuitBuilder;
use plonky2::plonk::circuit_data::{CircuitConfig, CircuitData};
use plonky2::plonk::config::{GenericConfig, Hasher, KeccakGoldilocksConfig};
use plonky2::plonk::proof::ProofWithPublicInputs;
use serde_json::Value;

use crate::c03::{at_pub, leaves_pub};
use crate::dsl::{self, Program, D};
use crate::rng::*;

pub type KC = KeccakGoldilocksConfig;

pub fn build_and_prove_c<C: GenericConfig<D, F = F>>(p: &Program, cfg: &CircuitConfig)
    -> Result<(CircuitData<F, C, D>, ProofWithPublicInputs<F, C, D>), String> {
    dsl::eval_native(p).ok_or("program not satisfiable natively")?;
    let r = catch_unwind(AssertUnwindSafe(|| {
        let mut b = CircuitBuilder::<F, D>::new(cfg.clone());
        let ins = dsl::build(p, &mut b);
        let data = b.build::<C>();
        let pw = dsl::witness(p, &ins);
        let proof = data.prove(pw);
        (data, proof)
    }));
    match r {
        Err(_) => Err("panic while building or proving".into()),
        Ok((_, Err(e))) => Err(format!("prove failed: {e}")),
        Ok((data, Ok(proof))) => Ok((data, proof)),
    }
}

fn verdict_k(data: &CircuitData<F, KC, D>, v: Value) -> String {
    match serde_json::from_value::<ProofWithPublicInputs<F, KC, D>>(v) {
        Err(_) => "dec".into(),
        Ok(p) => match catch_unwind(AssertUnwindSafe(|| data.verify(p))) {
            Ok(Ok(())) => "ok".into(),
            Ok(Err(_)) => "err".into(),
            Err(_) => panic_site(),
        },
    }
}

/// C03, Keccak configuration: every leaf of every cap (each digest byte) plus a stride sample of
/// the remaining leaves; +1 / 0|1 / other-byte replacement; array operations.
pub fn c03_keccak(r: &mut Rng, tier: &str, w: &mut dyn Write, cfg: &CircuitConfig, bi: usize) -> usize {
    let p = dsl::generate(r, 12, 7);
    let (data, proof) = match build_and_prove_c::<KC>(&p, cfg) { Ok(x) => x, Err(_) => return 0 };
    let root = serde_json::to_value(&proof).unwrap();
    let mut n = 0;
    writeln!(w, "c03 3 {bi} base - = {}", verdict_k(&data, root.clone())).unwrap();
    n += 1;
    let mut ls = vec![]; let mut arrs = vec![];
    leaves_pub(&root, &mut vec![], &mut ls, &mut arrs);
    let stride = if tier == "thorough" { 1 } else { 29 };
    let off = r.below(stride as u64) as usize;
    for (li, path) in ls.iter().enumerate() {
        let in_cap = path.iter().any(|s| s.contains("cap"));
        if !in_cap && stride > 1 && li % stride != off { continue; }
        let mut cur = root.clone();
        let old = at_pub(&mut cur, path).as_u64().unwrap_or(0);
        // digest bytes are u8 leaves: keep replacements in range so that they deserialise
        let is_byte = in_cap || path.iter().any(|s| s == "siblings");
        let reps: Vec<u64> = if is_byte { vec![(old + 1) % 256, old ^ 0x80, if old == 0 { 1 } else { 0 }] }
                             else { vec![if old % P == P - 1 { 0 } else { old + 1 }, if old == 0 { 1 } else { 0 }, r.next_u64() % P] };
        for (k, rep) in reps.iter().enumerate() {
            if (!is_byte && *rep % P == old % P) || *rep == old { continue; }   // serde prints the raw u64, which may be the non-canonical P for zero
            let mut t = root.clone();
            *at_pub(&mut t, path) = Value::from(*rep);
            writeln!(w, "c03 3 {bi} v{k} {} = {}", path.join("/"), verdict_k(&data, t)).unwrap();
            n += 1;
        }
    }
    for path in arrs.iter() {
        if !path.iter().any(|s| s.contains("cap")) && r.below(4) != 0 { continue; }
        let len = at_pub(&mut root.clone(), path).as_array().unwrap().len();
        if len == 0 { continue; }
        for kind in ["drop", "empty", "dup"] {
            let mut t = root.clone();
            let a = at_pub(&mut t, path).as_array_mut().unwrap();
            match kind { "drop" => { a.pop(); } "empty" => a.clear(), _ => { let l = a.last().cloned().unwrap(); a.push(l) } }
            writeln!(w, "c03 3 {bi} {kind} {} = {}", path.join("/"), verdict_k(&data, t)).unwrap();
            n += 1;
        }
    }
    n
}

/// C04, Keccak configuration: sensitivity of the challenges to every digest byte of every cap, to the
/// circuit digest bytes, openings, final polynomial, PoW witness and public inputs.
pub fn c04_keccak(r: &mut Rng, tier: &str, w: &mut dyn Write, cfg: &CircuitConfig, bi: usize) -> usize {
    use crate::c04::{compare, stages};
    let p = dsl::generate(r, 12, 7);
    let (data, proof) = match build_and_prove_c::<KC>(&p, cfg) { Ok(x) => x, Err(_) => return 0 };
    let digest = data.verifier_only.circuit_digest;
    let common = &data.common;
    let chal = |q: &ProofWithPublicInputs<F, KC, D>, dg: &<<KC as GenericConfig<D>>::Hasher as Hasher<F>>::Hash| {
        let h = <<KC as GenericConfig<D>>::InnerHasher as Hasher<F>>::hash_no_pad(&q.public_inputs);
        stages(&q.get_challenges(h, dg, common).unwrap())
    };
    let base = chal(&proof, &digest);
    let nst = base.len();
    let root = serde_json::to_value(&proof).unwrap();
    let mut ls = vec![]; let mut arrs = vec![];
    leaves_pub(&root, &mut vec![], &mut ls, &mut arrs);
    let mut n = 0;
    // circuit digest bytes
    for k in 0..25 {
        let mut dg = digest; dg.0[k] ^= 1;
        let (ok, why) = compare(&base, &chal(&proof, &dg), 0);
        writeln!(w, "c04 k{bi} digest_byte {k} = {} # {why}", ok as u8).unwrap();
        n += 1;
    }
    for (li, path) in ls.iter().enumerate() {
        let joined = path.join("/");
        if joined.contains("query_round_proofs") { continue; }
        let first = if joined.starts_with("public_inputs") || joined.starts_with("proof/wires_cap") { 0 }
            else if joined.starts_with("proof/plonk_zs_partial_products_cap") { 1 }
            else if joined.starts_with("proof/quotient_polys_cap") { 2 }
            else if joined.starts_with("proof/openings") { 3 }
            else if joined.starts_with("proof/opening_proof/commit_phase_merkle_caps") { 4 + path[3].parse::<usize>().unwrap_or(0) }
            else { nst - 1 };
        let in_cap = joined.contains("cap");
        if !in_cap && tier != "thorough" && li % 13 != 0 { continue; }
        let mut t = root.clone();
        let cur = at_pub(&mut t, path);
        let old = cur.as_u64().unwrap_or(0);
        *cur = Value::from(if in_cap { old ^ 1 } else if old % P == P - 1 { 0 } else { old + 1 });
        if let Ok(q) = serde_json::from_value::<ProofWithPublicInputs<F, KC, D>>(t) {
            let (ok, why) = compare(&base, &chal(&q, &digest), first);
            let comp = path.iter().filter(|s| !s.chars().all(|c| c.is_ascii_digit())).cloned().collect::<Vec<_>>().join(".");
            let pos = path.iter().filter(|s| s.chars().all(|c| c.is_ascii_digit())).cloned().collect::<Vec<_>>().join(".");
            writeln!(w, "c04 k{bi} {comp} {} = {} # {why}", if pos.is_empty() { "0".to_string() } else { pos }, ok as u8).unwrap();
            n += 1;
        }
    }
    n
}
