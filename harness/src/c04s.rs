//! C04, STARK transcripts: every component of a STARK proof statement / proof must influence all the
//! challenges drawn after it and none drawn before. Subjects: a random STARK without lookups, a lookup
//! STARK (auxiliary cap from its own lookups), and every table of a cross-table-lookup system (tables
//! whose auxiliary polynomials come from CTLs only included), through the public
//! StarkProofWithPublicInputs::get_challenges.
//! Lines: `c04 stark:<subject> <component> <position> = <1|0> # first_changed=<stage> expected=<stage> ...`
use std::io::Write;
use std::panic::{catch_unwind, AssertUnwindSafe};

use plonky2::field::types::{Field, PrimeField64};
use plonky2::iop::challenger::Challenger;
use plonky2::plonk::config::GenericConfig;
use starky::config::StarkConfig;
use starky::cross_table_lookup::{CrossTableLookup, CtlCheckVars};
use starky::lookup::GrandProductChallengeSet;
use starky::proof::StarkProofChallenges;
use starky::stark::Stark;

use crate::c09::*;
use crate::c10::{build_perm, build_system, ctl_challenges_of, pv, pv_system, System, S4};
use crate::rng::*;

type H = <C as GenericConfig<D>>::Hasher;
fn rf(r: &mut Rng) -> F { F::from_noncanonical_u64(r.next_u64()) }

/// challenge stages in drawing order: 0 lookup challenge set, 1 stark_alphas, 2 stark_zeta, 3 fri_alpha,
/// 4.. one per fri_beta, then pow response, then query indices
fn stages(c: &StarkProofChallenges<F, D>) -> Vec<Vec<u64>> {
    let mut v = vec![];
    v.push(c.lookup_challenge_set.as_ref().map(|s| s.challenges.iter().flat_map(|g| [g.beta.to_canonical_u64(), g.gamma.to_canonical_u64()]).collect()).unwrap_or_default());
    v.push(c.stark_alphas.iter().map(|x| x.to_canonical_u64()).collect());
    v.push(c.stark_zeta.0.iter().map(|x| x.to_canonical_u64()).collect());
    v.push(c.fri_challenges.fri_alpha.0.iter().map(|x| x.to_canonical_u64()).collect());
    for b in &c.fri_challenges.fri_betas { v.push(b.0.iter().map(|x| x.to_canonical_u64()).collect()); }
    v.push(vec![c.fri_challenges.fri_pow_response.to_canonical_u64()]);
    v.push(c.fri_challenges.fri_query_indices.iter().map(|x| *x as u64).collect());
    v
}

/// `expected`: index of the first stage that must change; every non-empty stage from there on must
/// differ, every stage before must be equal.
fn judge(w: &mut dyn Write, subject: &str, comp: &str, pos: usize, base: &[Vec<u64>], new: Option<Vec<Vec<u64>>>, expected: usize) -> usize {
    let Some(new) = new else { writeln!(w, "c04 stark:{subject} {comp} {pos} = 1 # recomputation panicked (malformed statement): not a transcript case").unwrap(); return 1 };
    if new.len() != base.len() { writeln!(w, "c04 stark:{subject} {comp} {pos} = 1 # number of challenges changed").unwrap(); return 1 }
    let mut ok = true;
    let mut detail = String::new();
    for (i, (a, b)) in base.iter().zip(&new).enumerate() {
        if a.is_empty() && b.is_empty() { continue; }
        if i < expected && a != b { ok = false; detail = format!("a challenge of stage {i} changed although it is drawn before the component"); break; }
        // the query indices may coincide by chance only if there are very few of them; the others are field elements
        if i >= expected && a == b { ok = false; detail = format!("a challenge of stage {i} did not change"); break; }
    }
    writeln!(w, "c04 stark:{subject} {comp} {pos} = {} # expected_first_stage={expected} {detail}", ok as u8).unwrap();
    1
}

fn bump_json(v: &mut serde_json::Value, path: &[&str], idx: &[usize]) -> bool {
    let mut cur = v;
    for p in path { match cur.get_mut(*p) { Some(n) => cur = n, None => return false } }
    for i in idx {
        // a digest is serialised as an object {"elements": [..]}: step into it before indexing
        if cur.is_object() { let k = cur.as_object().unwrap().keys().next().cloned(); match k { Some(k) => cur = cur.get_mut(&k).unwrap(), None => return false } }
        match cur.get_mut(*i) { Some(n) => cur = n, None => return false }
    }
    // descend to the first number
    loop {
        if let Some(x) = cur.as_u64() { *cur = serde_json::Value::from(if x % P == P - 1 { 0 } else { x % P + 1 }); return true; }
        if cur.is_array() { if cur.as_array().unwrap().is_empty() { return false; } cur = cur.get_mut(0).unwrap(); continue; }
        if cur.is_object() { let k = cur.as_object().unwrap().keys().next().cloned(); match k { Some(k) => { cur = cur.get_mut(&k).unwrap(); continue } None => return false } }
        return false;
    }
}

/// the component edits of one proof: (component, position, json path, indices, expected first stage relative
/// to the number of betas `nb`)
fn edits(p: &Sp, r: &mut Rng, nb: usize, has_lookup_stage: bool) -> Vec<(String, usize, Vec<&'static str>, Vec<usize>, usize)> {
    let mut e = vec![];
    let first = if has_lookup_stage { 0 } else { 1 };
    let capn = p.proof.trace_cap.0.len();
    for pos in [0, capn - 1] { e.push(("trace_cap".to_string(), pos, vec!["proof", "trace_cap"], vec![pos, r.below(4) as usize], first)); }
    if let Some(c) = &p.proof.auxiliary_polys_cap { for pos in [0, c.0.len() - 1] { e.push(("auxiliary_cap".into(), pos, vec!["proof", "auxiliary_polys_cap"], vec![pos, r.below(4) as usize], 1)); } }
    if let Some(c) = &p.proof.quotient_polys_cap { for pos in [0, c.0.len() - 1] { e.push(("quotient_cap".into(), pos, vec!["proof", "quotient_polys_cap"], vec![pos, r.below(4) as usize], 2)); } }
    let o = &p.proof.openings;
    let mut op = |name: &'static str, len: usize, e: &mut Vec<(String, usize, Vec<&'static str>, Vec<usize>, usize)>| {
        if len > 0 { for pos in [0, len - 1] { e.push((format!("opening_{name}"), pos, vec!["proof", "openings", name], vec![pos], 3)); } }
    };
    op("local_values", o.local_values.len(), &mut e);
    op("next_values", o.next_values.len(), &mut e);
    op("auxiliary_polys", o.auxiliary_polys.as_ref().map_or(0, |v| v.len()), &mut e);
    op("auxiliary_polys_next", o.auxiliary_polys_next.as_ref().map_or(0, |v| v.len()), &mut e);
    op("ctl_zs_first", o.ctl_zs_first.as_ref().map_or(0, |v| v.len()), &mut e);
    op("quotient_polys", o.quotient_polys.as_ref().map_or(0, |v| v.len()), &mut e);
    for i in 0..nb { e.push((format!("commit_cap_{i}"), i, vec!["proof", "opening_proof", "commit_phase_merkle_caps"], vec![i, 0, r.below(4) as usize], 4 + i)); }
    let fl = p.proof.opening_proof.final_poly.coeffs.len();
    for pos in [0, fl - 1] { e.push(("final_poly".into(), pos, vec!["proof", "opening_proof", "final_poly", "coeffs"], vec![pos], 4 + nb)); }
    e.push(("pow_witness".into(), 0, vec!["proof", "opening_proof", "pow_witness"], vec![], 4 + nb));
    e
}

struct Single<'a> { w: &'a mut dyn Write, r: &'a mut Rng, subject: String, cfg: &'a StarkConfig, p: Sp }

impl<'a> FamVisitor for Single<'a> {
    type Out = usize;
    fn visit<const N: usize, const PI: usize>(self, stark: Fam<N, PI>) -> usize {
        let Single { w, r, subject, cfg, p } = self;
        let ch = |q: &Sp, cfg: &StarkConfig| -> Option<Vec<Vec<u64>>> {
            catch_unwind(AssertUnwindSafe(|| { let mut c = Challenger::<F, H>::new(); stages(&q.get_challenges(&stark, &mut c, None, None, false, cfg, None)) })).ok()
        };
        let Some(base) = ch(&p, cfg) else { writeln!(w, "c04 stark:{subject} base 0 = 0 # get_challenges panicked on an honest proof").unwrap(); return 1 };
        let nb = p.proof.opening_proof.commit_phase_merkle_caps.len();
        let root = serde_json::to_value(&p).unwrap();
        let mut n = 0;
        for (comp, pos, path, idx, exp) in edits(&p, r, nb, stark.uses_lookups()) {
            let mut v = root.clone();
            if !bump_json(&mut v, &path, &idx) { continue; }
            let Ok(q) = serde_json::from_value::<Sp>(v) else { continue };
            n += judge(w, &subject, &comp, pos, &base, ch(&q, cfg), exp);
        }
        // public inputs that occur in a constraint
        for i in 0..PI {
            let mut toks = vec![];
            for c in &stark.spec.cons { c.expr.rpn(&mut toks); }
            let used = toks.windows(2).any(|t| t[0] == 3 && t[1] == i as u64);
            if !used { continue; }
            let mut q = p.clone();
            q.public_inputs[i] += F::ONE;
            n += judge(w, &subject, "public_input", i, &base, ch(&q, cfg), 1);
        }
        // configuration
        let first = if stark.uses_lookups() { 0 } else { 1 };
        for (name, c2) in [("pow_bits", { let mut c = cfg.clone(); c.fri_config.proof_of_work_bits += 1; c }),
                           ("security_bits", { let mut c = cfg.clone(); c.security_bits += 1; c }),
                           ("num_query_rounds", { let mut c = cfg.clone(); c.fri_config.num_query_rounds += 1; c })] {
            n += judge(w, &subject, &format!("config_{name}"), 0, &base, ch(&p, &c2).map(|mut s| { if name == "num_query_rounds" { let l = s.len(); s[l - 1].pop(); } s }), first);
        }
        n
    }
}

fn system_sensitivity(w: &mut dyn Write, r: &mut Rng, sys: &System, sname: &str, cfg: &StarkConfig) -> usize {
    let (_, vo, proofs) = pv_system(sys, cfg, None);
    let Some(proofs) = proofs else { return 0 };
    if vo != "ok" { return 0; }   // completeness of such systems is C10's business (two known findings there)
    let nt = proofs.len();
    let ctls: Vec<CrossTableLookup<F>> = sys.ctls.iter().map(|c| CrossTableLookup::new(c.looking.iter().map(|t| t.to_twc()).collect(), c.looked.to_twc())).collect();
    // challenges of table i for a list of proofs (the trace caps of ALL tables enter the shared challenger)
    let table_stages = |ps: &[Sp], i: usize, cfg: &StarkConfig| -> Option<Vec<Vec<u64>>> {
        catch_unwind(AssertUnwindSafe(|| {
            let (challenger, ctl_challenges): (Challenger<F, H>, GrandProductChallengeSet<F>) = ctl_challenges_of(ps, cfg);
            let stark = S4 { spec: sys.tables[i].spec.clone() };
            let (nhelp, _nz, by_ctl) = CrossTableLookup::num_ctl_helpers_zs_all(&ctls, i, cfg.num_challenges, stark.constraint_degree());
            let nlk = stark.num_lookup_helper_columns(cfg);
            let ctl_vars = CtlCheckVars::from_proof(i, &ps[i].proof, &ctls, &ctl_challenges, nlk, nhelp, &by_ctl);
            let mut ch = challenger.clone();
            stages(&ps[i].get_challenges(&stark, &mut ch, Some(&ctl_challenges), Some(&ctl_vars), true, cfg, None))
        })).ok()
    };
    let mut n = 0;
    for i in 0..nt {
        let subject = format!("{sname}/table{i}{}", if sys.tables[i].spec.lookups.is_empty() { "-ctlonly" } else { "" });
        let Some(base) = table_stages(&proofs, i, cfg) else { continue };
        let nb = proofs[i].proof.opening_proof.commit_phase_merkle_caps.len();
        let root = serde_json::to_value(&proofs[i]).unwrap();
        for (comp, pos, path, idx, exp) in edits(&proofs[i], r, nb, true) {
            let mut v = root.clone();
            if !bump_json(&mut v, &path, &idx) { continue; }
            let Ok(q) = serde_json::from_value::<Sp>(v) else { continue };
            let mut ps = proofs.clone();
            ps[i] = q;
            n += judge(w, &subject, &comp, pos, &base, table_stages(&ps, i, cfg), exp);
        }
        // the trace cap of ANOTHER table: the shared lookup challenges, hence everything, must change
        let j = (i + 1) % nt;
        let mut ps = proofs.clone();
        ps[j].proof.trace_cap.0[0].elements[1] += F::ONE;
        n += judge(w, &subject, "other_table_trace_cap", j, &base, table_stages(&ps, i, cfg), 0);
    }
    n
}

/// Challenger::fri_challenges with the variable-degree options: every commit cap, every final-polynomial
/// coefficient and the grinding witness must influence what is drawn after them for EVERY combination of
/// `final_poly_coeff_len` (absent, equal, longer = zero padding, SHORTER than the proof's polynomial) and
/// `max_num_query_steps` (absent, equal, larger = zero caps).
fn fri_challenges_options(w: &mut dyn Write, r: &mut Rng, thorough: bool) -> usize {
    use plonky2::field::extension::quadratic::QuadraticExtension;
    use plonky2::field::polynomial::PolynomialCoeffs;
    use plonky2::hash::hash_types::HashOut;
    use plonky2::hash::merkle_tree::MerkleCap;
    let cfg = stark_configs()[0].1.fri_config.clone();
    let mut n = 0;
    let rand_fe = |r: &mut Rng| QuadraticExtension::<F>([rf(r), rf(r)]);
    for (ncoef, ncaps) in [(8usize, 2usize), (16, 1), (1, 0), (4, 3)] {
        if !thorough && ncoef == 4 { continue; }
        let caps: Vec<MerkleCap<F, H>> = (0..ncaps).map(|_| MerkleCap((0..(1usize << cfg.cap_height)).map(|_| HashOut { elements: [rf(r), rf(r), rf(r), rf(r)] }).collect())).collect();
        let poly = PolynomialCoeffs::new((0..ncoef).map(|_| rand_fe(r)).collect());
        let pw = rf(r);
        let lens: Vec<Option<usize>> = vec![None, Some(ncoef), Some(2 * ncoef), Some(ncoef / 2), Some(1), Some(0)];
        let steps: Vec<Option<usize>> = vec![None, Some(ncaps), Some(ncaps + 2)];
        for fl in &lens {
            for st in &steps {
                let stage = |caps: &[MerkleCap<F, H>], poly: &PolynomialCoeffs<FE>, pw: F| -> Option<Vec<Vec<u64>>> {
                    catch_unwind(AssertUnwindSafe(|| {
                        let mut ch = Challenger::<F, H>::new();
                        let c = ch.fri_challenges::<C, D>(caps, poly, pw, 6, &cfg, *fl, *st);
                        let mut v = vec![c.fri_alpha.0.iter().map(|x| x.to_canonical_u64()).collect::<Vec<_>>()];
                        for b in &c.fri_betas { v.push(b.0.iter().map(|x| x.to_canonical_u64()).collect()); }
                        v.push(vec![c.fri_pow_response.to_canonical_u64()]);
                        v.push(c.fri_query_indices.iter().map(|x| *x as u64).collect());
                        v
                    })).ok()
                };
                let Some(base) = stage(&caps, &poly, pw) else { continue };
                let subject = format!("fri_challenges/coeffs{ncoef}-caps{ncaps}-len{}-steps{}", fl.map_or("none".into(), |x| x.to_string()), st.map_or("none".into(), |x| x.to_string()));
                // the padding arguments are DEFINED by explicit padding (Model/RecursionParts.v native_ops = circuit_ops of
                // the padded proof, Props/C11.v): the same challenges as for zero caps / zero coefficients written out
                if fl.map_or(true, |l| l >= ncoef) && st.map_or(true, |k| k >= ncaps) {
                    let mut caps_p = caps.clone();
                    for _ in ncaps..st.unwrap_or(ncaps) { caps_p.push(MerkleCap(vec![HashOut { elements: [F::ZERO; 4] }; 1usize << cfg.cap_height])); }
                    let mut poly_p = poly.clone();
                    for _ in ncoef..fl.unwrap_or(ncoef) { poly_p.coeffs.push(FE::ZERO); }
                    let explicit = catch_unwind(AssertUnwindSafe(|| {
                        let mut ch = Challenger::<F, H>::new();
                        let c = ch.fri_challenges::<C, D>(&caps_p, &poly_p, pw, 6, &cfg, None, None);
                        (c.fri_alpha, c.fri_betas[..ncaps].to_vec(), c.fri_pow_response, c.fri_query_indices.clone())
                    }));
                    let implicit = catch_unwind(AssertUnwindSafe(|| {
                        let mut ch = Challenger::<F, H>::new();
                        let c = ch.fri_challenges::<C, D>(&caps, &poly, pw, 6, &cfg, *fl, *st);
                        (c.fri_alpha, c.fri_betas[..ncaps].to_vec(), c.fri_pow_response, c.fri_query_indices.clone())
                    }));
                    let same = matches!((&explicit, &implicit), (Ok(a), Ok(b)) if a == b);
                    writeln!(w, "c04 stark:{subject} padding-equals-explicit-zeros 0 = {} # zero caps up to the step count and zero coefficients up to the length, written out", same as u8).unwrap();
                    n += 1;
                }
                for j in 0..ncoef {
                    if ncoef > 8 && j % 3 != 0 && j != ncoef - 1 { continue; }
                    let mut p2 = poly.clone();
                    p2.coeffs[j] += FE::ONE;
                    n += judge(w, &subject, "final_poly", j, &base, stage(&caps, &p2, pw), 1 + ncaps);
                }
                for i in 0..ncaps {
                    let mut c2 = caps.clone();
                    c2[i].0[0].elements[1] += F::ONE;
                    n += judge(w, &subject, &format!("commit_cap_{i}"), i, &base, stage(&c2, &poly, pw), 1 + i);
                }
                n += judge(w, &subject, "pow_witness", 0, &base, stage(&caps, &poly, pw + F::ONE), 1 + ncaps);
            }
        }
    }
    n
}

pub fn run(r: &mut Rng, tier: &str, w: &mut dyn Write) -> usize {
    let thorough = tier == "thorough";
    let cfgs = stark_configs();
    let mut n = 0;
    n += fri_challenges_options(w, r, thorough);
    // random STARKs without lookups (with public inputs), lookup STARKs
    let mut singles: Vec<(String, Built, usize)> = vec![];
    singles.push(("random-c3p3-d2".into(), build_random(r, 3, 3, 2, 32), 0));
    singles.push(("lookup-k3-deg3".into(), build_perm(r, 32, 3, 3, true), 4));
    if thorough {
        singles.push(("random-c5p1-d3".into(), build_random(r, 5, 1, 3, 64), 2));
        singles.push(("lookup-k2-deg2".into(), build_perm(r, 16, 2, 2, false), 1));
        singles.push(("lookup-k4-deg3".into(), build_perm(r, 64, 4, 3, true), 3));
    }
    for (name, b, ci) in singles {
        let cfg = &cfgs[ci].1;
        let drv = driver(b.spec.clone());
        let (_, vo, proof) = pv(&drv, cfg, &b.rows, &b.pis);
        let Some(p) = proof else { writeln!(w, "c04info stark:{name} no proof").unwrap(); continue };
        if vo != "ok" { writeln!(w, "c04info stark:{name} honest proof not accepted ({vo})").unwrap(); continue }
        n += visit_fam(b.spec.clone(), Single { w: &mut *w, r: &mut *r, subject: format!("{name}/{}", cfgs[ci].0), cfg, p });
    }
    // cross-table-lookup systems
    let tops: Vec<usize> = if thorough { vec![0, 1, 2, 3, 5] } else { vec![0, 2] };
    for top in tops {
        let sys = build_system(r, top, 3, &[3, 4, 3, 4]);
        let ci = [0usize, 4][top % 2];
        n += system_sensitivity(w, r, &sys, &format!("ctl-top{top}/{}", cfgs[ci].0), &cfgs[ci].1);
    }
    n
}
