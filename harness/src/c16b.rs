//! C16, part 2: `FriProof::compress`, `CompressedFriProof::decompress` and
//! `get_inferred_elements` of the REAL implementation against Model/FriCompress.v.
//! Lines (formats in coq/Model/C16Run2.v):
//!   fricompress   <fri proof> <indices> <params>                        = <compressed, maps sorted by key> | panic
//!   fridecompress <compressed> <indices> <inferred> <params>            = <fri proof> | panic
//!   friinferred   <instance> <openings> <challenges> <compressed> <params> = <inferred> | panic
//! on real proofs with many queries over small domains (repeated indices and shared cosets at every
//! layer) and on INCONSISTENT inputs (a repeated index carrying altered data, missing map entries,
//! too few inferred elements, truncated compressed paths, index lists of the wrong length, altered
//! parameters) where the model has to predict the same output or the same panic.
use std::io::Write;
use std::panic::{catch_unwind, AssertUnwindSafe};

use plonky2::field::goldilocks_field::GoldilocksField as F;
use plonky2::field::types::Field;
use plonky2::fri::proof::{CompressedFriProof, FriInitialTreeProof, FriProof, FriQueryStep};
use plonky2::fri::reduction_strategies::FriReductionStrategy;
use plonky2::fri::FriParams;
use plonky2::plonk::circuit_data::CircuitConfig;
use plonky2::plonk::verif_hooks as hooks;

use crate::corpus::*;
use crate::dsl::D;
use crate::rng::Rng;

type Cfp = CompressedFriProof<F, H, D>;
type Fp = FriProof<F, H, D>;

fn many_queries(rate: usize, cap: usize, strat: FriReductionStrategy, queries: usize, zk: bool, nch: usize) -> CircuitConfig {
    let fri = fri_config(rate, cap, 1, strat, queries);
    CircuitConfig { num_challenges: nch, zero_knowledge: zk, security_bits: (queries * rate + 1).min(100), fri_config: fri,
                    ..CircuitConfig::standard_recursion_config() }
}

fn usizes(o: &mut Vec<u64>, xs: &[usize]) {
    o.push(xs.len() as u64);
    o.extend(xs.iter().map(|x| *x as u64));
}

fn dump_initial(o: &mut Vec<u64>, ip: &FriInitialTreeProof<F, H>) {
    o.push(ip.evals_proofs.len() as u64);
    for (evals, mp) in &ip.evals_proofs { fes(o, evals); mproof(o, mp); }
}

fn dump_step(o: &mut Vec<u64>, s: &FriQueryStep<F, H, D>) {
    exts(o, &s.evals);
    mproof(o, &s.merkle_proof);
}

/// flat dump of a compressed FRI proof, the entries of every map in ascending key order
pub fn dump_compressed(o: &mut Vec<u64>, c: &Cfp) {
    o.push(c.commit_phase_merkle_caps.len() as u64);
    for cp in &c.commit_phase_merkle_caps { cap(o, cp) }
    let q = &c.query_round_proofs;
    usizes(o, &q.indices);
    let mut keys: Vec<usize> = q.initial_trees_proofs.keys().copied().collect();
    keys.sort();
    o.push(keys.len() as u64);
    for k in keys { o.push(k as u64); dump_initial(o, &q.initial_trees_proofs[&k]); }
    o.push(q.steps.len() as u64);
    for m in &q.steps {
        let mut keys: Vec<usize> = m.keys().copied().collect();
        keys.sort();
        o.push(keys.len() as u64);
        for k in keys { o.push(k as u64); dump_step(o, &m[&k]); }
    }
    exts(o, &c.final_poly.coeffs);
    o.push(plonky2::field::types::PrimeField64::to_canonical_u64(&c.pow_witness));
}

fn show(v: &[u64]) -> String { v.iter().map(|x| x.to_string()).collect::<Vec<_>>().join(" ") }

/// one `fricompress` line; returns the compressed proof when the real code did not panic
fn compress_line(w: &mut dyn Write, n: &mut usize, p: &Fp, idx: &[usize], params: &FriParams, tag: &str) -> Option<Cfp> {
    let mut args = vec![];
    dump_fri_proof(&mut args, p);
    usizes(&mut args, idx);
    dump_fri_params(&mut args, params);
    let r = catch_unwind(AssertUnwindSafe(|| p.clone().compress(idx, params)));
    let res = match &r { Ok(c) => { let mut o = vec![]; dump_compressed(&mut o, c); show(&o) } Err(_) => "panic".into() };
    writeln!(w, "{} # {tag}", line("fricompress", &args, &res)).unwrap();
    *n += 1;
    r.ok()
}

fn decompress_line(w: &mut dyn Write, n: &mut usize, c: &Cfp, idx: &[usize], inferred: &[FE], params: &FriParams, tag: &str) -> Option<Fp> {
    let mut args = vec![];
    dump_compressed(&mut args, c);
    usizes(&mut args, idx);
    exts(&mut args, inferred);
    dump_fri_params(&mut args, params);
    let r = catch_unwind(AssertUnwindSafe(|| hooks::fri_decompress(c.clone(), idx.to_vec(), inferred.to_vec(), params)));
    let res = match &r { Ok(p) => { let mut o = vec![]; dump_fri_proof(&mut o, p); show(&o) } Err(_) => "panic".into() };
    writeln!(w, "{} # {tag}", line("fridecompress", &args, &res)).unwrap();
    *n += 1;
    r.ok()
}

/// position of the last query whose index already occurred, and of the last query whose coset at
/// the first reduction already occurred with a DIFFERENT index
fn repeats(idx: &[usize], arity0: Option<usize>) -> (Option<usize>, Option<usize>) {
    let mut rep = None; let mut cos = None;
    for i in 0..idx.len() {
        if idx[..i].contains(&idx[i]) { rep = Some(i) }
        else if let Some(a) = arity0 { if idx[..i].iter().any(|x| x >> a == idx[i] >> a) { cos = Some(i) } }
    }
    (rep, cos)
}

pub fn run(r: &mut Rng, tier: &str, w: &mut dyn Write) -> usize {
    let mut n = 0;
    // rate_bits >= 3 is forced by the quotient degree factor 8 of the standard configuration
    let mut cfgs = vec![
        many_queries(3, 0, FriReductionStrategy::ConstantArityBits(1, 1), 14, false, 1),
        many_queries(3, 1, FriReductionStrategy::ConstantArityBits(2, 1), 16, false, 1),
        many_queries(3, 2, FriReductionStrategy::Fixed(vec![1, 2]), 12, false, 2),
        many_queries(3, 1, FriReductionStrategy::ConstantArityBits(1, 2), 10, true, 1),
    ];
    if tier == "thorough" {
        cfgs.push(many_queries(3, 0, FriReductionStrategy::MinSize(None), 18, false, 1));
        cfgs.push(many_queries(3, 3, FriReductionStrategy::ConstantArityBits(3, 1), 20, false, 2));
        cfgs.push(many_queries(4, 2, FriReductionStrategy::Fixed(vec![2, 1, 1]), 14, false, 1));
        cfgs.push(many_queries(3, 0, FriReductionStrategy::MinSize(Some(2)), 12, false, 2));
        cfgs.push(many_queries(3, 1, FriReductionStrategy::Fixed(vec![]), 10, false, 1));
    }
    let reps = if tier == "thorough" { 2 } else { 1 };
    for (ci, cfg) in cfgs.iter().enumerate() {
        for rep in 0..reps {
            let kinds = [7u32, 3, 17, 31][(ci + rep) % 4];
            let prog = gen_program(r, 4 + 6 * rep, kinds);
            let b = match build_and_prove(&prog, cfg) { Ok(b) => b, Err(e) => { writeln!(w, "c16 b{ci}.{rep} build = 0 # {e}").unwrap(); n += 1; continue } };
            let common = &b.data.common;
            let params = common.fri_params.clone();
            if params.degree_bits > 10 { writeln!(w, "c16 b{ci}.{rep} skipped = 1 # degree_bits {} > 10", params.degree_bits).unwrap(); n += 1; continue }
            let digest = &b.data.verifier_only.circuit_digest;
            let chs = match b.proof.get_challenges(b.proof.get_public_inputs_hash(), digest, common) { Ok(c) => c, Err(_) => continue };
            let idx = chs.fri_challenges.fri_query_indices.clone();
            let fp: Fp = b.proof.proof.opening_proof.clone();
            let arity0 = params.reduction_arity_bits.first().copied();
            let (rep_pos, cos_pos) = repeats(&idx, arity0);
            let tag = format!("b{ci}.{rep} degree_bits {} queries {} repeated {} shared-coset {}", params.degree_bits, idx.len(),
                              rep_pos.is_some() as u8, cos_pos.is_some() as u8);

            // ---- the honest proof: compress, inferred elements, decompress
            let comp = match compress_line(w, &mut n, &fp, &idx, &params, &tag) { Some(c) => c, None => continue };
            let cpwpi = match catch_unwind(AssertUnwindSafe(|| b.data.compress(b.proof.clone()))) { Ok(Ok(c)) => c, _ => continue };
            // the FRI part of CircuitData::compress is the same function
            writeln!(w, "c16 b{ci}.{rep} same-as-circuit-compress = {}", (cpwpi.proof.opening_proof == comp) as u8).unwrap();
            n += 1;
            let inst = hooks::get_fri_instance(common, chs.plonk_zeta);
            let openings = hooks::to_fri_openings(&b.proof.proof.openings);
            let inferred_line = |w: &mut dyn Write, n: &mut usize, c: &plonky2::plonk::proof::CompressedProofWithPublicInputs<F, C, D>, tag: &str| -> Option<Vec<FE>> {
                let mut args = vec![];
                args.push(inst.oracles.len() as u64);
                for or in &inst.oracles { args.extend([or.num_polys as u64, or.blinding as u64]); }
                args.push(inst.batches.len() as u64);
                for bt in &inst.batches {
                    ext(&mut args, &bt.point);
                    args.push(bt.polynomials.len() as u64);
                    for p in &bt.polynomials { args.extend([p.oracle_index as u64, p.polynomial_index as u64]); }
                }
                args.push(openings.batches.len() as u64);
                for bt in &openings.batches { exts(&mut args, &bt.values); }
                let fc = &chs.fri_challenges;
                ext(&mut args, &fc.fri_alpha);
                exts(&mut args, &fc.fri_betas);
                args.push(plonky2::field::types::PrimeField64::to_canonical_u64(&fc.fri_pow_response));
                usizes(&mut args, &fc.fri_query_indices);
                dump_compressed(&mut args, &c.proof.opening_proof);
                dump_fri_params(&mut args, &params);
                let r = catch_unwind(AssertUnwindSafe(|| hooks::get_inferred_elements(c, &chs, common)));
                let res = match &r { Ok(v) => { let mut o = vec![]; exts(&mut o, v); show(&o) } Err(_) => "panic".into() };
                writeln!(w, "{} # {tag}", line("friinferred", &args, &res)).unwrap();
                *n += 1;
                r.ok()
            };
            let inferred = match inferred_line(w, &mut n, &cpwpi, &tag) { Some(v) => v, None => continue };
            let back = decompress_line(w, &mut n, &comp, &idx, &inferred, &params, &tag);
            writeln!(w, "c16 b{ci}.{rep} fri-roundtrip = {}", matches!(&back, Some(p) if *p == fp) as u8).unwrap();
            n += 1;

            // ---- inconsistent originals: the data of a later query of a repeated index / coset altered
            let nt = fp.query_round_proofs[0].initial_trees_proof.evals_proofs.len();
            let mut variants: Vec<(String, Fp)> = vec![];
            if let Some(i) = rep_pos {
                let mut q = fp.clone();
                let t = r.below(nt as u64) as usize;
                q.query_round_proofs[i].initial_trees_proof.evals_proofs[t].0[0] += F::ONE;
                variants.push((format!("repeated index: leaf of oracle {t} altered in the later query"), q));
                let mut q = fp.clone();
                if let Some(s) = q.query_round_proofs[i].initial_trees_proof.evals_proofs[0].1.siblings.first_mut() { s.elements[1] += F::ONE; }
                variants.push(("repeated index: first sibling altered in the later query".into(), q));
                if !fp.query_round_proofs[i].steps.is_empty() {
                    let mut q = fp.clone();
                    let e = &mut q.query_round_proofs[i].steps[0].evals;
                    let k = r.below(e.len() as u64) as usize;
                    e[k] += FE::ONE;
                    variants.push((format!("repeated index: step 0 eval {k} altered in the later query"), q));
                }
            }
            if let Some(i) = cos_pos {
                let mut q = fp.clone();
                let e = &mut q.query_round_proofs[i].steps[0].evals;
                let k = r.below(e.len() as u64) as usize;
                e[k] += FE::ONE;
                variants.push((format!("shared coset: step 0 eval {k} altered in the later query"), q));
            }
            {
                // the FIRST query altered (kept by compress; decompress then rebuilds other paths)
                let mut q = fp.clone();
                q.query_round_proofs[0].initial_trees_proof.evals_proofs[nt - 1].0[0] += F::ONE;
                variants.push(("first query: leaf altered".into(), q));
                let mut q = fp.clone();
                q.query_round_proofs[0].initial_trees_proof.evals_proofs[0].1.siblings.pop();
                variants.push(("first query: Merkle path one sibling short".into(), q));
                let mut q = fp.clone();
                q.query_round_proofs.pop();
                variants.push(("one query round fewer than indices".into(), q));
                if !fp.query_round_proofs[0].steps.is_empty() {
                    let mut q = fp.clone();
                    q.query_round_proofs[0].steps[0].evals.pop();
                    variants.push(("first query: step 0 has one eval fewer".into(), q));
                    let mut q = fp.clone();
                    let last = q.query_round_proofs.len() - 1;
                    q.query_round_proofs[last].steps.pop();
                    variants.push(("last query: one step fewer".into(), q));
                }
                let mut q = fp.clone();
                let last = q.query_round_proofs.len() - 1;
                q.query_round_proofs[last].initial_trees_proof.evals_proofs.pop();
                variants.push(("last query: one oracle fewer".into(), q));
            }
            for (what, q) in &variants {
                if let Some(c2) = compress_line(w, &mut n, q, &idx, &params, what) {
                    // decompress what compress produced, with the honest inferred elements
                    decompress_line(w, &mut n, &c2, &idx, &inferred, &params, &format!("decompress of: {what}"));
                }
            }
            // index lists that are not the proof's
            {
                let mut i2 = idx.clone(); i2.pop();
                compress_line(w, &mut n, &fp, &i2, &params, "one index fewer than rounds");
                let mut i2 = idx.clone(); i2.push(idx[0]);
                compress_line(w, &mut n, &fp, &i2, &params, "one index more than rounds");
                compress_line(w, &mut n, &fp, &[], &params, "no indices");
                let mut i2 = idx.clone();
                let k = r.below(i2.len() as u64) as usize;
                i2[k] ^= 1;
                if let Some(c2) = compress_line(w, &mut n, &fp, &i2, &params, "one index with its low bit flipped") {
                    decompress_line(w, &mut n, &c2, &i2, &inferred, &params, "decompress of: one index with its low bit flipped");
                }
                let mut i2 = idx.clone();
                i2[k] += 1 << (params.degree_bits + params.config.rate_bits);
                compress_line(w, &mut n, &fp, &i2, &params, "one index out of the domain");
                // altered parameters (compress reads cap_height and reduction_arity_bits only)
                let mut p2 = params.clone(); p2.config.cap_height += 1;
                compress_line(w, &mut n, &fp, &idx, &p2, "cap_height + 1");
                let mut p2 = params.clone(); p2.reduction_arity_bits.push(1);
                compress_line(w, &mut n, &fp, &idx, &p2, "one more reduction than steps");
                if !params.reduction_arity_bits.is_empty() {
                    let mut p2 = params.clone(); p2.reduction_arity_bits.pop();
                    compress_line(w, &mut n, &fp, &idx, &p2, "one reduction fewer than steps");
                }
            }
            // ---- inconsistent compressed proofs / decompression inputs
            {
                if !inferred.is_empty() {
                    let mut inf2 = inferred.clone(); inf2.pop();
                    decompress_line(w, &mut n, &comp, &idx, &inf2, &params, "one inferred element too few");
                    let mut inf2 = inferred.clone();
                    let k = r.below(inf2.len() as u64) as usize;
                    inf2[k] += FE::ONE;
                    decompress_line(w, &mut n, &comp, &idx, &inf2, &params, "an inferred element altered");
                }
                let mut inf2 = inferred.clone(); inf2.push(FE::ONE);
                decompress_line(w, &mut n, &comp, &idx, &inf2, &params, "one inferred element too many");
                decompress_line(w, &mut n, &comp, &idx, &[], &params, "no inferred elements");
                // a missing entry of the initial map / of a step map
                let mut c2 = comp.clone();
                let k = *r.pick(&idx);
                c2.query_round_proofs.initial_trees_proofs.remove(&k);
                if !c2.query_round_proofs.initial_trees_proofs.is_empty() {
                    decompress_line(w, &mut n, &c2, &idx, &inferred, &params, "initial map entry removed");
                }
                if let Some(a) = arity0 {
                    let mut c2 = comp.clone();
                    c2.query_round_proofs.steps[0].remove(&(k >> a));
                    decompress_line(w, &mut n, &c2, &idx, &inferred, &params, "step map entry removed");
                    let mut c2 = comp.clone();
                    c2.query_round_proofs.steps.pop();
                    decompress_line(w, &mut n, &c2, &idx, &inferred, &params, "last step map removed");
                    // a stored coset with one evaluation fewer / more
                    let mut c2 = comp.clone();
                    c2.query_round_proofs.steps[0].get_mut(&(k >> a)).unwrap().evals.pop();
                    decompress_line(w, &mut n, &c2, &idx, &inferred, &params, "stored coset one evaluation short");
                }
                // a compressed path with its last sibling dropped (the iterator runs dry), if any is non-empty
                let mut c2 = comp.clone();
                let mut done = false;
                let mut keys: Vec<usize> = c2.query_round_proofs.initial_trees_proofs.keys().copied().collect();
                keys.sort();
                for k in keys {
                    let ip = c2.query_round_proofs.initial_trees_proofs.get_mut(&k).unwrap();
                    if ip.evals_proofs[0].1.siblings.pop().is_some() { done = true; break }
                }
                if done { decompress_line(w, &mut n, &c2, &idx, &inferred, &params, "compressed path one sibling short"); }
                // an altered leaf / sibling in the compressed proof: decompression recomputes other paths from it
                let mut c2 = comp.clone();
                c2.query_round_proofs.initial_trees_proofs.get_mut(&k).unwrap().evals_proofs[0].0[0] += F::ONE;
                decompress_line(w, &mut n, &c2, &idx, &inferred, &params, "leaf altered in the compressed proof");
                // other index lists: a permutation (all keys present), a shorter list, a foreign index
                let mut i2 = idx.clone(); i2.reverse();
                decompress_line(w, &mut n, &comp, &i2, &inferred, &params, "indices reversed");
                let mut i2 = idx.clone(); i2.pop();
                decompress_line(w, &mut n, &comp, &i2, &inferred, &params, "one index fewer");
                decompress_line(w, &mut n, &comp, &[], &inferred, &params, "no indices");
                let mut i2 = idx.clone();
                let absent = (0..(1usize << (params.degree_bits + params.config.rate_bits))).find(|x| !idx.contains(x));
                if let Some(x) = absent { i2[0] = x; decompress_line(w, &mut n, &comp, &i2, &inferred, &params, "an index without map entry"); }
            }
            // ---- inferred elements of an inconsistent compressed proof
            {
                let mut c2 = cpwpi.clone();
                let k = *r.pick(&idx);
                c2.proof.opening_proof.query_round_proofs.initial_trees_proofs.remove(&k);
                inferred_line(w, &mut n, &c2, "initial map entry removed");
                if let Some(a) = arity0 {
                    let mut c2 = cpwpi.clone();
                    c2.proof.opening_proof.query_round_proofs.steps[0].remove(&(k >> a));
                    inferred_line(w, &mut n, &c2, "step map entry removed");
                    let mut c2 = cpwpi.clone();
                    let e = &mut c2.proof.opening_proof.query_round_proofs.steps[0].get_mut(&(k >> a)).unwrap().evals;
                    if !e.is_empty() { e[0] += FE::ONE; }
                    inferred_line(w, &mut n, &c2, "stored coset evaluation altered");
                }
                let mut c2 = cpwpi.clone();
                c2.proof.opening_proof.query_round_proofs.initial_trees_proofs.get_mut(&k).unwrap().evals_proofs[1].0[0] += F::ONE;
                inferred_line(w, &mut n, &c2, "stored leaf altered");
            }
        }
    }
    n
}
