//! C07: every value a gate computes is pinned by that gate's constraints.
//! Runs the REAL gate code of /repo/plonky2/src/gates on a grid of parameter values:
//!   evalext      Gate::eval_unfiltered (D = 2)                        -> constraint values (2 ints each)
//!   evalbase     Gate::eval_unfiltered_base_batch (packed dispatch)   -> constraint values
//!   basevsext    both evaluators on the same base-field row           -> num_constraints, base.., ext..
//!   evalcirc     eval_unfiltered_circuit in a tiny circuit + witness generation -> constraint values
//!   circuit_agrees                                                   -> 1 if equal to eval_unfiltered
//!   generate     the gate's SimpleGenerators on a PartitionWitness    -> the full row
//!   written      wires written by the generators (sorted)
//!   gensat       base constraint values of a generated row (the oracle wants all zero)
//!   pinned       base constraint values of a generated row with one written wire replaced
//!   sizes        num_wires num_constants degree num_constraints
//!   lowdeg       measured max degree of the constraint polynomials (as gate_testing::test_low_degree)
//!   filter / evalfiltered   compute_filter through Gate::eval_filtered
//!   cosetnew / subgroup     CosetInterpolationGate::new parameters, two_adic_subgroup
//!   absdeg       constant 1: the model answers 1 iff its abstract degree bound <= the declared degree
//!   genguard     (debug builds only) 1 if the generators run without panicking
//! Gate encoding on a line: <code> <params..>, see coq/Model/C07Run.v.
use std::io::Write;
use std::panic::{catch_unwind, AssertUnwindSafe};
use std::sync::Arc;

use plonky2::gates::arithmetic_base::ArithmeticGate;
use plonky2::gates::arithmetic_extension::ArithmeticExtensionGate;
use plonky2::gates::base_sum::BaseSumGate;
use plonky2::gates::constant::ConstantGate;
use plonky2::gates::coset_interpolation::CosetInterpolationGate;
use plonky2::gates::exponentiation::ExponentiationGate;
use plonky2::gates::gate::GateRef;
use plonky2::gates::lookup::LookupGate;
use plonky2::gates::lookup_table::LookupTableGate;
use plonky2::gates::multiplication_extension::MulExtensionGate;
use plonky2::gates::noop::NoopGate;
use plonky2::gates::poseidon::PoseidonGate;
use plonky2::gates::poseidon_mds::PoseidonMdsGate;
use plonky2::gates::public_input::PublicInputGate;
use plonky2::gates::random_access::RandomAccessGate;
use plonky2::gates::reducing::ReducingGate;
use plonky2::gates::reducing_extension::ReducingExtensionGate;
use plonky2::hash::hash_types::HashOut;
use plonky2::iop::generator::GeneratedValues;
use plonky2::iop::target::Target;
use plonky2::iop::witness::{PartialWitness, PartitionWitness, Witness, WitnessWrite};
use plonky2::plonk::circuit_builder::CircuitBuilder;
use plonky2::plonk::circuit_data::CircuitConfig;
use plonky2::plonk::config::PoseidonGoldilocksConfig;
use plonky2::plonk::vars::{EvaluationTargets, EvaluationVars, EvaluationVarsBaseBatch};
use plonky2_field::extension::quadratic::QuadraticExtension;
use plonky2_field::extension::FieldExtension;
use plonky2_field::goldilocks_field::GoldilocksField as F;
use plonky2_field::interpolation::barycentric_weights;
use plonky2_field::polynomial::{PolynomialCoeffs, PolynomialValues};
use plonky2_field::types::{Field, PrimeField64};

use crate::rng::*;

const D: usize = 2;
type FE = QuadraticExtension<F>;
type C = PoseidonGoldilocksConfig;

#[derive(Clone)]
struct Desc {
    code: Vec<u64>,
    gate: GateRef<F, D>,
    kind: Kind,
}

#[derive(Clone, Copy, PartialEq, Debug)]
enum Kind {
    Arith(usize),
    ArithExt(usize),
    MulExt(usize),
    BaseSum(usize, usize),
    Constant(usize),
    Coset(usize, usize),
    Exp(usize),
    Poseidon,
    PoseidonMds,
    PublicInput,
    RandomAccess(usize, usize, usize),
    Reducing(usize),
    ReducingExt(usize),
    Noop,
    Lookup(usize),
    LookupTable(usize),
}

fn base_sum_gate(b: usize, n: usize) -> Option<GateRef<F, D>> {
    Some(match b {
        1 => GateRef::new(BaseSumGate::<1>::new(n)),
        2 => GateRef::new(BaseSumGate::<2>::new(n)),
        3 => GateRef::new(BaseSumGate::<3>::new(n)),
        4 => GateRef::new(BaseSumGate::<4>::new(n)),
        5 => GateRef::new(BaseSumGate::<5>::new(n)),
        7 => GateRef::new(BaseSumGate::<7>::new(n)),
        16 => GateRef::new(BaseSumGate::<16>::new(n)),
        _ => return None,
    })
}

fn coset_gate(bits: usize, degree: usize) -> CosetInterpolationGate<F, D> {
    // all fields but the PhantomData are public: build with Default and set them
    let mut g = CosetInterpolationGate::<F, D>::default();
    g.subgroup_bits = bits;
    g.degree = degree;
    g.barycentric_weights =
        barycentric_weights(&F::two_adic_subgroup(bits).into_iter().map(|x| (x, F::ZERO)).collect::<Vec<_>>());
    g
}

fn lookup_config(routed: usize) -> CircuitConfig {
    CircuitConfig { num_routed_wires: routed, ..CircuitConfig::standard_recursion_config() }
}

fn desc(kind: Kind) -> Desc {
    let (code, gate): (Vec<u64>, GateRef<F, D>) = match kind {
        Kind::Arith(n) => (vec![0, n as u64], GateRef::new(ArithmeticGate { num_ops: n })),
        Kind::ArithExt(n) => (vec![1, n as u64], GateRef::new(ArithmeticExtensionGate::<D> { num_ops: n })),
        Kind::MulExt(n) => (vec![2, n as u64], GateRef::new(MulExtensionGate::<D> { num_ops: n })),
        Kind::BaseSum(b, n) => (vec![3, b as u64, n as u64], base_sum_gate(b, n).expect("base")),
        Kind::Constant(n) => (vec![4, n as u64], GateRef::new(ConstantGate::new(n))),
        Kind::Coset(bits, degree) => {
            let g = coset_gate(bits, degree);
            let mut code = vec![5, bits as u64, degree as u64, g.barycentric_weights.len() as u64];
            code.extend(g.barycentric_weights.iter().map(|x| x.to_canonical_u64()));
            (code, GateRef::new(g))
        }
        Kind::Exp(n) => (vec![6, n as u64], GateRef::new(ExponentiationGate::<F, D>::new(n))),
        Kind::Poseidon => (vec![7], GateRef::new(PoseidonGate::<F, D>::new())),
        Kind::PoseidonMds => (vec![8], GateRef::new(PoseidonMdsGate::<F, D>::new())),
        Kind::PublicInput => (vec![9], GateRef::new(PublicInputGate)),
        Kind::RandomAccess(bits, copies, extra) => {
            let mut g = RandomAccessGate::<F, D>::default();
            g.bits = bits;
            g.num_copies = copies;
            g.num_extra_constants = extra;
            (vec![10, bits as u64, copies as u64, extra as u64], GateRef::new(g))
        }
        Kind::Reducing(n) => (vec![11, n as u64], GateRef::new(ReducingGate::<D>::new(n))),
        Kind::ReducingExt(n) => (vec![12, n as u64], GateRef::new(ReducingExtensionGate::<D>::new(n))),
        Kind::Noop => (vec![13], GateRef::new(NoopGate)),
        Kind::Lookup(routed) => {
            let lut = Arc::new(vec![(0u16, 1u16), (1, 2), (2, 3), (5, 7)]);
            let g = LookupGate::new_from_table(&lookup_config(routed), lut);
            (vec![14, g.num_slots as u64], GateRef::new(g))
        }
        Kind::LookupTable(routed) => {
            let lut = Arc::new(vec![(0u16, 1u16), (1, 2), (2, 3), (5, 7)]);
            let g = LookupTableGate::new_from_table(&lookup_config(routed), lut, 0);
            (vec![15, g.num_slots as u64], GateRef::new(g))
        }
    };
    Desc { code, gate, kind }
}

fn grid(tier: &str) -> Vec<Kind> {
    let mut v = vec![];
    for n in [0, 1, 2, 5, 20, 33] {
        v.push(Kind::Arith(n));
    }
    for n in [0, 1, 3, 10, 16] {
        v.push(Kind::ArithExt(n));
    }
    for n in [0, 1, 4, 13, 20] {
        v.push(Kind::MulExt(n));
    }
    for (b, n) in [(2, 0), (2, 1), (2, 4), (2, 63), (2, 64), (3, 5), (4, 7), (5, 3), (7, 2), (16, 4), (16, 16), (1, 2)] {
        v.push(Kind::BaseSum(b, n));
    }
    for n in [0, 1, 2, 5] {
        v.push(Kind::Constant(n));
    }
    for (bits, degree) in [(1, 2), (2, 2), (2, 3), (2, 4), (3, 2), (3, 3), (3, 4), (3, 5), (3, 8), (4, 2), (4, 3), (4, 5),
        (4, 6), (4, 7), (4, 8), (4, 9), (4, 16), (5, 4), (5, 32)] {
        v.push(Kind::Coset(bits, degree));
    }
    for n in [1, 2, 5, 13, 66] {
        v.push(Kind::Exp(n));
    }
    v.push(Kind::Poseidon);
    v.push(Kind::PoseidonMds);
    v.push(Kind::PublicInput);
    v.push(Kind::Noop);
    for (bits, copies, extra) in [(1, 1, 0), (1, 3, 2), (2, 2, 1), (3, 1, 0), (4, 4, 2), (5, 1, 3), (6, 1, 0)] {
        v.push(Kind::RandomAccess(bits, copies, extra));
    }
    for n in [0, 1, 2, 5, 43] {
        v.push(Kind::Reducing(n));
    }
    for n in [0, 1, 2, 7, 32] {
        v.push(Kind::ReducingExt(n));
    }
    for r in [80, 10] {
        v.push(Kind::Lookup(r));
        v.push(Kind::LookupTable(r));
    }
    if tier == "thorough" {
        v.push(Kind::Arith(64));
        v.push(Kind::Coset(6, 64));
        v.push(Kind::Coset(6, 9));
        v.push(Kind::RandomAccess(7, 2, 1));
        v.push(Kind::Exp(100));
        v.push(Kind::BaseSum(3, 40));
        v.push(Kind::BaseSum(7, 22));
    }
    v
}

struct Out<'a> {
    w: &'a mut dyn Write,
    n: usize,
}
impl<'a> Out<'a> {
    fn line(&mut self, op: &str, args: &[u64], res: Option<Vec<u64>>) {
        let a = args.iter().map(|x| x.to_string()).collect::<Vec<_>>().join(" ");
        let r = match res {
            Some(v) => v.iter().map(|x| x.to_string()).collect::<Vec<_>>().join(" "),
            None => "panic".to_string(),
        };
        writeln!(self.w, "{} {} = {}", op, a, r).unwrap();
        self.n += 1;
    }
}

fn fe(a: u64, b: u64) -> FE {
    FE::from_basefield_array([F::from_canonical_u64(a), F::from_canonical_u64(b)])
}
fn fe_out(v: &[FE]) -> Vec<u64> {
    v.iter().flat_map(|x| { let a: [F; 2] = x.to_basefield_array(); [a[0].to_canonical_u64(), a[1].to_canonical_u64()] }).collect()
}
fn f_out(v: &[F]) -> Vec<u64> {
    v.iter().map(|x| x.to_canonical_u64()).collect()
}
fn fs(v: &[u64]) -> Vec<F> {
    v.iter().map(|&x| F::from_canonical_u64(x)).collect()
}

/// canonical field element from a mixture of boundary and uniform values
fn elt(r: &mut Rng) -> u64 {
    match r.below(8) {
        0 => *r.pick(&[0u64, 1, 2, P - 1, P - 2, EPS, EPS + 1, 1 << 32, (1 << 32) - 1, 7, P / 2]),
        _ => r.next_u64() % P,
    }
}
fn elts(r: &mut Rng, n: usize) -> Vec<u64> {
    (0..n).map(|_| elt(r)).collect()
}

fn args_row(code: &[u64], width: usize, consts: &[u64], wires: &[u64], tail: &[u64]) -> Vec<u64> {
    let mut a = code.to_vec();
    a.push((consts.len() / width) as u64);
    a.extend_from_slice(consts);
    a.push((wires.len() / width) as u64);
    a.extend_from_slice(wires);
    a.extend_from_slice(tail);
    a
}

fn hash_of(pi: &[u64]) -> HashOut<F> {
    HashOut { elements: [F::from_canonical_u64(pi[0]), F::from_canonical_u64(pi[1]), F::from_canonical_u64(pi[2]), F::from_canonical_u64(pi[3])] }
}

fn eval_ext(d: &Desc, consts: &[u64], wires: &[u64], pi: &[u64]) -> Option<Vec<FE>> {
    let cs: Vec<FE> = consts.chunks(2).map(|c| fe(c[0], c[1])).collect();
    let ws: Vec<FE> = wires.chunks(2).map(|c| fe(c[0], c[1])).collect();
    let h = hash_of(pi);
    catch_unwind(AssertUnwindSafe(|| {
        d.gate.0.eval_unfiltered(EvaluationVars { local_constants: &cs, local_wires: &ws, public_inputs_hash: &h })
    }))
    .ok()
}

/// eval_unfiltered_base_batch on a batch of rows (all of equal shape); returns one vector per row
fn eval_base_batch(d: &Desc, rows: &[(Vec<u64>, Vec<u64>)], pi: &[u64]) -> Option<Vec<Vec<F>>> {
    let b = rows.len();
    let nc = rows[0].0.len();
    let nw = rows[0].1.len();
    let mut cs = vec![F::ZERO; nc * b];
    let mut ws = vec![F::ZERO; nw * b];
    for (i, (c, w)) in rows.iter().enumerate() {
        for j in 0..nc {
            cs[j * b + i] = F::from_canonical_u64(c[j]);
        }
        for j in 0..nw {
            ws[j * b + i] = F::from_canonical_u64(w[j]);
        }
    }
    let h = hash_of(pi);
    let res = catch_unwind(AssertUnwindSafe(|| {
        d.gate.0.eval_unfiltered_base_batch(EvaluationVarsBaseBatch::new(b, &cs, &ws, &h))
    }))
    .ok()?;
    let k = res.len() / b;
    Some((0..b).map(|i| (0..k).map(|j| res[j * b + i]).collect()).collect())
}

/// Run the gate's own generators on a PartitionWitness holding exactly their dependencies.
/// Returns the completed row and the sorted list of written wires.
fn run_generators(d: &Desc, consts: &[u64], row: &[u64]) -> Option<(Vec<u64>, Vec<usize>)> {
    let nw = row.len();
    let rep: Vec<usize> = (0..nw).collect();
    let cs = fs(consts);
    catch_unwind(AssertUnwindSafe(|| {
        let gens = d.gate.0.generators(0, &cs);
        let mut pw = PartitionWitness::<F>::new(nw, 1, &rep);
        for g in gens.iter() {
            for t in g.0.watch_list() {
                if let Target::Wire(w) = t {
                    assert_eq!(w.row, 0);
                    let _ = pw.set_target_returning_rep(t, F::from_canonical_u64(row[w.column])).unwrap();
                }
            }
        }
        let mut written = vec![];
        let mut out_row = row.to_vec();
        for g in gens.iter() {
            let mut buf = GeneratedValues::<F>::with_capacity(0);
            let done = g.0.run(&pw, &mut buf);
            assert!(done, "generator did not finish");
            for (t, v) in buf.target_values {
                match t {
                    Target::Wire(w) => {
                        pw.set_target(t, v).unwrap();
                        out_row[w.column] = v.to_canonical_u64();
                        written.push(w.column);
                    }
                    _ => panic!("virtual target written"),
                }
            }
        }
        written.sort();
        written.dedup();
        (out_row, written)
    }))
    .ok()
}

/// The in-circuit evaluator: build a tiny circuit as gate_testing::test_eval_fns does, generate the
/// witness and read the values of the constraint targets.
fn eval_circuit(d: &Desc, config: CircuitConfig, consts: &[u64], wires: &[u64], pi: &[u64]) -> Option<Vec<FE>> {
    let cs: Vec<FE> = consts.chunks(2).map(|c| fe(c[0], c[1])).collect();
    let ws: Vec<FE> = wires.chunks(2).map(|c| fe(c[0], c[1])).collect();
    let h = hash_of(pi);
    catch_unwind(AssertUnwindSafe(|| {
        let mut builder = CircuitBuilder::<F, D>::new(config);
        let wires_t = builder.add_virtual_extension_targets(ws.len());
        let consts_t = builder.add_virtual_extension_targets(cs.len());
        let pi_t = builder.add_virtual_hash();
        let evals_t = d.gate.0.eval_unfiltered_circuit(
            &mut builder,
            EvaluationTargets { local_constants: &consts_t, local_wires: &wires_t, public_inputs_hash: &pi_t },
        );
        let mut pw = PartialWitness::new();
        pw.set_extension_targets(&wires_t, &ws).unwrap();
        pw.set_extension_targets(&consts_t, &cs).unwrap();
        pw.set_hash_target(pi_t, h).unwrap();
        let data = builder.mock_build::<C>();
        let w = data.generate_witness(pw);
        evals_t.iter().map(|t| w.get_extension_target(*t)).collect::<Vec<FE>>()
    }))
    .ok()
}

/// gate_testing::test_low_degree with our own randomness: max degree of the constraint polynomials on
/// random wire/constant polynomials of degree WITNESS_SIZE - 1.
const WITNESS_SIZE: usize = 32;
fn measure_degree(d: &Desc, r: &mut Rng) -> Option<(usize, usize)> {
    let g = &d.gate.0;
    let degree = g.degree();
    let rate_bits = {
        let mut b = 0;
        while (1usize << b) < degree + 1 {
            b += 1;
        }
        b
    };
    let n = WITNESS_SIZE << rate_bits;
    let low = |r: &mut Rng| -> Vec<FE> {
        let coeffs: Vec<FE> = (0..WITNESS_SIZE).map(|_| fe(r.next_u64() % P, r.next_u64() % P)).collect();
        PolynomialCoeffs::new(coeffs).lde(rate_bits).fft().values
    };
    let wire_polys: Vec<Vec<FE>> = (0..g.num_wires()).map(|_| low(r)).collect();
    let const_polys: Vec<Vec<FE>> = (0..g.num_constants()).map(|_| low(r)).collect();
    let h = hash_of(&elts(r, 4));
    catch_unwind(AssertUnwindSafe(|| {
        let mut evals: Vec<Vec<FE>> = vec![];
        for i in 0..n {
            let ws: Vec<FE> = wire_polys.iter().map(|p| p[i]).collect();
            let cs: Vec<FE> = const_polys.iter().map(|p| p[i]).collect();
            evals.push(g.eval_unfiltered(EvaluationVars { local_constants: &cs, local_wires: &ws, public_inputs_hash: &h }));
        }
        let k = evals[0].len();
        let mut maxdeg = 0usize;
        for j in 0..k {
            let col: Vec<FE> = evals.iter().map(|e| e[j]).collect();
            let deg = PolynomialValues::new(col).degree();
            maxdeg = maxdeg.max(deg);
        }
        (maxdeg, k)
    }))
    .ok()
}

fn pow_sat(b: usize, n: usize) -> u128 {
    let mut acc: u128 = 1;
    for _ in 0..n {
        acc = acc.saturating_mul(b as u128);
        if acc > (1u128 << 70) {
            return acc;
        }
    }
    acc
}

/// An input row on which the gate's generators are meant to run (valid = their preconditions hold).
fn gen_input_row(d: &Desc, r: &mut Rng, consts: &[u64], pi: &[u64], pad: usize, variant: u64) -> (Vec<u64>, bool) {
    let nw = d.gate.0.num_wires();
    let mut row = elts(r, nw + pad);
    let mut valid = true;
    match d.kind {
        Kind::BaseSum(b, n) => {
            let cap = pow_sat(b, n).min(P as u128);
            row[0] = match variant % 5 {
                0 => 0,
                1 => (cap - 1) as u64,
                2 if cap < P as u128 => {
                    valid = false; // does not fit: debug_assert in the generator, unsatisfiable row in release
                    (cap as u64) + r.below(P - cap as u64)
                }
                _ => (r.next_u64() as u128 % cap) as u64,
            };
            if b == 1 && row[0] != 0 {
                valid = false;
            }
        }
        Kind::Exp(n) => {
            for i in 0..n {
                row[1 + i] = r.below(2);
            }
            match variant % 6 {
                0 => row[0] = 0,
                1 => row[0] = 1,
                2 => {
                    for i in 0..n {
                        row[1 + i] = 1;
                    }
                }
                3 => {
                    // a non-boolean power bit: the generator treats it as 0, the constraint does not
                    row[1 + r.below(n as u64) as usize] = 2 + r.below(5);
                    valid = false;
                }
                _ => {}
            }
        }
        Kind::RandomAccess(bits, copies, extra) => {
            let vs = 1usize << bits;
            for c in 0..copies {
                row[(2 + vs) * c] = match variant % 4 {
                    0 => 0,
                    1 => (vs - 1) as u64,
                    _ => r.below(vs as u64),
                };
            }
            for i in 0..extra {
                row[(2 + vs) * copies + i] = consts[i];
            }
        }
        Kind::Poseidon => {
            row[24] = variant % 2;
            if variant % 7 == 6 {
                row[24] = 2; // debug_assert in the generator
                valid = false;
            }
            if variant % 5 == 4 {
                for i in 0..12 {
                    row[i] = *r.pick(&[0u64, 1, P - 1]);
                }
            }
        }
        Kind::Coset(_, _) => {
            if row[0] == 0 {
                row[0] = 1;
            }
            if variant % 6 == 5 {
                row[0] = 0; // shift.inverse() panics
                valid = false;
            }
        }
        Kind::Constant(n) => {
            for i in 0..n {
                row[i] = consts[i];
            }
        }
        Kind::PublicInput => {
            for i in 0..4 {
                row[i] = pi[i];
            }
        }
        _ => {}
    }
    (row, valid)
}

fn replacement_values(d: &Desc, r: &mut Rng, old: u64, k: usize) -> Vec<u64> {
    let addm = |x: u64, y: u64| ((x as u128 + y as u128) % (P as u128)) as u64;
    let mut v = vec![addm(old, 1), addm(old, P - 1), 0, 1, r.next_u64() % P, r.next_u64() % P];
    if let Kind::BaseSum(b, _) = d.kind {
        v.insert(0, addm(old, b as u64));
        if b > 2 {
            v.insert(0, addm(old, 2) % (b as u64));
        }
    }
    v.retain(|&x| x != old);
    v.dedup();
    // rotate so that different wires see different first choices
    if !v.is_empty() {
        let s = r.below(v.len() as u64) as usize;
        v.rotate_left(s);
    }
    v.truncate(k);
    v
}

fn gate_cases(o: &mut Out, r: &mut Rng, d: &Desc, thorough: bool) {
    let g = &d.gate.0;
    // declared sizes (num_wires underflows for the degenerate parameters: caught)
    let sizes = catch_unwind(AssertUnwindSafe(|| {
        vec![g.num_wires() as u64, g.num_constants() as u64, g.degree() as u64, g.num_constraints() as u64]
    }))
    .ok();
    o.line("sizes", &d.code, sizes.clone());
    if sizes.is_none() {
        return;
    }
    // model self-check through the same pipeline: the abstract degree (degree-semiring interpretation
    // of the model evaluator) must not exceed the declared degree
    o.line("absdeg", &d.code, Some(vec![1]));
    let nw = g.num_wires();
    let nc = g.num_constants();
    let reps = if thorough { 6 } else { 2 };

    // 1. extension-field evaluator on random extension rows (exact size and padded to the config size)
    for k in 0..reps {
        let pad_w = if k % 2 == 0 { 0 } else { 135usize.saturating_sub(nw).max(3) };
        let pad_c = if k % 2 == 0 { 0 } else { 2 };
        let consts = elts(r, 2 * (nc + pad_c));
        let wires = elts(r, 2 * (nw + pad_w));
        let pi = elts(r, 4);
        let res = eval_ext(d, &consts, &wires, &pi);
        o.line("evalext", &args_row(&d.code, 2, &consts, &wires, &pi), res.as_ref().map(|v| fe_out(v)));
        // in-circuit evaluator on the same row (a circuit build per case: few of them)
        if k == 0 || (thorough && k < 3) {
            let config = if k == 2 {
                // fewer routed wires than PoseidonMdsGate needs: PoseidonGate takes the other branch
                CircuitConfig { num_routed_wires: 44, ..CircuitConfig::standard_recursion_config() }
            } else {
                CircuitConfig::standard_recursion_config()
            };
            let circ = eval_circuit(d, config, &consts, &wires, &pi);
            let a = args_row(&d.code, 2, &consts, &wires, &pi);
            o.line("evalcirc", &a, circ.as_ref().map(|v| fe_out(v)));
            // (both evaluators panicking on the same row is agreement as well)
            let agree = match (&circ, &res) {
                (Some(x), Some(y)) => (x == y) as u64,
                (None, None) => 1,
                _ => 0,
            };
            let mut a2 = d.code.clone();
            a2.push(k as u64);
            o.line("circuit_agrees", &a2, Some(vec![agree]));
            // the same row under a NARROW builder configuration (37 routed wires, as in the
            // size-optimised recursion config): the in-circuit evaluator is assembled from other gates
            // and PoseidonGate switches to its MDS-gate-free branch; the values must not depend on it
            if k == 0 {
                let narrow = CircuitConfig { num_routed_wires: 37, ..CircuitConfig::standard_recursion_config() };
                let circ_n = eval_circuit(d, narrow, &consts, &wires, &pi);
                let agree_n = match (&circ_n, &res) {
                    (Some(x), Some(y)) => (x == y) as u64,
                    (None, None) => 1,
                    _ => 0,
                };
                let mut a3 = d.code.clone();
                a3.push(100);
                o.line("circuit_agrees", &a3, Some(vec![agree_n]));
            }
        }
    }
    // a row that is one wire too short: the real evaluator indexes out of range
    if nw > 0 {
        let consts = elts(r, 2 * nc);
        let wires = elts(r, 2 * (nw - 1));
        let pi = elts(r, 4);
        let res = eval_ext(d, &consts, &wires, &pi);
        o.line("evalext", &args_row(&d.code, 2, &consts, &wires, &pi), res.as_ref().map(|v| fe_out(v)));
    }

    // 2. base-field evaluator in batches (packed dispatch + leftovers), and both evaluators on base rows
    for &b in if thorough { &[1usize, 3, 8, 13][..] } else { &[1usize, 5][..] } {
        let pad_w = if b % 2 == 1 { 0 } else { 4 };
        let rows: Vec<(Vec<u64>, Vec<u64>)> = (0..b).map(|_| (elts(r, nc), elts(r, nw + pad_w))).collect();
        let pi = elts(r, 4);
        match eval_base_batch(d, &rows, &pi) {
            Some(res) => {
                for (i, (c, w)) in rows.iter().enumerate() {
                    o.line("evalbase", &args_row(&d.code, 1, c, w, &pi), Some(f_out(&res[i])));
                    if i == 0 {
                        let ce: Vec<u64> = c.iter().flat_map(|&x| [x, 0]).collect();
                        let we: Vec<u64> = w.iter().flat_map(|&x| [x, 0]).collect();
                        let ext = eval_ext(d, &ce, &we, &pi);
                        let mut out = vec![g.num_constraints() as u64];
                        out.extend(f_out(&res[i]));
                        let ok = ext.is_some();
                        out.extend(fe_out(&ext.unwrap_or_default()));
                        o.line("basevsext", &args_row(&d.code, 1, c, w, &pi), if ok { Some(out) } else { None });
                    }
                }
            }
            None => {
                for (c, w) in rows.iter() {
                    o.line("evalbase", &args_row(&d.code, 1, c, w, &pi), None);
                }
            }
        }
    }

    // 3. generators, satisfaction, pinning (the lookup gates' generators belong to C08)
    if matches!(d.kind, Kind::Lookup(_) | Kind::LookupTable(_)) {
        return;
    }
    let mut written_reported = false;
    let nvar = if thorough { 14 } else { 7 };
    for variant in 0..nvar {
        let consts = elts(r, nc);
        let pi = elts(r, 4);
        let pad = if variant % 3 == 2 { 2 } else { 0 };
        let (row, valid) = gen_input_row(d, r, &consts, &pi, pad, variant);
        let gen = run_generators(d, &consts, &row);
        let a = args_row(&d.code, 1, &consts, &row, &[]);
        if cfg!(debug_assertions) {
            o.line("genguard", &a, Some(vec![gen.is_some() as u64]));
            if !valid {
                continue;
            }
        }
        o.line("generate", &a, gen.as_ref().map(|x| x.0.clone()));
        let (grow, written) = match gen {
            Some(x) => x,
            None => continue,
        };
        if !written_reported {
            o.line("written", &d.code, Some(written.iter().map(|&x| x as u64).collect()));
            written_reported = true;
        }
        if !valid {
            continue;
        }
        let sat = eval_base_batch(d, &[(consts.clone(), grow.clone())], &pi);
        o.line("gensat", &args_row(&d.code, 1, &consts, &grow, &pi), sat.map(|v| f_out(&v[0])));
        // single-wire replacements of generator-written wires
        let budget = if thorough { written.len() } else { written.len().min(10) };
        let mut ws = written.clone();
        // random sample without replacement
        for i in 0..budget {
            let j = i + r.below((ws.len() - i) as u64) as usize;
            ws.swap(i, j);
        }
        for &w in ws.iter().take(budget) {
            for v in replacement_values(d, r, grow[w], if thorough { 3 } else { 2 }) {
                let mut row2 = grow.clone();
                row2[w] = v;
                let res = eval_base_batch(d, &[(consts.clone(), row2)], &pi);
                let mut tail = pi.clone();
                tail.push(w as u64);
                tail.push(v);
                o.line("pinned", &args_row(&d.code, 1, &consts, &grow, &tail), res.map(|x| f_out(&x[0])));
            }
        }
    }

    // 4. measured degree
    for _ in 0..(if thorough { 2 } else { 1 }) {
        if let Some((maxdeg, k)) = measure_degree(d, r) {
            let mut a = d.code.clone();
            a.push(maxdeg as u64);
            a.push((WITNESS_SIZE - 1) as u64);
            o.line("lowdeg", &a, Some(vec![g.degree() as u64, k as u64]));
        }
    }
}

/// compute_filter is private; Gate::eval_filtered of ConstantGate{1} with constant 1 and wire 0 returns it.
fn filter_cases(o: &mut Out, r: &mut Rng, thorough: bool) {
    let d = desc(Kind::Constant(1));
    let n = if thorough { 300 } else { 60 };
    for k in 0..n {
        let lo = r.below(6) as usize;
        let len = 1 + r.below(7) as usize;
        let hi = lo + len;
        let row = lo + r.below(len as u64) as usize;
        let many = r.coin();
        // s: a group index, the gate's own index, UNUSED_SELECTOR, or random
        let (s0, s1) = match k % 5 {
            0 => (row as u64, 0),
            1 => ((lo + r.below(len as u64) as usize) as u64, 0),
            2 => (u32::MAX as u64, 0),
            3 => (elt(r), 0),
            _ => (elt(r), elt(r)),
        };
        let num_selectors = if many { 2 + r.below(2) as usize } else { 1 };
        let num_lookup = r.below(3) as usize;
        let sel_index = r.below(num_selectors as u64) as usize;
        let mut cs = vec![fe(elt(r), elt(r)); num_selectors + num_lookup];
        cs[sel_index] = fe(s0, s1);
        cs.push(FE::ONE);
        let ws = vec![FE::ZERO];
        let h = hash_of(&[0, 0, 0, 0]);
        let res = catch_unwind(AssertUnwindSafe(|| {
            d.gate.0.eval_filtered(
                EvaluationVars { local_constants: &cs, local_wires: &ws, public_inputs_hash: &h },
                row,
                sel_index,
                lo..hi,
                num_selectors,
                num_lookup,
            )
        }))
        .ok();
        o.line("filter", &[row as u64, lo as u64, hi as u64, many as u64, s0, s1], res.map(|v| fe_out(&v)));
    }
    // eval_filtered of real gates with selector / lookup-selector prefixes
    for kind in [Kind::Arith(3), Kind::Poseidon, Kind::RandomAccess(2, 2, 1), Kind::Constant(2), Kind::PublicInput, Kind::BaseSum(2, 5)] {
        let d = desc(kind);
        let g = &d.gate.0;
        for _ in 0..(if thorough { 6 } else { 2 }) {
            let num_selectors = 1 + r.below(3) as usize;
            let num_lookup = r.below(2) as usize * 4;
            let lo = r.below(4) as usize;
            let len = 1 + r.below(5) as usize;
            let row = lo + r.below(len as u64) as usize;
            let sel_index = r.below(num_selectors as u64) as usize;
            let mut consts = elts(r, 2 * (num_selectors + num_lookup + g.num_constants()));
            if r.coin() {
                consts[2 * sel_index] = row as u64;
                consts[2 * sel_index + 1] = 0;
            }
            let wires = elts(r, 2 * g.num_wires());
            let pi = elts(r, 4);
            let cs: Vec<FE> = consts.chunks(2).map(|c| fe(c[0], c[1])).collect();
            let ws: Vec<FE> = wires.chunks(2).map(|c| fe(c[0], c[1])).collect();
            let h = hash_of(&pi);
            let res = catch_unwind(AssertUnwindSafe(|| {
                g.eval_filtered(
                    EvaluationVars { local_constants: &cs, local_wires: &ws, public_inputs_hash: &h },
                    row,
                    sel_index,
                    lo..lo + len,
                    num_selectors,
                    num_lookup,
                )
            }))
            .ok();
            let mut tail = pi.clone();
            tail.extend([row as u64, sel_index as u64, lo as u64, (lo + len) as u64, num_selectors as u64, num_lookup as u64]);
            o.line("evalfiltered", &args_row(&d.code, 2, &consts, &wires, &tail), res.map(|v| fe_out(&v)));
        }
    }
}

pub fn run(seed: u64, tier: &str, w: &mut dyn Write) -> usize {
    let thorough = tier == "thorough";
    let mut r = Rng::new(seed ^ 0xc07);
    let mut o = Out { w, n: 0 };
    for kind in grid(tier) {
        let d = match catch_unwind(AssertUnwindSafe(|| desc(kind))) {
            Ok(d) => d,
            Err(_) => continue,
        };
        let mut rr = r.fork();
        gate_cases(&mut o, &mut rr, &d, thorough);
    }
    // degenerate parameters: the index arithmetic of the real code underflows
    for kind in [Kind::Exp(0), Kind::RandomAccess(0, 1, 0), Kind::RandomAccess(2, 0, 0)] {
        if let Ok(d) = catch_unwind(AssertUnwindSafe(|| desc(kind))) {
            let g = &d.gate.0;
            let sizes = catch_unwind(AssertUnwindSafe(|| {
                vec![g.num_wires() as u64, g.num_constants() as u64, g.degree() as u64, g.num_constraints() as u64]
            }))
            .ok();
            if cfg!(debug_assertions) {
                o.line("sizes", &d.code, sizes);
            }
        }
    }
    // CosetInterpolationGate::new and the subgroup it interpolates over
    for bits in 1..=(if thorough { 7 } else { 5 }) {
        let g = CosetInterpolationGate::<F, D>::new(bits);
        let mut res = vec![g.degree as u64];
        res.extend(g.barycentric_weights.iter().map(|x| x.to_canonical_u64()));
        o.line("cosetnew", &[bits as u64], Some(res));
        o.line("subgroup", &[bits as u64], Some(f_out(&F::two_adic_subgroup(bits))));
    }
    o.line("subgroup", &[0], Some(f_out(&F::two_adic_subgroup(0))));
    let mut rr = r.fork();
    filter_cases(&mut o, &mut rr, thorough);
    let extra = crate::c07d4::run(&mut r, tier, o.w);
    o.n + extra
}
