//! C01: honest proofs of satisfiable circuits verify and carry the right outputs.
//! Lines:
//!   prog <encoded program> = <public inputs carried by the proof>      (Gallina eval_prog replays)
//!   c01verdict <config idx> <prog idx> = <1 if prove+verify succeeded and PIs = native evaluation>
//!   plonkverify <common, verifier-only, proof dump> = <1|0>            (Gallina verifier replays)
use std::io::Write;

use plonky2::field::types::PrimeField64;

use crate::corpus::*;
use crate::dsl;
use crate::rng::Rng;

pub fn run(seed: u64, tier: &str, w: &mut dyn Write) -> usize {
    let mut r = Rng::new(seed ^ 0xC01);
    let cfgs = configs();
    let mut n = 0;
    let per_cfg = if tier == "thorough" { 12 } else { 2 };
    let mut dumped = 0;
    for (ci, (name, cfg)) in cfgs.iter().enumerate() {
        for pi in 0..per_cfg {
            // gadget families rotate so that every family meets every configuration
            let kinds = match (ci + pi) % 6 { 0 => 1, 1 => 3, 2 => 7, 3 => 15, 4 => 31, _ => 17 };
            let size = match pi % 3 { 0 => 6 + r.below(10) as usize, 1 => 20 + r.below(40) as usize, _ => 60 + r.below(100) as usize };
            let size = if *name == "standard" { size.min(30) } else { size };
            let p = gen_program(&mut r, size, kinds);
            let enc = dsl::encode(&p);
            let res = build_and_prove(&p, cfg);
            let (ok, pis) = match &res {
                Ok(b) => {
                    let pis: Vec<u64> = b.proof.public_inputs.iter().map(|x| x.to_canonical_u64()).collect();
                    let v = verdict(&b.data, b.proof.clone());
                    ((v == "ok" && pis == b.expected_pis) as u64, pis)
                }
                Err(_) => (0, vec![]),
            };
            writeln!(w, "{}", line("prog", &enc, &pis.iter().map(|x| x.to_string()).collect::<Vec<_>>().join(" "))).unwrap();
            let why = match &res { Ok(_) => String::new(), Err(e) => format!(" # {} {}", name, e) };
            writeln!(w, "{}{}", line("c01verdict", &[ci as u64, pi as u64, kinds as u64, p.ops.len() as u64], &ok.to_string()), why).unwrap();
            n += 2;
            if let Ok(b) = &res {
                // dump small proofs for the Gallina verifier (model run costs seconds per proof)
                if b.data.common.fri_params.degree_bits <= 7 && dumped < (if tier == "thorough" { 40 } else { 6 }) {
                    let mut o = vec![];
                    if dump_common(&mut o, &b.data.common).is_ok() {
                        dump_verifier_only(&mut o, &b.data.verifier_only);
                        dump_proof(&mut o, &b.proof);
                        writeln!(w, "{}", line("plonkverify", &o, "1")).unwrap();
                        dumped += 1;
                        n += 1;
                    }
                }
            }
        }
    }
    // wide rows and rows with few routed wires
    for (tag, ncfg) in [(98u64, wide_config()), (99u64, narrow_config())] {
        for pi in 0..per_cfg {
            let p = gen_program(&mut r, 10 + 20 * pi, 31);
            let enc = dsl::encode(&p);
            let res = build_and_prove(&p, &ncfg);
            let (ok, pis) = match &res {
                Ok(b) => {
                    let pis: Vec<u64> = b.proof.public_inputs.iter().map(|x| x.to_canonical_u64()).collect();
                    ((verdict(&b.data, b.proof.clone()) == "ok" && pis == b.expected_pis) as u64, pis)
                }
                Err(_) => (0, vec![]),
            };
            writeln!(w, "{}", line("prog", &enc, &pis.iter().map(|x| x.to_string()).collect::<Vec<_>>().join(" "))).unwrap();
            let why = match &res { Ok(_) => String::new(), Err(e) => format!(" # rows{} {}", tag, e) };
            writeln!(w, "{}{}", line("c01verdict", &[tag, pi as u64, 31, p.ops.len() as u64], &ok.to_string()), why).unwrap();
            n += 2;
        }
    }
    // Keccak commitments (KeccakGoldilocksConfig): prove / verify / public inputs
    for (k, ci) in [0usize, 3, 6, 8].iter().enumerate() {
        if tier != "thorough" && k >= 2 { break; }
        for pi in 0..(per_cfg.min(3)) {
            let kinds = [7u32, 31, 19][pi % 3];
            let p = gen_program(&mut r, 10 + 15 * pi, kinds);
            let (_, pubs) = dsl::eval_native(&p).unwrap();
            let res = crate::kcfg::build_and_prove_c::<crate::kcfg::KC>(&p, &cfgs[*ci].1);
            let ok = match &res {
                Ok((data, proof)) => {
                    let pis: Vec<u64> = proof.public_inputs.iter().map(|x| x.to_canonical_u64()).collect();
                    let v = std::panic::catch_unwind(std::panic::AssertUnwindSafe(|| data.verify(proof.clone())));
                    (matches!(v, Ok(Ok(()))) && pis == pubs) as u64
                }
                Err(_) => 0,
            };
            let why = match &res { Ok(_) => String::new(), Err(e) => format!(" # keccak {}", e) };
            writeln!(w, "{}{}", line("c01verdict", &[200 + *ci as u64, pi as u64, kinds as u64, p.ops.len() as u64], &ok.to_string()), why).unwrap();
            n += 1;
        }
    }
    n
}
