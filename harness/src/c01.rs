//! C01: honest proofs of satisfiable circuits verify and carry the right outputs.
//! Lines:
//!   prog <encoded program> = <public inputs carried by the proof>      (Gallina eval_prog replays)
//!   c01verdict <config idx> <prog idx> = <1 if prove+verify succeeded and PIs = native evaluation>
//!   plonkverify <common, verifier-only, proof dump> = <1|0>            (Gallina verifier replays)
use std::io::Write;

use plonky2::field::types::PrimeField64;

use crate::corpus::*;
use crate::dsl;
use crate::rng::Rng;

pub fn run(seed: u64, tier: &str, w: &mut dyn Write) -> usize {
    let mut r = Rng::new(seed ^ 0xC01);
    let cfgs = configs();
    let mut n = 0;
    let per_cfg = if tier == "thorough" { 12 } else { 2 };
    let mut dumped = 0;
    for (ci, (name, cfg)) in cfgs.iter().enumerate() {
        for pi in 0..per_cfg {
            // gadget families rotate so that every family meets every configuration
            let kinds = match (ci + pi) % 7 { 0 => 1, 1 => 3, 2 => 7, 3 => 15, 4 => 127, 5 => 97, _ => 17 };
            let size = match pi % 3 { 0 => 6 + r.below(10) as usize, 1 => 20 + r.below(40) as usize, _ => 60 + r.below(100) as usize };
            let size = if *name == "standard" { size.min(30) } else { size };
            let p = gen_program(&mut r, size, kinds);
            let enc = dsl::encode(&p);
            let res = build_and_prove(&p, cfg);
            let (ok, pis) = match &res {
                Ok(b) => {
                    let pis: Vec<u64> = b.proof.public_inputs.iter().map(|x| x.to_canonical_u64()).collect();
                    let v = verdict(&b.data, b.proof.clone());
                    ((v == "ok" && pis == b.expected_pis) as u64, pis)
                }
                Err(_) => (0, vec![]),
            };
            writeln!(w, "{}", line("prog", &enc, &pis.iter().map(|x| x.to_string()).collect::<Vec<_>>().join(" "))).unwrap();
            let why = match &res { Ok(_) => String::new(), Err(e) => format!(" # {} {}", name, e) };
            writeln!(w, "{}{}", line("c01verdict", &[ci as u64, pi as u64, kinds as u64, p.ops.len() as u64], &ok.to_string()), why).unwrap();
            n += 2;
            if let Ok(b) = &res {
                // dump small proofs for the Gallina verifier (model run costs seconds per proof)
                if b.data.common.fri_params.degree_bits <= 7 && dumped < (if tier == "thorough" { 40 } else { 6 }) {
                    let mut o = vec![];
                    if dump_common(&mut o, &b.data.common).is_ok() {
                        dump_verifier_only(&mut o, &b.data.verifier_only);
                        dump_proof(&mut o, &b.proof);
                        writeln!(w, "{}", line("plonkverify", &o, "1")).unwrap();
                        dumped += 1;
                        n += 1;
                    }
                }
            }
        }
    }
    // wide rows and rows with few routed wires
    for (tag, ncfg) in [(98u64, wide_config()), (99u64, narrow_config())] {
        for pi in 0..per_cfg {
            let p = gen_program(&mut r, 10 + 20 * pi, 127);
            let enc = dsl::encode(&p);
            let res = build_and_prove(&p, &ncfg);
            let (ok, pis) = match &res {
                Ok(b) => {
                    let pis: Vec<u64> = b.proof.public_inputs.iter().map(|x| x.to_canonical_u64()).collect();
                    ((verdict(&b.data, b.proof.clone()) == "ok" && pis == b.expected_pis) as u64, pis)
                }
                Err(_) => (0, vec![]),
            };
            writeln!(w, "{}", line("prog", &enc, &pis.iter().map(|x| x.to_string()).collect::<Vec<_>>().join(" "))).unwrap();
            let why = match &res { Ok(_) => String::new(), Err(e) => format!(" # rows{} {}", tag, e) };
            writeln!(w, "{}{}", line("c01verdict", &[tag, pi as u64, 31, p.ops.len() as u64], &ok.to_string()), why).unwrap();
            n += 2;
        }
    }
    // witness-only sweep (no proving, so hundreds of programs): the builder + generators must produce a
    // witness that satisfies every gate on every row, every copy constraint and the lookup relation, and
    // whose public inputs are the direct evaluation; all gadget families, standard / narrow / wide rows
    {
        let nprog = if tier == "thorough" { 600 } else { 150 };
        let std = cfgs[0].1.clone();
        // base arithmetic routed through the extension gates; four constants per row (ConstantGate packing,
        // RandomAccessGate extra constants)
        let no_base = plonky2::plonk::circuit_data::CircuitConfig { use_base_arithmetic_gate: false, ..std.clone() };
        let consts4 = plonky2::plonk::circuit_data::CircuitConfig { num_constants: 4, ..std.clone() };
        let wcfgs = [("std", std), ("narrow", narrow_config()), ("wide", wide_config()), ("no_base_arith", no_base.clone()), ("consts4", consts4.clone())];
        for i in 0..nprog {
            let kinds = [127u32, 97, 99, 111, 63, 101][i % 6];
            let size = [12usize, 30, 60, 25][i % 4] + r.below(10) as usize;
            let p = gen_program(&mut r, size, kinds);
            let (cname, cfg) = &wcfgs[i % 5];
            let (_, pubs) = dsl::eval_native(&p).unwrap();
            let (ok, why, pis): (u64, String, Vec<u64>) = match crate::c02::build_circ(&p, cfg) {
                Err(e) => (0, format!("build {e}"), vec![]),
                Ok(circ) => match crate::c02::corrupted_assignment(&circ, &p, &Default::default()) {
                    Err(e) => (0, format!("witness {e}"), vec![]),
                    Ok((_, m, pis)) => {
                        let pv: Vec<u64> = pis.iter().map(|x| x.to_canonical_u64()).collect();
                        match circ.full_violation(&m, &pis) {
                            Some(v) => (0, format!("unsatisfied {v}"), pv),
                            None => ((pv == pubs) as u64, if pv == pubs { String::new() } else { "public inputs differ from the direct evaluation".into() }, pv),
                        }
                    }
                },
            };
            plonky2::plonk::verif_knobs::reset();
            if i % 5 == 0 || ok == 0 {
                writeln!(w, "{}", line("prog", &dsl::encode(&p), &pis.iter().map(|x| x.to_string()).collect::<Vec<_>>().join(" "))).unwrap();
                n += 1;
            }
            writeln!(w, "{}{}", line("c01verdict", &[300 + (i % 5) as u64, i as u64, kinds as u64, p.ops.len() as u64], &ok.to_string()),
                     if why.is_empty() { String::new() } else { format!(" # witness-only {cname} {}", why.replace(' ', "_")) }).unwrap();
            n += 1;
        }
    }
    // full prove / verify under the two extra configurations
    {
        let std = cfgs[0].1.clone();
        let extra = [(310u64, plonky2::plonk::circuit_data::CircuitConfig { use_base_arithmetic_gate: false, ..std.clone() }),
                     (311u64, plonky2::plonk::circuit_data::CircuitConfig { num_constants: 4, ..std.clone() })];
        for (tag, ecfg) in extra.iter() {
            for pi in 0..(if tier == "thorough" { 4 } else { 1 }) {
                let p = gen_program(&mut r, 20 + 15 * pi, 127);
                let res = build_and_prove(&p, ecfg);
                let (ok, pis) = match &res {
                    Ok(b) => {
                        let pis: Vec<u64> = b.proof.public_inputs.iter().map(|x| x.to_canonical_u64()).collect();
                        ((verdict(&b.data, b.proof.clone()) == "ok" && pis == b.expected_pis) as u64, pis)
                    }
                    Err(_) => (0, vec![]),
                };
                writeln!(w, "{}", line("prog", &dsl::encode(&p), &pis.iter().map(|x| x.to_string()).collect::<Vec<_>>().join(" "))).unwrap();
                let why = match &res { Ok(_) => String::new(), Err(e) => format!(" # config{} {}", tag, e) };
                writeln!(w, "{}{}", line("c01verdict", &[*tag, pi as u64, 127, p.ops.len() as u64], &ok.to_string()), why).unwrap();
                n += 2;
            }
        }
    }
    // Keccak commitments (KeccakGoldilocksConfig): prove / verify / public inputs
    for (k, ci) in [0usize, 3, 6, 8].iter().enumerate() {
        if tier != "thorough" && k >= 2 { break; }
        for pi in 0..(per_cfg.min(3)) {
            let kinds = [7u32, 127, 19, 99][pi % 4];
            let p = gen_program(&mut r, 10 + 15 * pi, kinds);
            let (_, pubs) = dsl::eval_native(&p).unwrap();
            let res = crate::kcfg::build_and_prove_c::<crate::kcfg::KC>(&p, &cfgs[*ci].1);
            let ok = match &res {
                Ok((data, proof)) => {
                    let pis: Vec<u64> = proof.public_inputs.iter().map(|x| x.to_canonical_u64()).collect();
                    let v = std::panic::catch_unwind(std::panic::AssertUnwindSafe(|| data.verify(proof.clone())));
                    (matches!(v, Ok(Ok(()))) && pis == pubs) as u64
                }
                Err(_) => 0,
            };
            let why = match &res { Ok(_) => String::new(), Err(e) => format!(" # keccak {}", e) };
            writeln!(w, "{}{}", line("c01verdict", &[200 + *ci as u64, pi as u64, kinds as u64, p.ops.len() as u64], &ok.to_string()), why).unwrap();
            n += 1;
        }
    }
    n
}
