//! Circuit-program DSL: random/boundary programs at the gadget level, interpreted three ways:
//! (1) by `CircuitBuilder` (the implementation), (2) natively here over u64 arithmetic mod P
//! (Rust-side oracle), (3) by the Gallina evaluator `eval_prog` (Model/Prog.v) from the text dump.
use std::sync::Arc;

use plonky2::field::goldilocks_field::GoldilocksField as F;
use plonky2::field::types::{Field, PrimeField64};
use plonky2::hash::hashing::hash_n_to_m_no_pad;
use plonky2::hash::poseidon::{PoseidonHash, PoseidonPermutation};
use plonky2::iop::target::{BoolTarget, Target};
use plonky2::iop::witness::{PartialWitness, WitnessWrite};
use plonky2::plonk::circuit_builder::CircuitBuilder;

use crate::rng::*;

pub const D: usize = 2;

#[derive(Clone, Debug)]
pub enum Op {
    Input,                       // 0
    Const(u64),                  // 1 c
    Add(usize, usize),           // 2
    Sub(usize, usize),           // 3
    Mul(usize, usize),           // 4
    MulAdd(usize, usize, usize), // 5  a*b+c
    Div(usize, usize),           // 6  (divisor non-zero)
    ExpU64(usize, u64),          // 7
    Neg(usize),                  // 8
    SplitLe(usize, usize),       // 10 value, nbits -> nbits values (bits, little endian)
    LeSum(Vec<usize>),           // 11 bits -> value
    RangeCheck(usize, usize),    // 12 (no new value)
    Select(usize, usize, usize), // 13 b x y -> if b then x else y
    RandomAccess(usize, Vec<usize>), // 14 idx, vec
    IsEqual(usize, usize),       // 15 -> bool
    Hash(Vec<usize>),            // 16 -> 4 values
    Lookup(usize, usize),        // 17 table, value -> value
    AssertEq(usize, usize),      // 18 (no new value)
    Public(usize),               // 19 (no new value)
    AssertBool(usize),           // 20
    Not(usize),                  // 21 bool -> bool
    And(usize, usize),           // 22
    Inverse(usize),              // 23 (non-zero)
    // family 5 (kinds bit 32): further gadgets of plonky2::gadgets
    Arith(u64, u64, usize, usize, usize),          // 24 c0 c1 a b c -> c0*a*b + c1*c   (CircuitBuilder::arithmetic with its constant special cases)
    ExpBits(usize, Vec<usize>),                    // 25 base, bits (little endian booleans) -> base^(sum bits_i 2^i)
    MulMany(Vec<usize>),                           // 26
    AddMany(Vec<usize>),                           // 27
    ExtMul([usize; 2], [usize; 2]),                // 28 -> 2 values
    ExtDiv([usize; 2], [usize; 2]),                // 29 (divisor non-zero) -> 2 values
    ExtArith(u64, u64, [usize; 2], [usize; 2], [usize; 2]), // 30 c0 c1 a b c -> c0*a*b + c1*c over the quadratic extension -> 2 values
    Square(usize),                                 // 31
    Cube(usize),                                   // 32
    ExpPow2(usize, usize),                         // 33 a, k -> a^(2^k)
    SplitBase4(usize, usize),                      // 36 value, nlimbs -> nlimbs base-4 digits (value < 4^nlimbs)
    Exp(usize, usize, usize),                      // 37 base, exponent, nbits (exponent < 2^nbits) -> base^exponent
}

#[derive(Clone, Debug, Default)]
pub struct Program {
    pub tables: Vec<Vec<(u16, u16)>>,
    pub ops: Vec<Op>,
    pub inputs: Vec<u64>, // one per Input op, canonical
}

type QE = plonky2::field::extension::quadratic::QuadraticExtension<plonky2::field::goldilocks_field::GoldilocksField>;
fn qe(vals: &[u64], i: &[usize; 2]) -> QE { plonky2::field::extension::quadratic::QuadraticExtension([F(vals[i[0]]), F(vals[i[1]])]) }
fn et(t: &[Target], i: &[usize; 2]) -> plonky2::iop::ext_target::ExtensionTarget<D> { plonky2::iop::ext_target::ExtensionTarget([t[i[0]], t[i[1]]]) }

fn fadd(a: u64, b: u64) -> u64 { (F(a) + F(b)).to_canonical_u64() }
fn fmul(a: u64, b: u64) -> u64 { (F(a) * F(b)).to_canonical_u64() }

/// Native evaluation (Rust-side oracle): returns (values, bool flags, public outputs) or None if an assertion fails.
pub fn eval_native(p: &Program) -> Option<(Vec<u64>, Vec<u64>)> {
    let mut vals: Vec<u64> = vec![];
    let mut pubs: Vec<u64> = vec![];
    let mut inp = p.inputs.iter();
    for op in &p.ops {
        match op {
            Op::Input => vals.push(*inp.next()? % P),
            Op::Const(c) => vals.push(*c % P),
            Op::Add(a, b) => vals.push(fadd(vals[*a], vals[*b])),
            Op::Sub(a, b) => vals.push((F(vals[*a]) - F(vals[*b])).to_canonical_u64()),
            Op::Mul(a, b) => vals.push(fmul(vals[*a], vals[*b])),
            Op::MulAdd(a, b, c) => vals.push(fadd(fmul(vals[*a], vals[*b]), vals[*c])),
            Op::Div(a, b) => {
                if vals[*b] == 0 { return None; }
                vals.push((F(vals[*a]) / F(vals[*b])).to_canonical_u64())
            }
            Op::ExpU64(a, e) => vals.push(F(vals[*a]).exp_u64(*e).to_canonical_u64()),
            Op::Neg(a) => vals.push((-F(vals[*a])).to_canonical_u64()),
            Op::SplitLe(a, n) => {
                let v = vals[*a];
                if *n < 64 && (v >> *n) != 0 { return None; }
                for i in 0..*n { vals.push((v >> i) & 1); }
            }
            Op::LeSum(bits) => {
                let mut acc = F::ZERO;
                for (i, b) in bits.iter().enumerate() {
                    if vals[*b] > 1 { return None; }
                    acc += F(vals[*b]) * F::from_canonical_u64(1u64 << i);
                }
                vals.push(acc.to_canonical_u64())
            }
            Op::RangeCheck(a, n) => { if *n < 64 && (vals[*a] >> *n) != 0 { return None; } }
            Op::Select(b, x, y) => {
                if vals[*b] > 1 { return None; }
                vals.push(if vals[*b] == 1 { vals[*x] } else { vals[*y] })
            }
            Op::RandomAccess(i, v) => {
                let idx = vals[*i] as usize;
                if vals[*i] >= v.len() as u64 { return None; }
                vals.push(vals[v[idx]])
            }
            Op::IsEqual(a, b) => vals.push((vals[*a] == vals[*b]) as u64),
            Op::Hash(v) => {
                let ins: Vec<F> = v.iter().map(|i| F(vals[*i])).collect();
                let h = hash_n_to_m_no_pad::<F, PoseidonPermutation<F>>(&ins, 4);
                for x in h { vals.push(x.to_canonical_u64()); }
            }
            Op::Lookup(t, a) => {
                let tab = &p.tables[*t];
                let v = vals[*a];
                let hit = tab.iter().find(|(i, _)| *i as u64 == v)?;
                vals.push(hit.1 as u64)
            }
            Op::AssertEq(a, b) => { if vals[*a] != vals[*b] { return None; } }
            Op::Public(a) => pubs.push(vals[*a]),
            Op::AssertBool(a) => { if vals[*a] > 1 { return None; } }
            Op::Not(a) => { if vals[*a] > 1 { return None; } vals.push(1 - vals[*a]) }
            Op::And(a, b) => { if vals[*a] > 1 || vals[*b] > 1 { return None; } vals.push(vals[*a] * vals[*b]) }
            Op::Inverse(a) => { if vals[*a] == 0 { return None; } vals.push(F(vals[*a]).inverse().to_canonical_u64()) }
            Op::Arith(c0, c1, a, b, c) => vals.push((F(*c0 % P) * F(vals[*a]) * F(vals[*b]) + F(*c1 % P) * F(vals[*c])).to_canonical_u64()),
            Op::ExpBits(a, bits) => {
                let mut e: u128 = 0;
                for (i, bi) in bits.iter().enumerate() { if vals[*bi] > 1 { return None; } e += (vals[*bi] as u128) << i; }
                let mut acc = F::ONE; let mut base = F(vals[*a]);
                let mut ee = e; while ee > 0 { if ee & 1 == 1 { acc *= base; } base = base * base; ee >>= 1; }
                vals.push(acc.to_canonical_u64())
            }
            Op::MulMany(v) => vals.push(v.iter().fold(F::ONE, |acc, i| acc * F(vals[*i])).to_canonical_u64()),
            Op::AddMany(v) => vals.push(v.iter().fold(F::ZERO, |acc, i| acc + F(vals[*i])).to_canonical_u64()),
            Op::ExtMul(a, b) => { let r = qe(&vals, a) * qe(&vals, b); vals.push(r.0[0].to_canonical_u64()); vals.push(r.0[1].to_canonical_u64()) }
            Op::ExtDiv(a, b) => { let d = qe(&vals, b); if d == QE::ZERO { return None; } let r = qe(&vals, a) / d;
                                  vals.push(r.0[0].to_canonical_u64()); vals.push(r.0[1].to_canonical_u64()) }
            Op::ExtArith(c0, c1, a, b, c) => { let r = QE::from(F(*c0 % P)) * qe(&vals, a) * qe(&vals, b) + QE::from(F(*c1 % P)) * qe(&vals, c);
                                               vals.push(r.0[0].to_canonical_u64()); vals.push(r.0[1].to_canonical_u64()) }
            Op::Square(a) => vals.push((F(vals[*a]) * F(vals[*a])).to_canonical_u64()),
            Op::Cube(a) => vals.push((F(vals[*a]) * F(vals[*a]) * F(vals[*a])).to_canonical_u64()),
            Op::ExpPow2(a, k) => { let mut x = F(vals[*a]); for _ in 0..*k { x = x * x; } vals.push(x.to_canonical_u64()) }
            Op::SplitBase4(a, n) => {
                let v = vals[*a];
                if *n < 32 && (v >> (2 * *n)) != 0 { return None; }
                for i in 0..*n { vals.push(if 2 * i < 64 { (v >> (2 * i)) & 3 } else { 0 }); }
            }
            Op::Exp(a, e, nb) => {
                let ev = vals[*e];
                if *nb < 64 && (ev >> *nb) != 0 { return None; }
                vals.push(F(vals[*a]).exp_u64(ev).to_canonical_u64())
            }
        }
    }
    Some((vals, pubs))
}

/// Interpret the program with the circuit builder. Returns the targets of the Input ops.
pub fn build(p: &Program, b: &mut CircuitBuilder<F, D>) -> Vec<Target> {
    let mut t: Vec<Target> = vec![];
    let mut ins = vec![];
    let tabs: Vec<usize> = p.tables.iter().map(|tb| b.add_lookup_table_from_pairs(Arc::new(tb.clone()))).collect();
    for op in &p.ops {
        match op {
            Op::Input => { let x = b.add_virtual_target(); ins.push(x); t.push(x) }
            Op::Const(c) => t.push(b.constant(F::from_noncanonical_u64(*c % P))),
            Op::Add(x, y) => t.push(b.add(t[*x], t[*y])),
            Op::Sub(x, y) => t.push(b.sub(t[*x], t[*y])),
            Op::Mul(x, y) => t.push(b.mul(t[*x], t[*y])),
            Op::MulAdd(x, y, z) => t.push(b.mul_add(t[*x], t[*y], t[*z])),
            Op::Div(x, y) => t.push(b.div(t[*x], t[*y])),
            Op::ExpU64(x, e) => t.push(b.exp_u64(t[*x], *e)),
            Op::Neg(x) => t.push(b.neg(t[*x])),
            Op::SplitLe(x, n) => { for bit in b.split_le(t[*x], *n) { t.push(bit.target) } }
            Op::LeSum(bits) => {
                let bs: Vec<BoolTarget> = bits.iter().map(|i| BoolTarget::new_unsafe(t[*i])).collect();
                t.push(b.le_sum(bs.iter()))
            }
            Op::RangeCheck(x, n) => b.range_check(t[*x], *n),
            Op::Select(c, x, y) => t.push(b.select(BoolTarget::new_unsafe(t[*c]), t[*x], t[*y])),
            Op::RandomAccess(i, v) => t.push(b.random_access(t[*i], v.iter().map(|j| t[*j]).collect())),
            Op::IsEqual(x, y) => t.push(b.is_equal(t[*x], t[*y]).target),
            Op::Hash(v) => {
                let h = b.hash_n_to_hash_no_pad::<PoseidonHash>(v.iter().map(|j| t[*j]).collect());
                for e in h.elements { t.push(e) }
            }
            Op::Lookup(tb, x) => t.push(b.add_lookup_from_index(t[*x], tabs[*tb])),
            Op::AssertEq(x, y) => b.connect(t[*x], t[*y]),
            Op::Public(x) => b.register_public_input(t[*x]),
            Op::AssertBool(x) => b.assert_bool(BoolTarget::new_unsafe(t[*x])),
            Op::Not(x) => t.push(b.not(BoolTarget::new_unsafe(t[*x])).target),
            Op::And(x, y) => t.push(b.and(BoolTarget::new_unsafe(t[*x]), BoolTarget::new_unsafe(t[*y])).target),
            Op::Inverse(x) => t.push(b.inverse(t[*x])),
            Op::Arith(c0, c1, x, y, z) => t.push(b.arithmetic(F::from_noncanonical_u64(*c0 % P), F::from_noncanonical_u64(*c1 % P), t[*x], t[*y], t[*z])),
            Op::ExpBits(x, bits) => {
                let bs: Vec<BoolTarget> = bits.iter().map(|i| BoolTarget::new_unsafe(t[*i])).collect();
                t.push(b.exp_from_bits(t[*x], bs.iter()))
            }
            Op::MulMany(v) => { let ts: Vec<Target> = v.iter().map(|j| t[*j]).collect(); t.push(b.mul_many(ts.iter())) }
            Op::AddMany(v) => { let ts: Vec<Target> = v.iter().map(|j| t[*j]).collect(); t.push(b.add_many(ts.iter())) }
            Op::ExtMul(x, y) => { let r = b.mul_extension(et(&t, x), et(&t, y)); t.push(r.0[0]); t.push(r.0[1]) }
            Op::ExtDiv(x, y) => { let r = b.div_extension(et(&t, x), et(&t, y)); t.push(r.0[0]); t.push(r.0[1]) }
            Op::ExtArith(c0, c1, x, y, z) => {
                let r = b.arithmetic_extension(F::from_noncanonical_u64(*c0 % P), F::from_noncanonical_u64(*c1 % P), et(&t, x), et(&t, y), et(&t, z));
                t.push(r.0[0]); t.push(r.0[1])
            }
            Op::Square(x) => t.push(b.square(t[*x])),
            Op::Cube(x) => t.push(b.cube(t[*x])),
            Op::ExpPow2(x, k) => t.push(b.exp_power_of_2(t[*x], *k)),
            Op::SplitBase4(x, n) => { for limb in b.split_le_base::<4>(t[*x], *n) { t.push(limb) } }
            Op::Exp(x, e, nb) => t.push(b.exp(t[*x], t[*e], *nb)),
        }
    }
    ins
}

pub fn witness(p: &Program, ins: &[Target]) -> PartialWitness<F> {
    let mut pw = PartialWitness::new();
    for (t, v) in ins.iter().zip(p.inputs.iter()) {
        pw.set_target(*t, F::from_noncanonical_u64(*v % P)).unwrap();
    }
    pw
}

/// Flat integer encoding for the Gallina evaluator.
pub fn encode(p: &Program) -> Vec<u64> {
    let mut o = vec![];
    o.push(p.tables.len() as u64);
    for t in &p.tables {
        o.push(t.len() as u64);
        for (a, b) in t { o.push(*a as u64); o.push(*b as u64); }
    }
    o.push(p.inputs.len() as u64);
    o.extend(p.inputs.iter().map(|v| v % P));
    o.push(p.ops.len() as u64);
    for op in &p.ops {
        match op {
            Op::Input => o.push(0),
            Op::Const(c) => o.extend([1, *c % P]),
            Op::Add(a, b) => o.extend([2, *a as u64, *b as u64]),
            Op::Sub(a, b) => o.extend([3, *a as u64, *b as u64]),
            Op::Mul(a, b) => o.extend([4, *a as u64, *b as u64]),
            Op::MulAdd(a, b, c) => o.extend([5, *a as u64, *b as u64, *c as u64]),
            Op::Div(a, b) => o.extend([6, *a as u64, *b as u64]),
            Op::ExpU64(a, e) => o.extend([7, *a as u64, *e]),
            Op::Neg(a) => o.extend([8, *a as u64]),
            Op::SplitLe(a, n) => o.extend([10, *a as u64, *n as u64]),
            Op::LeSum(v) => { o.extend([11, v.len() as u64]); o.extend(v.iter().map(|x| *x as u64)) }
            Op::RangeCheck(a, n) => o.extend([12, *a as u64, *n as u64]),
            Op::Select(b, x, y) => o.extend([13, *b as u64, *x as u64, *y as u64]),
            Op::RandomAccess(i, v) => { o.extend([14, *i as u64, v.len() as u64]); o.extend(v.iter().map(|x| *x as u64)) }
            Op::IsEqual(a, b) => o.extend([15, *a as u64, *b as u64]),
            Op::Hash(v) => { o.extend([16, v.len() as u64]); o.extend(v.iter().map(|x| *x as u64)) }
            Op::Lookup(t, a) => o.extend([17, *t as u64, *a as u64]),
            Op::AssertEq(a, b) => o.extend([18, *a as u64, *b as u64]),
            Op::Public(a) => o.extend([19, *a as u64]),
            Op::AssertBool(a) => o.extend([20, *a as u64]),
            Op::Not(a) => o.extend([21, *a as u64]),
            Op::And(a, b) => o.extend([22, *a as u64, *b as u64]),
            Op::Inverse(a) => o.extend([23, *a as u64]),
            Op::Arith(c0, c1, a, b, c) => o.extend([24, *c0 % P, *c1 % P, *a as u64, *b as u64, *c as u64]),
            Op::ExpBits(a, v) => { o.extend([25, *a as u64, v.len() as u64]); o.extend(v.iter().map(|x| *x as u64)) }
            Op::MulMany(v) => { o.extend([26, v.len() as u64]); o.extend(v.iter().map(|x| *x as u64)) }
            Op::AddMany(v) => { o.extend([27, v.len() as u64]); o.extend(v.iter().map(|x| *x as u64)) }
            Op::ExtMul(a, b) => o.extend([28, a[0] as u64, a[1] as u64, b[0] as u64, b[1] as u64]),
            Op::ExtDiv(a, b) => o.extend([29, a[0] as u64, a[1] as u64, b[0] as u64, b[1] as u64]),
            Op::ExtArith(c0, c1, a, b, c) => o.extend([30, *c0 % P, *c1 % P, a[0] as u64, a[1] as u64, b[0] as u64, b[1] as u64, c[0] as u64, c[1] as u64]),
            Op::Square(a) => o.extend([31, *a as u64]),
            Op::Cube(a) => o.extend([32, *a as u64]),
            Op::ExpPow2(a, k) => o.extend([33, *a as u64, *k as u64]),
            Op::SplitBase4(a, n) => o.extend([36, *a as u64, *n as u64]),
            Op::Exp(a, e, nb) => o.extend([37, *a as u64, *e as u64, *nb as u64]),
        }
    }
    o
}

const BOUNDARY_VALS: [u64; 12] = [0, 1, 2, P - 1, P - 2, 1 << 16, (1 << 16) - 1, 1 << 32, (1 << 32) - 1, 1 << 63, (1 << 63) - 1, 255];

/// Generate a satisfiable program of about `n` operations. `kinds` restricts the gadget families:
/// bit 0 arithmetic, 1 bits/range, 2 select/random access, 3 hash, 4 lookup, 5 further gadgets (general
/// arithmetic with constants, exponentiation by bits / by a target, products and sums of many, quadratic
/// extension arithmetic, base-4 splits).
pub fn generate(r: &mut Rng, n: usize, kinds: u32) -> Program {
    let mut p = Program::default();
    let mut vals: Vec<u64> = vec![];
    let mut bools: Vec<usize> = vec![]; // indices of values known boolean
    let mut small: Vec<(usize, usize)> = vec![]; // (index, bits) of values known < 2^bits
    if kinds & 16 != 0 {
        let nt = 1 + r.below(3) as usize;
        for _ in 0..nt {
            let len = match r.below(4) { 0 => 1, 1 => 2 + r.below(6) as usize, 2 => 16 + r.below(40) as usize, _ => 64 + r.below(80) as usize };
            let mut tab = vec![];
            let base = r.below(60000) as u16;
            for i in 0..len {
                // distinct inputs, arbitrary (possibly duplicate) outputs
                tab.push((base.wrapping_add((i * 3) as u16), (r.below(7) as u16) * 1000 + (r.below(3) as u16)));
            }
            p.tables.push(tab);
        }
    }
    let push = |p: &mut Program, vals: &mut Vec<u64>, op: Op| {
        p.ops.push(op);
        let (v, _) = eval_native(&Program { tables: p.tables.clone(), ops: p.ops.clone(), inputs: p.inputs.clone() })
            .expect("generator produced an unsatisfiable op");
        *vals = v;
    };
    // a few inputs and constants first
    let nin = 2 + r.below(4) as usize;
    for _ in 0..nin {
        let v = if r.coin() { *r.pick(&BOUNDARY_VALS) } else { r.next_u64() % P };
        p.inputs.push(v);
        push(&mut p, &mut vals, Op::Input);
    }
    let mut guard = 0;
    while p.ops.len() < n && guard < 20 * n {
        guard += 1;
        let len = vals.len();
        let a = r.below(len as u64) as usize;
        let b = r.below(len as u64) as usize;
        let c = r.below(len as u64) as usize;
        let fam = r.below(6);
        if kinds & (1 << fam) == 0 { continue; }
        match fam {
            0 => match r.below(9) {
                0 => push(&mut p, &mut vals, Op::Add(a, b)),
                1 => push(&mut p, &mut vals, Op::Sub(a, b)),
                2 => push(&mut p, &mut vals, Op::Mul(a, b)),
                3 => push(&mut p, &mut vals, Op::MulAdd(a, b, c)),
                4 => if vals[b] != 0 { push(&mut p, &mut vals, Op::Div(a, b)) },
                5 => { let e = if r.coin() { r.below(20) } else { r.next_u64() >> r.below(60) }; push(&mut p, &mut vals, Op::ExpU64(a, e)) }
                6 => push(&mut p, &mut vals, Op::Neg(a)),
                7 => push(&mut p, &mut vals, Op::Const(if r.coin() { *r.pick(&BOUNDARY_VALS) } else { r.next_u64() % P })),
                _ => if vals[a] != 0 { push(&mut p, &mut vals, Op::Inverse(a)) },
            },
            1 => match r.below(4) {
                0 => {
                    // split a value known to be small, or a fresh small constant
                    let (idx, bits) = if !small.is_empty() && r.coin() { *r.pick(&small) } else {
                        let bits = 1 + r.below(40) as usize;
                        let v = if r.coin() { (1u64 << bits) - 1 } else { r.next_u64() & ((1u64 << bits) - 1) };
                        p.inputs.push(v);
                        push(&mut p, &mut vals, Op::Input);
                        (vals.len() - 1, bits)
                    };
                    let nb = bits + r.below(3) as usize;
                    let start = vals.len();
                    push(&mut p, &mut vals, Op::SplitLe(idx, nb));
                    for i in start..start + nb { bools.push(i); }
                }
                1 => if bools.len() >= 2 {
                    let k = 1 + r.below(bools.len().min(30) as u64) as usize;
                    let bits: Vec<usize> = (0..k).map(|_| *r.pick(&bools)).collect();
                    push(&mut p, &mut vals, Op::LeSum(bits));
                    small.push((vals.len() - 1, k));
                },
                2 => if !small.is_empty() {
                    let (idx, bits) = *r.pick(&small);
                    push(&mut p, &mut vals, Op::RangeCheck(idx, bits + r.below(4) as usize));
                },
                _ => if !bools.is_empty() {
                    let x = *r.pick(&bools);
                    match r.below(3) {
                        0 => { push(&mut p, &mut vals, Op::Not(x)); bools.push(vals.len() - 1) }
                        1 => { let y = *r.pick(&bools); push(&mut p, &mut vals, Op::And(x, y)); bools.push(vals.len() - 1) }
                        _ => push(&mut p, &mut vals, Op::AssertBool(x)),
                    }
                },
            },
            2 => match r.below(3) {
                0 => { push(&mut p, &mut vals, Op::IsEqual(a, if r.coin() { a } else { b })); bools.push(vals.len() - 1) }
                1 => if !bools.is_empty() { let s = *r.pick(&bools); push(&mut p, &mut vals, Op::Select(s, a, b)) },
                _ => {
                    let lg = 1 + r.below(4) as usize;
                    let n = 1usize << lg;
                    let idxv = r.below(n as u64);
                    p.inputs.push(idxv);
                    push(&mut p, &mut vals, Op::Input);
                    let ii = vals.len() - 1;
                    small.push((ii, lg));
                    let v: Vec<usize> = (0..n).map(|_| r.below(len as u64) as usize).collect();
                    push(&mut p, &mut vals, Op::RandomAccess(ii, v));
                }
            },
            3 => {
                let k = match r.below(4) { 0 => 1, 1 => 4, 2 => 8 + r.below(3) as usize, _ => 1 + r.below(20) as usize };
                let v: Vec<usize> = (0..k).map(|_| r.below(len as u64) as usize).collect();
                push(&mut p, &mut vals, Op::Hash(v));
            }
            4 => if !p.tables.is_empty() {
                let t = r.below(p.tables.len() as u64) as usize;
                let (i, _) = *r.pick(&p.tables[t]);
                p.inputs.push(i as u64);
                push(&mut p, &mut vals, Op::Input);
                let ii = vals.len() - 1;
                push(&mut p, &mut vals, Op::Lookup(t, ii));
            },
            _ => {
                // constants that trigger the builder's special cases; operands that are themselves constants
                let cst = |r: &mut Rng| -> u64 { match r.below(5) { 0 => 0, 1 => 1, 2 => P - 1, 3 => 2, _ => r.next_u64() % P } };
                let d = r.below(len as u64) as usize;
                let e = r.below(len as u64) as usize;
                let f = r.below(len as u64) as usize;
                match r.below(12) {
                    0 => { let (c0, c1) = (cst(r), cst(r)); push(&mut p, &mut vals, Op::Arith(c0, c1, a, b, c)) }
                    1 => {
                        // operands that are constant targets (0, 1, anything)
                        push(&mut p, &mut vals, Op::Const(cst(r)));
                        let k1 = vals.len() - 1;
                        let (c0, c1) = (cst(r), cst(r));
                        match r.below(3) { 0 => push(&mut p, &mut vals, Op::Arith(c0, c1, k1, b, c)), 1 => push(&mut p, &mut vals, Op::Arith(c0, c1, a, k1, k1)),
                                           _ => push(&mut p, &mut vals, Op::Arith(c0, c1, a, b, k1)) }
                    }
                    2 => if !bools.is_empty() {
                        let k = 1 + r.below(bools.len().min(20) as u64) as usize;
                        let bits: Vec<usize> = (0..k).map(|_| *r.pick(&bools)).collect();
                        push(&mut p, &mut vals, Op::ExpBits(a, bits));
                    },
                    3 => { let k = r.below(6) as usize; let v: Vec<usize> = (0..k).map(|_| r.below(len as u64) as usize).collect();
                           if r.coin() { push(&mut p, &mut vals, Op::MulMany(v)) } else { push(&mut p, &mut vals, Op::AddMany(v)) } }
                    4 => push(&mut p, &mut vals, Op::ExtMul([a, b], [c, d])),
                    5 => if vals[c] != 0 || vals[d] != 0 { push(&mut p, &mut vals, Op::ExtDiv([a, b], [c, d])) },
                    6 => { let (c0, c1) = (cst(r), cst(r)); push(&mut p, &mut vals, Op::ExtArith(c0, c1, [a, b], [c, d], [e, f])) }
                    7 => push(&mut p, &mut vals, Op::Square(a)),
                    8 => push(&mut p, &mut vals, Op::Cube(a)),
                    9 => push(&mut p, &mut vals, Op::ExpPow2(a, r.below(8) as usize)),
                    10 => if kinds & 64 != 0 {
                        // base-4 limbs (BaseSumGate<4>): bit 6 of `kinds`, because the DEFAULT gate / generator
                        // serializers register base 2 only - such a circuit cannot be written with them (clean Err)
                        let nl = 1 + r.below(20) as usize;
                        let v = if r.coin() { (1u64 << (2 * nl)) - 1 } else { r.next_u64() & ((1u64 << (2 * nl)) - 1) };
                        p.inputs.push(v);
                        push(&mut p, &mut vals, Op::Input);
                        let ii = vals.len() - 1;
                        push(&mut p, &mut vals, Op::SplitBase4(ii, nl + r.below(2) as usize));
                    },
                    _ => if !small.is_empty() {
                        let (ei, bits) = *r.pick(&small);
                        push(&mut p, &mut vals, Op::Exp(a, ei, bits + r.below(3) as usize));
                    },
                }
            }
        }
        if r.below(6) == 0 {
            let x = r.below(vals.len() as u64) as usize;
            p.ops.push(Op::Public(x));
        }
        if r.below(15) == 0 {
            // a copy constraint between two equal values
            let x = r.below(vals.len() as u64) as usize;
            if let Some(y) = (0..vals.len()).find(|&y| y != x && vals[y] == vals[x]) {
                p.ops.push(Op::AssertEq(x, y));
            }
        }
    }
    // the builder rejects a declared table that is never used: look one entry up in each
    for t in 0..p.tables.len() {
        if !p.ops.iter().any(|o| matches!(o, Op::Lookup(tt, _) if *tt == t)) {
            let (i, _) = *r.pick(&p.tables[t]);
            p.inputs.push(i as u64);
            push(&mut p, &mut vals, Op::Input);
            let ii = vals.len() - 1;
            push(&mut p, &mut vals, Op::Lookup(t, ii));
        }
    }
    // always expose something
    let last = vals.len() - 1;
    p.ops.push(Op::Public(last));
    p.ops.push(Op::Public(0));
    p
}
