//! C11: the in-circuit STARK verifier agrees with the native STARK verifier.
//! STARKs (defined here through the public `Stark` trait, same definitions as the in-crate test
//! examples, which are `#[cfg(test)]`): `fib` (transition + boundary constraints, 3 public inputs),
//! `perm` (logUp lookup, no other constraint), `free` (unconstrained, no quotient).
//! Modes: `plain<d>`  - circuit built for exactly 2^d rows (`min_degree_bits_to_support = None`);
//!        `multi<max>` - ONE circuit sized for 2^max rows verifying proofs of every 2^d, min <= d <= max
//!                      (prover / native verifier get the circuit's FRI parameters for the padding).
//! Lines:  c11 <stark>-<cfg>-<mode> <case> = <agree> # exp=.. native=.. outer=.. d=<degree bits of the proof>
//! native = `verify_stark_proof` (and, for the `degree*` cases, "the degree handed to the assignment
//! routine is the proof's degree"); outer as in C06 (assignment by `set_stark_proof_with_pis_target`).
use std::io::Write;
use std::marker::PhantomData;
use std::panic::{catch_unwind, AssertUnwindSafe};

use plonky2::field::extension::{Extendable, FieldExtension};
use plonky2::field::goldilocks_field::GoldilocksField as F;
use plonky2::field::packed::PackedField;
use plonky2::field::polynomial::PolynomialValues;
use plonky2::field::types::Field;
use plonky2::fri::reduction_strategies::FriReductionStrategy;
use plonky2::fri::{FriConfig, FriParams};
use plonky2::hash::hash_types::RichField;
use plonky2::iop::ext_target::ExtensionTarget;
use plonky2::iop::target::Target;
use plonky2::plonk::circuit_builder::CircuitBuilder;
use plonky2::plonk::circuit_data::CircuitConfig;
use plonky2::util::timing::TimingTree;
use starky::config::StarkConfig;
use starky::constraint_consumer::{ConstraintConsumer, RecursiveConstraintConsumer};
use starky::evaluation_frame::{StarkEvaluationFrame, StarkFrame};
use starky::lookup::{Column, Lookup};
use starky::proof::{StarkProofWithPublicInputs, StarkProofWithPublicInputsTarget};
use starky::prover::prove;
use starky::recursive_verifier::{add_virtual_stark_proof_with_pis, set_stark_proof_with_pis_target, verify_stark_proof_circuit};
use starky::stark::Stark;
use starky::util::trace_rows_to_poly_values;
use starky::verifier::verify_stark_proof;

use crate::c06::{bump, bump_ext, bump_hash, run_outer_with, site};
use crate::corpus::{Data, C, FE};
use crate::dsl::D;
use crate::rng::*;

type SProof = StarkProofWithPublicInputs<F, C, D>;

// ------------------------------------------------------------------------------------ STARKs
#[derive(Copy, Clone)]
pub struct FibStark<F: RichField + Extendable<D>, const D: usize>(PhantomData<F>);

impl<F: RichField + Extendable<D>, const D: usize> Stark<F, D> for FibStark<F, D> {
    type EvaluationFrame<FE, P, const D2: usize> = StarkFrame<P, P::Scalar, 2, 3>
    where FE: FieldExtension<D2, BaseField = F>, P: PackedField<Scalar = FE>;
    type EvaluationFrameTarget = StarkFrame<ExtensionTarget<D>, ExtensionTarget<D>, 2, 3>;

    fn eval_packed_generic<FE, P, const D2: usize>(&self, vars: &Self::EvaluationFrame<FE, P, D2>, yield_constr: &mut ConstraintConsumer<P>)
    where FE: FieldExtension<D2, BaseField = F>, P: PackedField<Scalar = FE> {
        let l = vars.get_local_values();
        let n = vars.get_next_values();
        let pi = vars.get_public_inputs();
        yield_constr.constraint_first_row(l[0] - pi[0]);
        yield_constr.constraint_first_row(l[1] - pi[1]);
        yield_constr.constraint_last_row(l[1] - pi[2]);
        yield_constr.constraint_transition(n[0] - l[1]);
        yield_constr.constraint_transition(n[1] - l[0] - l[1]);
    }

    fn eval_ext_circuit(&self, builder: &mut CircuitBuilder<F, D>, vars: &Self::EvaluationFrameTarget, yield_constr: &mut RecursiveConstraintConsumer<F, D>) {
        let l = vars.get_local_values();
        let n = vars.get_next_values();
        let pi = vars.get_public_inputs();
        let c0 = builder.sub_extension(l[0], pi[0]);
        let c1 = builder.sub_extension(l[1], pi[1]);
        let c2 = builder.sub_extension(l[1], pi[2]);
        yield_constr.constraint_first_row(builder, c0);
        yield_constr.constraint_first_row(builder, c1);
        yield_constr.constraint_last_row(builder, c2);
        let t0 = builder.sub_extension(n[0], l[1]);
        yield_constr.constraint_transition(builder, t0);
        let t1 = { let tmp = builder.sub_extension(n[1], l[0]); builder.sub_extension(tmp, l[1]) };
        yield_constr.constraint_transition(builder, t1);
    }

    fn constraint_degree(&self) -> usize { 2 }
}

#[derive(Copy, Clone)]
pub struct PermStark<F: RichField + Extendable<D>, const D: usize>(PhantomData<F>);

impl<F: RichField + Extendable<D>, const D: usize> Stark<F, D> for PermStark<F, D> {
    type EvaluationFrame<FE, P, const D2: usize> = StarkFrame<P, P::Scalar, 3, 1>
    where FE: FieldExtension<D2, BaseField = F>, P: PackedField<Scalar = FE>;
    type EvaluationFrameTarget = StarkFrame<ExtensionTarget<D>, ExtensionTarget<D>, 3, 1>;

    fn constraint_degree(&self) -> usize { 0 }

    fn lookups(&self) -> Vec<Lookup<F>> {
        vec![Lookup { columns: vec![Column::single(0)], table_column: Column::single(1), frequencies_column: Column::single(2),
                      filter_columns: vec![Default::default()] }]
    }

    fn eval_packed_generic<FE, P, const D2: usize>(&self, _vars: &Self::EvaluationFrame<FE, P, D2>, _yield_constr: &mut ConstraintConsumer<P>)
    where FE: FieldExtension<D2, BaseField = F>, P: PackedField<Scalar = FE> {}

    fn eval_ext_circuit(&self, _builder: &mut CircuitBuilder<F, D>, _vars: &Self::EvaluationFrameTarget, _yield_constr: &mut RecursiveConstraintConsumer<F, D>) {}
}

#[derive(Copy, Clone)]
pub struct FreeStark<F: RichField + Extendable<D>, const D: usize>(PhantomData<F>);

impl<F: RichField + Extendable<D>, const D: usize> Stark<F, D> for FreeStark<F, D> {
    type EvaluationFrame<FE, P, const D2: usize> = StarkFrame<P, P::Scalar, 2, 0>
    where FE: FieldExtension<D2, BaseField = F>, P: PackedField<Scalar = FE>;
    type EvaluationFrameTarget = StarkFrame<ExtensionTarget<D>, ExtensionTarget<D>, 2, 0>;

    fn constraint_degree(&self) -> usize { 0 }

    fn eval_packed_generic<FE, P, const D2: usize>(&self, _vars: &Self::EvaluationFrame<FE, P, D2>, _yield_constr: &mut ConstraintConsumer<P>)
    where FE: FieldExtension<D2, BaseField = F>, P: PackedField<Scalar = FE> {}

    fn eval_ext_circuit(&self, _builder: &mut CircuitBuilder<F, D>, _vars: &Self::EvaluationFrameTarget, _yield_constr: &mut RecursiveConstraintConsumer<F, D>) {}
}

fn fib_trace(n: usize, x0: F, x1: F) -> (Vec<PolynomialValues<F>>, Vec<F>) {
    let rows: Vec<[F; 2]> = (0..n).scan([x0, x1], |acc, _| { let t = *acc; acc[0] = t[1]; acc[1] = t[0] + t[1]; Some(t) }).collect();
    let last = rows[n - 1][1];
    (trace_rows_to_poly_values(rows), vec![x0, x1, last])
}
fn perm_trace(n: usize, x0: F) -> (Vec<PolynomialValues<F>>, Vec<F>) {
    let mut rows: Vec<[F; 3]> = (0..n).scan([x0, x0 + F::ONE, F::ONE], |acc, _| { let t = *acc; acc[0] = t[0] + F::ONE; acc[1] = t[1] + F::ONE; Some(t) }).collect();
    rows[n - 1][1] = x0;
    (trace_rows_to_poly_values(rows), vec![x0])
}
fn free_trace(n: usize, r: &mut Rng) -> (Vec<PolynomialValues<F>>, Vec<F>) {
    let rows: Vec<[F; 2]> = (0..n).map(|_| [F::from_canonical_u64(r.next_u64() % P), F::from_canonical_u64(r.next_u64() % P)]).collect();
    (trace_rows_to_poly_values(rows), vec![])
}

// ------------------------------------------------------------------------------------ machinery
fn stark_config(rate_bits: usize, cap_height: usize, pow: u32, arity: usize, final_bits: usize, queries: usize) -> StarkConfig {
    StarkConfig::new(10, 2, FriConfig { rate_bits, cap_height, proof_of_work_bits: pow,
                                        reduction_strategy: FriReductionStrategy::ConstantArityBits(arity, final_bits), num_query_rounds: queries })
}

fn short(msg: &str) -> String {
    let s: String = msg.chars().take(60).map(|c| if c.is_ascii_alphanumeric() { c } else { '_' }).collect();
    s.split('_').filter(|w| !w.is_empty()).collect::<Vec<_>>().join("_")
}

fn native<S: Stark<F, D> + Clone>(stark: S, p: &SProof, cfg: &StarkConfig, vp: &Option<FriParams>) -> String {
    match catch_unwind(AssertUnwindSafe(|| verify_stark_proof(stark.clone(), p.clone(), cfg, vp.clone()))) {
        Ok(Ok(())) => "ok".into(),
        Ok(Err(e)) => {
            let m = e.to_string();
            let class = if m.contains("proof of work") { "pow".to_string() } else if m.contains("Final polynomial") { "final".into() }
                else if m.contains("vanishing_polys_zeta") { "vanishing".into() } else if m.contains("x_index_within_coset") { "fold".into() }
                else if m.contains("Merkle") { "merkle".into() } else { short(&m) };
            format!("err:{class}")
        }
        Err(_) => site(),
    }
}

struct SOuter { data: Data, pt: StarkProofWithPublicInputsTarget<D>, zero: Target }

fn build_outer<S: Stark<F, D> + Clone>(stark: S, cfg: &StarkConfig, degree_bits: usize, min_bits: Option<usize>) -> Result<SOuter, String> {
    catch_unwind(AssertUnwindSafe(|| {
        let mut b = CircuitBuilder::<F, D>::new(CircuitConfig::standard_recursion_config());
        let zero = b.zero();
        let pt = add_virtual_stark_proof_with_pis(&mut b, &stark, cfg, degree_bits, 0, 0);
        verify_stark_proof_circuit::<F, C, S, D>(&mut b, stark.clone(), pt.clone(), cfg, min_bits);
        b.register_public_inputs(&pt.public_inputs);
        b.register_public_input(pt.proof.degree_bits);
        SOuter { data: b.build::<C>(), pt, zero }
    })).map_err(|_| format!("outer build panicked: {}", site()))
}

struct SCase { name: String, exp: char, p: SProof, degree_arg: usize }

fn tampers(r: &mut Rng, p: &SProof, d: usize, all: bool, shorten: bool) -> Vec<SCase> {
    let mut out = vec![];
    let mut add = |name: &str, exp: char, q: SProof, da: usize| out.push(SCase { name: name.to_string(), exp, p: q, degree_arg: da });
    let nq = p.proof.opening_proof.query_round_proofs.len();
    let pick = |r: &mut Rng, k: u64| all || r.below(k) == 0;
    { let mut q = p.clone(); let i = r.below(q.proof.openings.local_values.len() as u64) as usize; bump_ext(&mut q.proof.openings.local_values[i], r); add("opening-local", '0', q, d); }
    if pick(r, 3) { let mut q = p.clone(); let i = r.below(q.proof.openings.next_values.len() as u64) as usize; bump_ext(&mut q.proof.openings.next_values[i], r); add("opening-next", '0', q, d); }
    if p.proof.openings.quotient_polys.is_some() && pick(r, 2) {
        let mut q = p.clone(); let v = q.proof.openings.quotient_polys.as_mut().unwrap(); let i = r.below(v.len() as u64) as usize; bump_ext(&mut v[i], r); add("opening-quotient", '0', q, d);
    }
    if p.proof.openings.auxiliary_polys.is_some() && pick(r, 2) {
        let mut q = p.clone(); let v = q.proof.openings.auxiliary_polys.as_mut().unwrap(); let i = r.below(v.len() as u64) as usize; bump_ext(&mut v[i], r); add("opening-aux", '0', q, d);
        let mut q = p.clone(); let v = q.proof.openings.auxiliary_polys_next.as_mut().unwrap(); let i = r.below(v.len() as u64) as usize; bump_ext(&mut v[i], r); add("opening-auxnext", '0', q, d);
    }
    if pick(r, 2) {
        let mut q = p.clone(); let qi = r.below(nq as u64) as usize;
        let ep = &mut q.proof.opening_proof.query_round_proofs[qi].initial_trees_proof.evals_proofs;
        let o = r.below(ep.len() as u64) as usize; let j = r.below(ep[o].0.len() as u64) as usize;
        bump(&mut ep[o].0[j]); add("leaf", '0', q, d);
    }
    if pick(r, 2) {
        let mut q = p.clone(); let qi = r.below(nq as u64) as usize;
        let ep = &mut q.proof.opening_proof.query_round_proofs[qi].initial_trees_proof.evals_proofs;
        let o = r.below(ep.len() as u64) as usize;
        if !ep[o].1.siblings.is_empty() { let s = r.below(ep[o].1.siblings.len() as u64) as usize; bump_hash(&mut ep[o].1.siblings[s], r); add("sibling", '0', q, d); }
    }
    if pick(r, 2) {
        let mut q = p.clone(); let qi = r.below(nq as u64) as usize;
        let steps = &mut q.proof.opening_proof.query_round_proofs[qi].steps;
        if !steps.is_empty() {
            let s = r.below(steps.len() as u64) as usize; let i = r.below(steps[s].evals.len() as u64) as usize;
            bump_ext(&mut steps[s].evals[i], r); add("stepeval", '0', q, d);
            let mut q = p.clone();
            let steps = &mut q.proof.opening_proof.query_round_proofs[qi].steps;
            if !steps[s].merkle_proof.siblings.is_empty() { bump_hash(&mut steps[s].merkle_proof.siblings[0], r); add("stepsibling", '0', q, d); }
        }
    }
    if pick(r, 2) { let mut q = p.clone(); let c = &mut q.proof.opening_proof.final_poly.coeffs; let i = r.below(c.len() as u64) as usize; bump_ext(&mut c[i], r); add("finalpoly", '0', q, d); }
    if !p.public_inputs.is_empty() { let mut q = p.clone(); let i = r.below(q.public_inputs.len() as u64) as usize; bump(&mut q.public_inputs[i]); add("publicinput", '0', q, d); }
    if pick(r, 2) { let mut q = p.clone(); let i = r.below(q.proof.trace_cap.0.len() as u64) as usize; bump_hash(&mut q.proof.trace_cap.0[i], r); add("cap-trace", '0', q, d); }
    if p.proof.quotient_polys_cap.is_some() && pick(r, 3) {
        let mut q = p.clone(); let c = q.proof.quotient_polys_cap.as_mut().unwrap(); let i = r.below(c.0.len() as u64) as usize; bump_hash(&mut c.0[i], r); add("cap-quotient", '0', q, d);
    }
    if p.proof.auxiliary_polys_cap.is_some() && pick(r, 3) {
        let mut q = p.clone(); let c = q.proof.auxiliary_polys_cap.as_mut().unwrap(); let i = r.below(c.0.len() as u64) as usize; bump_hash(&mut c.0[i], r); add("cap-aux", '0', q, d);
    }
    if !p.proof.opening_proof.commit_phase_merkle_caps.is_empty() && pick(r, 3) {
        let mut q = p.clone(); let cs = &mut q.proof.opening_proof.commit_phase_merkle_caps; let i = r.below(cs.len() as u64) as usize;
        let j = r.below(cs[i].0.len() as u64) as usize; bump_hash(&mut cs[i].0[j], r); add("cap-commit", '0', q, d);
    }
    // shapes the native verifier rejects although the values, read in order, are those of the valid proof: openings
    // regrouped between two neighbouring vectors, an optional part the STARK does not have, surplus cap entries, a
    // surplus FRI step
    {
        let mut q = p.clone();
        if let Some(x) = q.proof.openings.local_values.pop() {
            let dest = if q.proof.openings.auxiliary_polys.is_some() { q.proof.openings.auxiliary_polys.as_mut() } else { q.proof.openings.quotient_polys.as_mut() };
            if let Some(v) = dest { v.insert(0, x); add("regrouped-local-to-next-vector", '0', q, d); }
        }
        if p.proof.auxiliary_polys_cap.is_none() { let mut q = p.clone(); q.proof.auxiliary_polys_cap = Some(q.proof.trace_cap.clone()); add("spurious-aux-cap", '0', q, d); }
        let mut q = p.clone(); let dup = q.proof.trace_cap.0.clone(); q.proof.trace_cap.0.extend(dup); add("surplus-cap-entries-trace", '0', q, d);
        let mut q = p.clone(); let qi = r.below(nq as u64) as usize;
        { let st = &mut q.proof.opening_proof.query_round_proofs[qi].steps; if let Some(l) = st.last().cloned() { st.push(l); add("surplus-step", '0', q, d); } }
    }
    { let mut q = p.clone(); q.proof.opening_proof.pow_witness += F::from_canonical_u64(1 + r.below(1000)); add("pow-other", '?', q, d); }
    // the degree handed to the assignment routine differs from the proof's degree
    add("degree-plus1", '0', p.clone(), d + 1);
    if d > 1 { add("degree-minus1", '0', p.clone(), d - 1); }
    if shorten {
        // shortened final polynomial (the assignment pads with zeros)
        let mut q = p.clone();
        let top = q.proof.opening_proof.final_poly.coeffs.pop();
        add(if top == Some(FE::ZERO) { "short-finalpoly-droppedzero" } else { "short-finalpoly-droppednonzero" }, '0', q, d);
    }
    out
}

/// run every case of `cases` against `outer`; returns number of lines
fn run_cases<S: Stark<F, D> + Clone>(w: &mut dyn Write, tag: &str, stark: S, cfg: &StarkConfig, vp: &Option<FriParams>, outer: &SOuter,
                                    d: usize, cases: Vec<SCase>) -> usize {
    let mut n = 0;
    for c in cases {
        let mut nat = native(stark.clone(), &c.p, cfg, vp);
        // the degree is part of the statement the circuit checks: the assignment must be given the proof's own degree
        let real = catch_unwind(AssertUnwindSafe(|| c.p.proof.recover_degree_bits(cfg))).unwrap_or(usize::MAX);
        if nat == "ok" && c.degree_arg != real { nat = "err:degree-arg".into(); }
        let mut exp = c.p.public_inputs.clone();
        exp.push(F::from_canonical_usize(c.degree_arg));
        let out = run_outer_with(&outer.data, &|pw| set_stark_proof_with_pis_target(pw, &outer.pt, &c.p, c.degree_arg, outer.zero), &exp, true);
        let unsat = out.unsat.as_ref().map(|(row, g)| format!(" unsat=row{row}:{g}")).unwrap_or_default();
        writeln!(w, "c11 {tag} {}-d{d} = {} # exp={} native={} outer={}{} d={d} outer_rows={}", c.name, ((nat == "ok") == out.ok) as u8, c.exp, nat,
                 out.what, unsat, outer.data.common.degree()).unwrap();
        n += 1;
    }
    w.flush().unwrap();
    n
}

fn prove_one<S: Stark<F, D> + Clone>(stark: S, cfg: &StarkConfig, trace: Vec<PolynomialValues<F>>, pis: &[F], vp: &Option<FriParams>) -> Result<SProof, String> {
    match catch_unwind(AssertUnwindSafe(|| prove::<F, C, S, D>(stark.clone(), cfg, trace, pis, vp.clone(), &mut TimingTree::default()))) {
        Ok(Ok(p)) => Ok(p), Ok(Err(e)) => Err(short(&e.to_string())), Err(_) => Err(site()),
    }
}

#[derive(Copy, Clone, PartialEq)]
enum Kind { Fib, Perm, Free }

fn trace_for(kind: Kind, d: usize, r: &mut Rng) -> (Vec<PolynomialValues<F>>, Vec<F>) {
    let n = 1usize << d;
    match kind {
        Kind::Fib => fib_trace(n, F::from_canonical_u64(r.below(1000)), F::from_canonical_u64(1 + r.below(1000))),
        Kind::Perm => perm_trace(n, F::from_canonical_u64(r.below(1 << 40))),
        Kind::Free => free_trace(n, r),
    }
}

fn plain<S: Stark<F, D> + Copy>(w: &mut dyn Write, r: &mut Rng, name: &str, kind: Kind, stark: S, cfg: &StarkConfig, d: usize, all: bool) -> usize {
    let tag = format!("{name}-plain{d}");
    let (trace, pis) = trace_for(kind, d, r);
    let p = match prove_one(stark, cfg, trace, &pis, &None) {
        Ok(p) => p, Err(e) => { writeln!(w, "c11 {tag} inner-prove = 0 # {e}").unwrap(); return 1; }
    };
    let outer = match build_outer(stark, cfg, d, None) {
        Ok(o) => o, Err(e) => { writeln!(w, "c11 {tag} outer-build = 0 # {e}").unwrap(); return 1; }
    };
    let mut cases = vec![SCase { name: "valid".into(), exp: '1', p: p.clone(), degree_arg: d }];
    cases.extend(tampers(r, &p, d, all, true));
    // a proof of another trace length for this fixed-size circuit
    for d2 in [d - 1, d + 1] {
        let (t2, pis2) = trace_for(kind, d2, r);
        if let Ok(p2) = prove_one(stark, cfg, t2, &pis2, &None) {
            // natively valid, but not for a circuit of 2^d rows: the assignment needs the circuit's shape
            cases.push(SCase { name: format!("otherlength{d2}"), exp: '0', p: p2, degree_arg: d });
        }
    }
    // a proof of the half-length trace that has the SHAPE of a proof for 2^d rows: committed with one more bit of
    // blow-up (prove_with_commitment on a transcript that absorbed the circuit's configuration), final polynomial
    // zero-padded to the expected length.  Natively it is a proof for 2^d rows and fails; the circuit must not accept
    // it for any value of the degree target, in particular not for d - 1
    if d >= 2 {
        let mut cfg2 = cfg.clone();
        cfg2.fri_config.rate_bits += 1;
        let same_steps = catch_unwind(AssertUnwindSafe(|| cfg2.fri_params(d - 1).reduction_arity_bits == cfg.fri_params(d).reduction_arity_bits)).unwrap_or(false);
        if same_steps {
            let (t2, pis2) = trace_for(kind, d - 1, r);
            let res = catch_unwind(AssertUnwindSafe(|| {
                let mut timing = TimingTree::default();
                let tc = plonky2::fri::oracle::PolynomialBatch::<F, C, D>::from_values(t2.clone(), cfg2.fri_config.rate_bits, false, cfg2.fri_config.cap_height, &mut timing, None);
                let mut ch = plonky2::iop::challenger::Challenger::<F, <C as plonky2::plonk::config::GenericConfig<D>>::Hasher>::new();
                ch.observe_elements(&pis2);
                cfg.observe(&mut ch);
                ch.observe_cap(&tc.merkle_tree.cap);
                starky::prover::prove_with_commitment::<F, C, S, D>(&stark, &cfg2, &t2, &tc, None, None, &mut ch, &pis2,
                                                                  Some(cfg.fri_params(d).final_poly_len()), Some(cfg.fri_params(d).reduction_arity_bits.len()), &mut timing)
            }));
            if let Ok(Ok(mut p2)) = res {
                let want = cfg.fri_params(d).final_poly_len();
                while p2.proof.opening_proof.final_poly.coeffs.len() < want { p2.proof.opening_proof.final_poly.coeffs.push(FE::ZERO); }
                for da in [d - 1, d] {
                    cases.push(SCase { name: format!("halflength-on-double-blowup-degreearg{da}"), exp: '0', p: p2.clone(), degree_arg: da });
                }
            }
        }
    }
    run_cases(w, &tag, stark, cfg, &None, &outer, d, cases)
}

fn multi<S: Stark<F, D> + Copy>(w: &mut dyn Write, r: &mut Rng, name: &str, kind: Kind, stark: S, cfg: &StarkConfig, min: usize, max: usize,
                                 all: bool) -> usize {
    let tag = format!("{name}-multi{max}");
    let vparams = cfg.fri_params(max);
    let vp = Some(vparams.clone());
    let outer = match build_outer(stark, cfg, max, Some(min)) {
        Ok(o) => o, Err(e) => { writeln!(w, "c11 {tag} outer-build = 0 # {e}").unwrap(); return 1; }
    };
    let mut n = 0;
    for d in min..=max {
        let (trace, pis) = trace_for(kind, d, r);
        let p = match prove_one(stark, cfg, trace.clone(), &pis, &vp) {
            Ok(p) => p, Err(e) => { writeln!(w, "c11 {tag} inner-prove-d{d} = 0 # {e}").unwrap(); n += 1; continue; }
        };
        let mut cases = vec![SCase { name: "valid".into(), exp: '1', p: p.clone(), degree_arg: d }];
        cases.extend(tampers(r, &p, d, all || d == min || d == max, true));
        // an honest proof except that the prover added a multiple of the last FRI domain's vanishing polynomial to
        // the final polynomial (same values on that domain, more coefficients than a proof of 2^d rows may have):
        // the native verifier rejects it by shape, the circuit has room for the extra coefficients
        {
            plonky2::plonk::verif_knobs::set_final_poly_vanishing_multiple(Some(1 + r.below(1 << 30)));
            let q = prove_one(stark, cfg, trace.clone(), &pis, &vp);
            plonky2::plonk::verif_knobs::set_final_poly_vanishing_multiple(None);
            if let Ok(q) = q {
                if q.proof.opening_proof.final_poly.coeffs.len() != p.proof.opening_proof.final_poly.coeffs.len() {
                    cases.push(SCase { name: "finalpoly-plus-vanishing-multiple".into(), exp: '0', p: q, degree_arg: d });
                }
            }
        }
        // a proof made WITHOUT the padding of the transcript (valid for a plain verifier only)
        if d < max {
            if let Ok(q) = prove_one(stark, cfg, trace, &pis, &None) { cases.push(SCase { name: "unpadded-transcript".into(), exp: '?', p: q, degree_arg: d }); }
        }
        n += run_cases(w, &tag, stark, cfg, &vp, &outer, d, cases);
    }
    // below the supported minimum
    if min > 2 {
        let d = min - 1;
        let (trace, pis) = trace_for(kind, d, r);
        if let Ok(p) = prove_one(stark, cfg, trace, &pis, &vp) {
            let nat = native(stark, &p, cfg, &vp);
            let mut exp = p.public_inputs.clone(); exp.push(F::from_canonical_usize(d));
            let out = run_outer_with(&outer.data, &|pw| set_stark_proof_with_pis_target(pw, &outer.pt, &p, d, outer.zero), &exp, true);
            // informational: the circuit's supported range excludes this length by construction
            writeln!(w, "c11 {tag} below-min-d{d} = - # exp=? native={nat} outer={} d={d}", out.what).unwrap();
            n += 1;
        }
    }
    n
}

/// One STARK of the const-generic family of harness/src/c09.rs (here: lookup STARKs of c10 with several
/// looking columns, next-row columns and DIFFERENT filters per column) verified natively and in-circuit.
struct FamPlain<'a> { w: &'a mut dyn Write, r: &'a mut Rng, tag: String, cfg: &'a StarkConfig, d: usize, rows: Vec<Vec<F>>, pis: Vec<F>, all: bool }

impl<'a> crate::c09::FamVisitor for FamPlain<'a> {
    type Out = usize;
    fn visit<const N: usize, const PI: usize>(self, stark: crate::c09::Fam<N, PI>) -> usize {
        let FamPlain { w, r, tag, cfg, d, rows, pis, all } = self;
        let trace = crate::c09::to_poly_values(&rows, N);
        let p = match prove_one(stark.clone(), cfg, trace, &pis, &None) {
            Ok(p) => p, Err(e) => { writeln!(w, "c11 {tag} inner-prove = 0 # {e}").unwrap(); return 1; }
        };
        let outer = match build_outer(stark.clone(), cfg, d, None) {
            Ok(o) => o, Err(e) => { writeln!(w, "c11 {tag} outer-build = 0 # {e}").unwrap(); return 1; }
        };
        let mut cases = vec![SCase { name: "valid".into(), exp: '1', p: p.clone(), degree_arg: d }];
        cases.extend(tampers(r, &p, d, all, false));
        run_cases(w, &tag, stark, cfg, &None, &outer, d, cases)
    }
}

fn family_lookup_cases(w: &mut dyn Write, r: &mut Rng, cfg: &StarkConfig, thorough: bool) -> usize {
    let mut n = 0;
    let d = 5usize;
    // (looking columns, constraint degree, fancy = linear-combination / next-row columns with different filters)
    let shapes: &[(usize, usize, bool)] = if thorough { &[(2, 3, true), (4, 3, true), (3, 3, true), (4, 2, true), (2, 3, false), (1, 3, true)] /* starky's lookups support constraint degrees 2 and 3 only */ }
                                          else { &[(2, 3, true), (4, 3, true)] };
    for &(k, degree, fancy) in shapes {
        let b = crate::c10::build_perm(r, 1 << d, k, degree, fancy);
        let tag = format!("famlookup-k{k}-deg{degree}-{}", if fancy { "filters" } else { "plain" });
        let v = FamPlain { w: &mut *w, r: &mut *r, tag, cfg, d, rows: b.rows.clone(), pis: b.pis.clone(), all: thorough };
        n += crate::c09::visit_fam(b.spec.clone(), v);
    }
    n
}

pub fn run(seed: u64, tier: &str, w: &mut dyn Write) -> usize {
    let mut r = Rng::new(seed ^ 0xC11);
    let thorough = tier == "thorough";
    let mut n = 0;
    let fib = FibStark::<F, D>(PhantomData);
    let perm = PermStark::<F, D>(PhantomData);
    let free = FreeStark::<F, D>(PhantomData);
    // plain mode
    let cfg_a = stark_config(1, 4, 3, 4, 5, 3);   // the standard fast shape with few queries: no reduction below 2^7 rows
    let cfg_b = stark_config(2, 1, 2, 2, 2, 3);   // arity 4 reductions, small cap
    n += plain(w, &mut r, "fib-a", Kind::Fib, fib, &cfg_a, 5, true);
    n += plain(w, &mut r, "perm-b", Kind::Perm, perm, &cfg_b, 5, true);
    n += family_lookup_cases(w, &mut r, &cfg_b, thorough);
    // the in-circuit cross-table-lookup evaluator against the native one (verify_stark_proof_circuit itself
    // is always called without CTL data by this harness)
    n += crate::c10::ctl_circuit_cases(w, &mut r, if thorough { 40 } else { 12 });
    n += crate::c10::ctl_sum_circuit_cases(w, &mut r, if thorough { 24 } else { 8 });
    if thorough {
        n += plain(w, &mut r, "fib-b", Kind::Fib, fib, &cfg_b, 7, true);
        n += plain(w, &mut r, "fib-a", Kind::Fib, fib, &cfg_a, 9, true);
        n += plain(w, &mut r, "perm-a", Kind::Perm, perm, &cfg_a, 4, true);
        n += plain(w, &mut r, "free-a", Kind::Free, free, &cfg_a, 4, true);
        n += plain(w, &mut r, "free-b", Kind::Free, free, &cfg_b, 6, true);
    }
    // variable-degree mode: the circuit's final polynomial must have 2^(final_bits+1) coefficients
    // (asserted by the prover), i.e. the reductions of the maximal size stop because of the cap height
    let cfg_m1 = stark_config(1, 3, 2, 1, 1, 2);  // arity 2: 2^3..2^max all end with 4 coefficients
    n += multi(w, &mut r, "fib-m1", Kind::Fib, fib, &cfg_m1, 3, if thorough { 8 } else { 6 }, thorough);
    // arity 16 (the library test's shape) in a circuit for 2^10: the proofs of 2^7..2^9 rows have as many FRI
    // steps as the circuit but a SHORTER final polynomial; 2^4..2^6 have fewer steps as well
    if !thorough {
        let cfg_m2q = stark_config(1, 4, 3, 4, 5, 2);
        n += multi(w, &mut r, "fib-m2q", Kind::Fib, fib, &cfg_m2q, 5, 10, false);
    }
    if thorough {
        let cfg_m2 = stark_config(1, 4, 3, 4, 5, 2); // the library test's shape: arity 16, 2^4..2^14
        n += multi(w, &mut r, "fib-m2", Kind::Fib, fib, &cfg_m2, 4, 14, true);
        let cfg_m3 = stark_config(1, 4, 2, 2, 3, 2); // arity 4: even sizes end with 16, odd with 8 coefficients
        n += multi(w, &mut r, "fib-m3", Kind::Fib, fib, &cfg_m3, 4, 10, true);
        n += multi(w, &mut r, "perm-m1", Kind::Perm, perm, &cfg_m1, 3, 7, true);
        n += multi(w, &mut r, "perm-m2", Kind::Perm, perm, &cfg_m2, 4, 10, true);
        n += multi(w, &mut r, "free-m1", Kind::Free, free, &cfg_m1, 3, 6, true);
    }
    n
}
