//! C19: circuit keys and verdicts do not depend on schedule, hash seeds or SIMD build.
//!
//! This sub-command is run by `checks/c19.py` in SEPARATE processes (RAYON_NUM_THREADS in
//! {1, 3, 16}, twice each; debug / AVX2 / AVX-512 / other const-random seed builds in the thorough
//! tier). Every deterministic artefact is printed as one line
//!     `digest <artefact> = <fnv1a-64 of its byte string> <byte length>`
//! and the check compares the lines of all runs for equality. Things that are legitimately
//! schedule dependent (the PoW witness returned by rayon's `find_any`, and everything derived from
//! it: PoW response, query indices, query rounds) are printed as `info ...` lines and are NOT
//! compared; zero-knowledge proofs (OsRng blinding) only take part in the cross-verification.
//!
//! Modes (extra command-line arguments after `<outfile>`):
//!   `<proofdir>`                     produce: digests to <outfile>, proofs to <proofdir>/<name>.proof
//!                                    (plonky2: `ProofWithPublicInputs::to_bytes`; STARK: serde_json)
//!   `verifyfile <dir1> [<dir2> ..]`  rebuild the same circuits, load every proof of every directory,
//!                                    verify: lines `verify <name> <dir> = <1|0> # detail`
//! Artefacts: VerifierOnlyCircuitData / CommonCircuitData / CircuitData bytes, constants_sigmas_cap,
//! circuit_digest, public inputs and the PoW-independent part of each non-zk proof (all caps,
//! openings, FRI commit-phase caps, final polynomial), Merkle trees of fixed leaf sets
//! (`MerkleTree::new`: cap, digests, paths), FFT / IFFT / coset FFT / LDE outputs, packed batch
//! helpers, `PolynomialBatch::from_values` commitments without blinding, and a STARK (defined here
//! through the public `Stark` trait) with all challenges of `get_challenges` that precede the PoW.
use std::io::Write;
use plonky2::field::ops::Square;
use std::marker::PhantomData;
use std::panic::{catch_unwind, AssertUnwindSafe};

use plonky2::field::extension::{Extendable, FieldExtension};
use plonky2::field::fft::{fft, fft_root_table, fft_with_options, ifft, ifft_with_options};
use plonky2::field::goldilocks_field::GoldilocksField as F;
use plonky2::field::packed::PackedField;
use plonky2::field::polynomial::{PolynomialCoeffs, PolynomialValues};
use plonky2::field::types::{Field, PrimeField64};
use plonky2::fri::oracle::PolynomialBatch;
use plonky2::fri::reduction_strategies::FriReductionStrategy;
use plonky2::hash::hash_types::RichField;
use plonky2::hash::keccak::KeccakHash;
use plonky2::hash::merkle_tree::MerkleTree;
use plonky2::hash::poseidon::PoseidonHash;
use plonky2::iop::challenger::Challenger;
use plonky2::iop::ext_target::ExtensionTarget;
use plonky2::plonk::circuit_builder::CircuitBuilder;
use plonky2::plonk::circuit_data::CircuitConfig;
use plonky2::plonk::config::{GenericHashOut, Hasher};
use plonky2::util::serialization::{DefaultGateSerializer, DefaultGeneratorSerializer, Write as PWrite};
use plonky2::util::timing::TimingTree;
use starky::config::StarkConfig;
use starky::constraint_consumer::{ConstraintConsumer, RecursiveConstraintConsumer};
use starky::evaluation_frame::{StarkEvaluationFrame, StarkFrame};
use starky::proof::StarkProofWithPublicInputs;
use starky::stark::Stark;

use crate::corpus::*;
use crate::dsl::{self, Program, D};
use crate::rng::Rng;

/// FNV-1a, 64 bit (no dependency; only used to shorten byte strings for comparison)
pub fn fnv64(b: &[u8]) -> u64 {
    let mut h = 0xcbf2_9ce4_8422_2325u64;
    for x in b {
        h ^= *x as u64;
        h = h.wrapping_mul(0x0000_0100_0000_01b3);
    }
    h
}

fn fes_bytes(xs: &[F]) -> Vec<u8> {
    let mut o = Vec::with_capacity(8 * xs.len());
    for x in xs { o.extend_from_slice(&x.to_canonical_u64().to_le_bytes()) }
    o
}

struct Out<'a> { w: &'a mut dyn Write, n: usize }
impl<'a> Out<'a> {
    fn digest(&mut self, name: &str, bytes: &[u8]) {
        writeln!(self.w, "digest {} = {} {}", name, fnv64(bytes), bytes.len()).unwrap();
        self.n += 1;
    }
    fn info(&mut self, name: &str, v: &str) {
        writeln!(self.w, "info {} = {}", name, v).unwrap();
    }
}

// ------------------------------------------------------------------------------- circuits
/// The fixed circuit set: a function of (seed, tier) only.
pub fn circuits(seed: u64, tier: &str) -> Vec<(String, Program, CircuitConfig, bool)> {
    let mut r = Rng::new(seed ^ 0xC19);
    let mut v = vec![];
    let reps = if tier == "thorough" { 3 } else { 1 };
    for (name, cfg) in configs() {
        for rep in 0..reps {
            // all gadget families (arithmetic, bits, select/random access, hashing, lookups)
            let kinds = if rep == 2 { 15 } else { 31 };
            let size = match rep { 0 => 30, 1 => 90, _ => 12 } + r.below(10) as usize;
            let size = if name == "standard" { size.min(40) } else { size };
            let p = gen_program(&mut r, size, kinds);
            v.push((format!("{}.{}", name, rep), p, cfg.clone(), cfg.zero_knowledge));
        }
    }
    let p = gen_program(&mut r, 25, 31);
    v.push(("wide.0".into(), p, wide_config(), false));
    let p = gen_program(&mut r, 25, 31);
    v.push(("narrow.0".into(), p, narrow_config(), false));
    v
}

fn build_circuit(p: &Program, cfg: &CircuitConfig) -> Result<(Data, Vec<plonky2::iop::target::Target>), String> {
    catch_unwind(AssertUnwindSafe(|| {
        let mut b = CircuitBuilder::<F, D>::new(cfg.clone());
        let ins = dsl::build(p, &mut b);
        (b.build::<C>(), ins)
    })).map_err(|_| "panic while building".to_string())
}

/// the part of a proof that is fixed before grinding: caps, openings, commit-phase caps, final poly
fn proof_prefix(p: &Pwpi) -> Vec<u8> {
    let mut o: Vec<u8> = vec![];
    o.write_merkle_cap(&p.proof.wires_cap).unwrap();
    o.write_merkle_cap(&p.proof.plonk_zs_partial_products_cap).unwrap();
    o.write_merkle_cap(&p.proof.quotient_polys_cap).unwrap();
    o.write_opening_set(&p.proof.openings).unwrap();
    for c in &p.proof.opening_proof.commit_phase_merkle_caps { o.write_merkle_cap(c).unwrap(); }
    o.write_field_ext_vec::<F, D>(&p.proof.opening_proof.final_poly.coeffs).unwrap();
    o
}

/// wire matrix of the generated witness with every cell whose copy class is written by a
/// `RandomValueGenerator` zeroed; returns (bytes, number of masked cells)
fn deterministic_witness(data: &Data, pw: plonky2::iop::witness::PartialWitness<F>) -> Result<(Vec<u8>, usize), String> {
    use plonky2::iop::target::Target;
    let cfg = &data.common.config;
    let degree = data.common.degree();
    let reps = &data.prover_only.representative_map;
    let mut random_reps = std::collections::BTreeSet::new();
    for g in &data.prover_only.generators {
        if g.0.id() == "RandomValueGenerator" {
            // the target is crate-private; its serialisation is `write_target`
            let mut b: Vec<u8> = vec![];
            g.0.serialize(&mut b, &data.common).map_err(|_| "serialize")?;
            let u = |i: usize| u64::from_le_bytes(b[i..i + 8].try_into().unwrap()) as usize;
            let t = if b[0] == 1 { Target::wire(u(1), u(9)) } else { Target::VirtualTarget { index: u(1) } };
            random_reps.insert(reps[t.index(cfg.num_wires, degree)]);
        }
    }
    // blinding rows copy a random cell into a second row through `CopyGenerator` (`generate_copy`:
    // no copy constraint, so a different class): the destination is random as well
    let parse = |b: &[u8], at: &mut usize| -> Target {
        let u = |i: usize| u64::from_le_bytes(b[i..i + 8].try_into().unwrap()) as usize;
        if b[*at] == 1 { let t = Target::wire(u(*at + 1), u(*at + 9)); *at += 17; t }
        else { let t = Target::VirtualTarget { index: u(*at + 1) }; *at += 9; t }
    };
    loop {
        let before = random_reps.len();
        for g in &data.prover_only.generators {
            if g.0.id() == "CopyGenerator" {
                let mut b: Vec<u8> = vec![];
                g.0.serialize(&mut b, &data.common).map_err(|_| "serialize")?;
                let mut at = 0;
                let src = parse(&b, &mut at);
                let dst = parse(&b, &mut at);
                if random_reps.contains(&reps[src.index(cfg.num_wires, degree)]) {
                    random_reps.insert(reps[dst.index(cfg.num_wires, degree)]);
                }
            }
        }
        if random_reps.len() == before { break; }
    }
    let w = plonky2::iop::generator::generate_partial_witness(pw, &data.prover_only, &data.common).map_err(|e| e.to_string())?;
    let m = w.full_witness();
    let mut o = Vec::with_capacity(8 * degree * cfg.num_wires);
    let mut masked = 0;
    for row in 0..degree {
        for col in 0..cfg.num_wires {
            let rep = reps[Target::wire(row, col).index(cfg.num_wires, degree)];
            let v = if random_reps.contains(&rep) { masked += 1; 0 } else { m.get_wire(row, col).to_canonical_u64() };
            o.extend_from_slice(&v.to_le_bytes());
        }
    }
    Ok((o, masked))
}

fn produce_circuits(seed: u64, tier: &str, out: &mut Out, dir: &str) {
    for (name, p, cfg, zk) in circuits(seed, tier) {
        let (data, ins) = match build_circuit(&p, &cfg) {
            Ok(x) => x,
            Err(e) => { out.digest(&format!("{name}/build"), e.as_bytes()); continue }
        };
        let vo = data.verifier_only.to_bytes().unwrap_or_else(|_| b"ERR".to_vec());
        out.digest(&format!("{name}/verifier_only_bytes"), &vo);
        let common = data.common.to_bytes(&DefaultGateSerializer).unwrap_or_else(|_| b"ERR".to_vec());
        out.digest(&format!("{name}/common_bytes"), &common);
        let mut capb: Vec<u8> = vec![];
        capb.write_merkle_cap(&data.verifier_only.constants_sigmas_cap).unwrap();
        out.digest(&format!("{name}/constants_sigmas_cap"), &capb);
        out.digest(&format!("{name}/circuit_digest"), &data.verifier_only.circuit_digest.to_bytes());
        // prover side of the key as well (generators, sigma polynomials, representative map, ..)
        let gs = DefaultGeneratorSerializer::<C, D>::default();
        let full = data.to_bytes(&DefaultGateSerializer, &gs).unwrap_or_else(|_| b"ERR".to_vec());
        out.digest(&format!("{name}/circuit_data_bytes"), &full);
        let gate_ids = data.common.gates.iter().map(|g| g.0.id()).collect::<Vec<_>>().join(";");
        out.digest(&format!("{name}/gate_order"), gate_ids.as_bytes());
        // the witness, except the cells filled by `RandomValueGenerator` (OsRng): those exist in
        // EVERY circuit (`randomize_unused_pi_wires`), with or without zero_knowledge
        match catch_unwind(AssertUnwindSafe(|| deterministic_witness(&data, dsl::witness(&p, &ins)))) {
            Ok(Ok((bytes, nrand))) => {
                out.digest(&format!("{name}/witness_nonrandom_cells"), &bytes);
                out.info(&format!("{name}/random_cells"), &nrand.to_string());
            }
            _ => out.digest(&format!("{name}/witness_nonrandom_cells"), b"failed"),
        }
        // prove
        let pw = dsl::witness(&p, &ins);
        let proof = match catch_unwind(AssertUnwindSafe(|| data.prove(pw))) {
            Ok(Ok(pr)) => pr,
            _ => { out.digest(&format!("{name}/prove"), b"failed"); continue }
        };
        out.digest(&format!("{name}/public_inputs"), &fes_bytes(&proof.public_inputs));
        // NOT a deterministic artefact, even with zero_knowledge off: the unused wires of the
        // public-input row are randomised by OsRng in every proof (plonky2 issue 456)
        let _ = zk;
        out.info(&format!("{name}/proof_prefix"), &fnv64(&proof_prefix(&proof)).to_string());
        out.info(&format!("{name}/pow_witness"), &proof.proof.opening_proof.pow_witness.to_canonical_u64().to_string());
        out.info(&format!("{name}/proof_bytes"), &fnv64(&proof.to_bytes()).to_string());
        let ok = verdict(&data, proof.clone());
        out.digest(&format!("{name}/self_verify"), ok.as_bytes());
        std::fs::write(format!("{dir}/{name}.proof"), proof.to_bytes()).expect("write proof");
    }
}

fn verify_circuits(seed: u64, tier: &str, out: &mut Out, dirs: &[String]) {
    for (name, p, cfg, _zk) in circuits(seed, tier) {
        let (data, _) = match build_circuit(&p, &cfg) {
            Ok(x) => x,
            Err(e) => { writeln!(out.w, "verify {name} - = 0 # {e}").unwrap(); out.n += 1; continue }
        };
        // the verifier side only (what a remote verifier holds)
        let vd = data.verifier_data();
        for d in dirs {
            let tag = std::path::Path::new(d).file_name().map(|x| x.to_string_lossy().to_string()).unwrap_or_default();
            let path = format!("{d}/{name}.proof");
            let res = match std::fs::read(&path) {
                Err(_) => "missing".to_string(),
                Ok(bytes) => match catch_unwind(AssertUnwindSafe(|| Pwpi::from_bytes(bytes, &vd.common))) {
                    Err(_) => "decode-panic".into(),
                    Ok(Err(_)) => "decode-err".into(),
                    Ok(Ok(pr)) => match catch_unwind(AssertUnwindSafe(|| vd.verify(pr))) {
                        Ok(Ok(())) => "ok".into(),
                        Ok(Err(e)) => format!("rejected: {e}"),
                        Err(_) => "verify-panic".into(),
                    },
                },
            };
            writeln!(out.w, "verify {name} {tag} = {} # {res}", (res == "ok") as u8).unwrap();
            out.n += 1;
        }
    }
}

// ------------------------------------------------------------------------------- intermediates
fn rand_fes(r: &mut Rng, n: usize) -> Vec<F> {
    (0..n).map(|i| match i % 7 { 0 => F::from_canonical_u64(crate::rng::P - 1 - r.below(3)), 1 => F::from_canonical_u64(r.below(4)),
                                 _ => F::from_noncanonical_u64(r.next_u64()) }).collect()
}

fn hashes_bytes<H: Hasher<F>>(hs: &[H::Hash]) -> Vec<u8> {
    let mut o = vec![];
    for h in hs { o.extend_from_slice(&h.to_bytes()) }
    o
}

fn merkle_artefacts<H: Hasher<F>>(tag: &str, tier: &str, out: &mut Out) {
    let mut r = Rng::new(0x4d45_524b);
    let max_log = if tier == "thorough" { 13 } else { 10 };
    for log_n in 0..=max_log {
        for (k, leaf_len) in [0usize, 1, 4, 5, 8, 9, 20, 135].iter().enumerate() {
            if (log_n + k) % 3 != 0 && log_n > 4 { continue; }
            for cap_h in [0usize, 1, log_n / 2, log_n.saturating_sub(1), log_n] {
                if cap_h > log_n { continue; }
                let n = 1usize << log_n;
                let leaves: Vec<Vec<F>> = (0..n).map(|_| rand_fes(&mut r, *leaf_len)).collect();
                let t = MerkleTree::<F, H>::new(leaves, cap_h);
                let mut b = hashes_bytes::<H>(&t.cap.0);
                b.extend(hashes_bytes::<H>(&t.digests));
                for i in [0, n / 3, n - 1] { b.extend(hashes_bytes::<H>(&t.prove(i).siblings)); }
                out.digest(&format!("merkle/{tag}/n{log_n}.leaf{leaf_len}.cap{cap_h}"), &b);
            }
        }
    }
}

/// Lane-wise arithmetic of the packed field type this build selects (`<F as Packable>::Packing`: the scalar
/// field itself, the AVX2 or the AVX-512 vector type) on boundary and non-canonical representations; one
/// artefact per (operation, first operand), the second operand running over the whole boundary set, results
/// canonical.  A scalar build computes the same table with scalar arithmetic (decided by C14).
fn packed_artefacts(tier: &str, out: &mut Out) {
    type P = <F as plonky2::field::packable::Packable>::Packing;
    let w = <P as PackedField>::WIDTH;
    let mut r = Rng::new(0x5041_434b);
    let mut vals = crate::rng::boundary_u64();
    let extra = if tier == "thorough" { 200 } else { 30 };
    for _ in 0..extra { let v = crate::rng::mixed_u64(&mut r, &crate::rng::boundary_u64()); vals.push(v); }
    let f = |x: u64| F::from_noncanonical_u64(x);
    let pack = |xs: &[u64]| -> P { let mut a = vec![F::ZERO; w]; for (i, &x) in xs.iter().enumerate() { a[i] = f(x); } *P::from_slice(&a) };
    type Op = (&'static str, fn(P, P) -> P);
    let ops: Vec<Op> = vec![
        ("add", |a, b| a + b), ("sub", |a, b| a - b), ("mul", |a, b| a * b), ("neg_add", |a, b| -a + b),
        ("square_add", |a, b| a.square() + b), ("add_assign_twice", |a, b| { let mut c = a; c += b; c += b; c }),
        ("sub_assign_mul", |a, b| { let mut c = a; c -= b; c *= a; c }), ("mul_add_sub", |a, b| a * b + a - b),
        ("add_scalar", |a, b| a + b.as_slice()[0]), ("mul_scalar", |a, b| a * b.as_slice()[0]), ("sub_scalar", |a, b| a - b.as_slice()[0]),
    ];
    for (name, op) in ops.iter() {
        for &x in vals.iter() {
            let px = pack(&vec![x; w]);
            let mut res: Vec<F> = Vec::with_capacity(vals.len());
            for chunk in vals.chunks(w) {
                let scalar_op = name.ends_with("_scalar");
                if scalar_op {
                    // the scalar operand is one value: one call per second operand
                    for &y in chunk { res.push(op(px, pack(&vec![y; w])).as_slice()[0]); }
                } else {
                    let py = pack(chunk);
                    res.extend_from_slice(&op(px, py).as_slice()[..chunk.len()]);
                }
            }
            out.digest(&format!("packed/{name}/x{x:016x}"), &fes_bytes(&res));
        }
    }
    // sums and products along a vector (the shape of the FFT butterflies and of the quotient evaluation)
    for (k, &x) in vals.iter().enumerate() {
        let xs: Vec<u64> = (0..4 * w.max(2)).map(|i| vals[(k + 7 * i) % vals.len()]).collect();
        let ps: Vec<P> = xs.chunks(w).map(|c| pack(c)).collect();
        let mut acc = pack(&vec![x; w]);
        for p in &ps { acc = acc * *p + *p; }
        // lanes see different operands in different builds: fold the lanes back in a width-independent way
        let lanes: Vec<F> = (0..w).map(|j| { let mut t = f(x); for c in xs.chunks(w) { let y = if j < c.len() { f(c[j]) } else { F::ZERO }; t = t * y + y; } t }).collect();
        out.digest(&format!("packed/fold_matches_scalar/x{x:016x}"), &[(acc.as_slice() == &lanes[..]) as u8]);
    }
}

fn fft_artefacts(tier: &str, out: &mut Out) {
    let mut r = Rng::new(0x4646_5421);
    let max_log = if tier == "thorough" { 16 } else { 12 };
    for log_n in 0..=max_log {
        let n = 1usize << log_n;
        let c = rand_fes(&mut r, n);
        let v = fft(PolynomialCoeffs::new(c.clone()));
        out.digest(&format!("fft/fft.n{log_n}"), &fes_bytes(&v.values));
        let back = ifft(v.clone());
        out.digest(&format!("fft/ifft_fft_is_id.n{log_n}"), &[(back.coeffs == c) as u8]);
        let iv = ifft(PolynomialValues::new(c.clone()));
        out.digest(&format!("fft/ifft.n{log_n}"), &fes_bytes(&iv.coeffs));
        // the same transforms on non-canonically stored inputs (boundary representations of field elements)
        let bnd = crate::rng::boundary_u64();
        let cn: Vec<F> = (0..n).map(|_| F::from_noncanonical_u64(crate::rng::mixed_u64(&mut r, &bnd))).collect();
        out.digest(&format!("fft/fft_noncanonical.n{log_n}"), &fes_bytes(&fft(PolynomialCoeffs::new(cn.clone())).values));
        out.digest(&format!("fft/ifft_noncanonical.n{log_n}"), &fes_bytes(&ifft(PolynomialValues::new(cn.clone())).coeffs));
        out.digest(&format!("fft/lde_noncanonical.n{log_n}"), &fes_bytes(&PolynomialCoeffs::new(cn.clone()).lde(1).coset_fft(F::coset_shift()).values));
        let table = fft_root_table::<F>(n);
        let v2 = fft_with_options(PolynomialCoeffs::new(c.clone()), None, Some(&table));
        out.digest(&format!("fft/fft_table.n{log_n}"), &fes_bytes(&v2.values));
        let iv2 = ifft_with_options(PolynomialValues::new(c.clone()), None, Some(&table));
        out.digest(&format!("fft/ifft_table.n{log_n}"), &fes_bytes(&iv2.coeffs));
        let cs = PolynomialCoeffs::new(c.clone()).coset_fft(F::coset_shift());
        out.digest(&format!("fft/coset_fft.n{log_n}"), &fes_bytes(&cs.values));
        let ci = PolynomialValues::new(c.clone()).coset_ifft(F::coset_shift());
        out.digest(&format!("fft/coset_ifft.n{log_n}"), &fes_bytes(&ci.coeffs));
        for rate in [1usize, 3] {
            if log_n + rate > max_log + 1 { continue; }
            // zero-tail path of the FFT (zero_factor = rate_bits)
            let lde = PolynomialCoeffs::new(c.clone()).lde(rate);
            let z = lde.clone().fft_with_options(Some(rate), None);
            out.digest(&format!("fft/lde_zero_factor.n{log_n}.r{rate}"), &fes_bytes(&z.values));
            let plain = lde.fft();
            out.digest(&format!("fft/lde_zero_factor_eq_plain.n{log_n}.r{rate}"), &[(plain.values == z.values) as u8]);
            let l2 = PolynomialValues::new(c.clone()).lde(rate);
            out.digest(&format!("fft/values_lde.n{log_n}.r{rate}"), &fes_bytes(&l2.values));
            let l3 = PolynomialValues::new(c.clone()).lde_onto_coset(rate);
            out.digest(&format!("fft/values_lde_coset.n{log_n}.r{rate}"), &fes_bytes(&l3.values));
        }
    }
    // packed helpers with leftovers
    for len in (0..=40).chain([255, 256, 257, 1000, 1003]) {
        let a = rand_fes(&mut r, len);
        let b = rand_fes(&mut r, len);
        let mut m = a.clone();
        plonky2::field::batch_util::batch_multiply_inplace(&mut m, &b);
        let mut s = a.clone();
        plonky2::field::batch_util::batch_add_inplace(&mut s, &b);
        let mut bytes = fes_bytes(&m);
        bytes.extend(fes_bytes(&s));
        out.digest(&format!("batch/mul_add.len{len}"), &bytes);
        let scalar_ok = m.iter().zip(a.iter().zip(b.iter())).all(|(x, (y, z))| *x == *y * *z)
            && s.iter().zip(a.iter().zip(b.iter())).all(|(x, (y, z))| *x == *y + *z);
        out.digest(&format!("batch/eq_scalar.len{len}"), &[scalar_ok as u8]);
    }
}

fn polybatch_artefacts(tier: &str, out: &mut Out) {
    let mut r = Rng::new(0x504f_4c59);
    let max_log = if tier == "thorough" { 12 } else { 9 };
    for log_n in 1..=max_log {
        for (npoly, rate, cap_h) in [(1usize, 1usize, 0usize), (3, 3, 1), (20, 2, 4), (135, 3, 4)] {
            if cap_h > log_n + rate { continue; }
            if npoly > 20 && log_n % 3 != 0 { continue; }
            let n = 1usize << log_n;
            let vals: Vec<PolynomialValues<F>> = (0..npoly).map(|_| PolynomialValues::new(rand_fes(&mut r, n))).collect();
            let table = fft_root_table::<F>(n << rate);
            let with_table = (log_n + npoly) % 2 == 0;
            let pb = PolynomialBatch::<F, C, D>::from_values(vals, rate, false, cap_h, &mut TimingTree::default(),
                                                            if with_table { Some(&table) } else { None });
            let mut b = hashes_bytes::<PoseidonHash>(&pb.merkle_tree.cap.0);
            for poly in &pb.polynomials { b.extend(fes_bytes(&poly.coeffs)); }
            b.extend(fes_bytes(pb.get_lde_values(n / 2, 1)));
            b.extend(fes_bytes(pb.get_lde_values((n << rate) - 1, 1)));
            let pk: Vec<<F as plonky2::field::packable::Packable>::Packing> = pb.get_lde_values_packed(0, 1);
            // the packed view holds WIDTH consecutive rows per polynomial (WIDTH depends on the build):
            // compare lane 0 across builds, and all lanes with the scalar accessor inside this build
            for x in &pk { b.extend(fes_bytes(&x.as_slice()[..1])); }
            let lanes_ok = (0..pk.first().map_or(0, |x| x.as_slice().len())).all(|lane| {
                let row = pb.get_lde_values(lane, 1);
                pk.iter().zip(row.iter()).all(|(x, y)| x.as_slice()[lane] == *y)
            });
            b.push(lanes_ok as u8);
            out.digest(&format!("polybatch/n{log_n}.polys{npoly}.r{rate}.cap{cap_h}"), &b);
        }
    }
}

// ------------------------------------------------------------------------------- STARK
/// Fibonacci with an accumulator, through the public `Stark` trait:
/// columns [x0, x1, acc, i]; x0' = x1, x1' = x0 + x1, acc' = acc + x0 * x1, i' = i + 1.
#[derive(Copy, Clone)]
pub struct FibAccStark<FF: RichField + Extendable<DD>, const DD: usize> { _p: PhantomData<FF> }

const COLS: usize = 4;
const PIS: usize = 4;

impl<FF: RichField + Extendable<DD>, const DD: usize> Stark<FF, DD> for FibAccStark<FF, DD> {
    type EvaluationFrame<FE, P, const D2: usize> = StarkFrame<P, P::Scalar, COLS, PIS>
    where FE: FieldExtension<D2, BaseField = FF>, P: PackedField<Scalar = FE>;
    type EvaluationFrameTarget = StarkFrame<ExtensionTarget<DD>, ExtensionTarget<DD>, COLS, PIS>;

    fn eval_packed_generic<FE, P, const D2: usize>(&self, vars: &Self::EvaluationFrame<FE, P, D2>, yc: &mut ConstraintConsumer<P>)
    where FE: FieldExtension<D2, BaseField = FF>, P: PackedField<Scalar = FE> {
        let l = vars.get_local_values();
        let n = vars.get_next_values();
        let pi = vars.get_public_inputs();
        yc.constraint_first_row(l[0] - pi[0]);
        yc.constraint_first_row(l[1] - pi[1]);
        yc.constraint_first_row(l[2]);
        yc.constraint_first_row(l[3]);
        yc.constraint_last_row(l[1] - pi[2]);
        yc.constraint_last_row(l[2] - pi[3]);
        yc.constraint_transition(n[0] - l[1]);
        yc.constraint_transition(n[1] - l[0] - l[1]);
        yc.constraint_transition(n[2] - l[2] - l[0] * l[1]);
        yc.constraint_transition(n[3] - l[3] - P::ONES);
    }

    fn eval_ext_circuit(&self, b: &mut CircuitBuilder<FF, DD>, vars: &Self::EvaluationFrameTarget, yc: &mut RecursiveConstraintConsumer<FF, DD>) {
        let l = vars.get_local_values();
        let n = vars.get_next_values();
        let pi = vars.get_public_inputs();
        let c = b.sub_extension(l[0], pi[0]); yc.constraint_first_row(b, c);
        let c = b.sub_extension(l[1], pi[1]); yc.constraint_first_row(b, c);
        yc.constraint_first_row(b, l[2]);
        yc.constraint_first_row(b, l[3]);
        let c = b.sub_extension(l[1], pi[2]); yc.constraint_last_row(b, c);
        let c = b.sub_extension(l[2], pi[3]); yc.constraint_last_row(b, c);
        let c = b.sub_extension(n[0], l[1]); yc.constraint_transition(b, c);
        let t = b.sub_extension(n[1], l[0]); let c = b.sub_extension(t, l[1]); yc.constraint_transition(b, c);
        let t = b.sub_extension(n[2], l[2]); let m = b.mul_extension(l[0], l[1]); let c = b.sub_extension(t, m); yc.constraint_transition(b, c);
        let one = b.one_extension(); let t = b.sub_extension(n[3], l[3]); let c = b.sub_extension(t, one); yc.constraint_transition(b, c);
    }

    fn constraint_degree(&self) -> usize { 2 }
}

type S = FibAccStark<F, D>;

fn stark_trace(log_n: usize, x0: u64, x1: u64) -> (Vec<PolynomialValues<F>>, [F; PIS]) {
    let n = 1usize << log_n;
    let mut rows: Vec<[F; COLS]> = Vec::with_capacity(n);
    let mut cur = [F::from_canonical_u64(x0), F::from_canonical_u64(x1), F::ZERO, F::ZERO];
    for _ in 0..n {
        rows.push(cur);
        cur = [cur[1], cur[0] + cur[1], cur[2] + cur[0] * cur[1], cur[3] + F::ONE];
    }
    let last = rows[n - 1];
    let pis = [rows[0][0], rows[0][1], last[1], last[2]];
    (starky::util::trace_rows_to_poly_values(rows), pis)
}

fn stark_cases(tier: &str) -> Vec<(String, StarkConfig, usize, u64, u64)> {
    let small = StarkConfig::new(20, 2, fri_config(2, 1, 3, FriReductionStrategy::ConstantArityBits(2, 3), 8));
    let deep = StarkConfig::new(30, 3, fri_config(1, 0, 5, FriReductionStrategy::ConstantArityBits(1, 2), 25));
    let mut v = vec![
        ("fast.5".to_string(), StarkConfig::standard_fast_config(), 5usize, 0u64, 1u64),
        ("small.6".to_string(), small.clone(), 6, 3, 5),
        ("deep.8".to_string(), deep.clone(), 8, crate::rng::P - 1, 2),
    ];
    if tier == "thorough" {
        v.push(("fast.12".to_string(), StarkConfig::standard_fast_config(), 12, 7, 11));
        v.push(("small.10".to_string(), small, 10, 1, 1));
        v.push(("deep.3".to_string(), deep, 3, 2, 3));
    }
    v
}

fn produce_starks(tier: &str, out: &mut Out, dir: &str) {
    for (name, cfg, log_n, x0, x1) in stark_cases(tier) {
        let (trace, pis) = stark_trace(log_n, x0, x1);
        let stark = S { _p: PhantomData };
        let res = catch_unwind(AssertUnwindSafe(|| starky::prover::prove::<F, C, S, D>(stark, &cfg, trace, &pis, None, &mut TimingTree::default())));
        let proof = match res { Ok(Ok(p)) => p, _ => { out.digest(&format!("stark/{name}/prove"), b"failed"); continue } };
        let pr = &proof.proof;
        let mut b: Vec<u8> = vec![];
        b.write_merkle_cap(&pr.trace_cap).unwrap();
        if let Some(c) = &pr.quotient_polys_cap { b.write_merkle_cap(c).unwrap(); }
        b.extend(serde_json::to_vec(&pr.openings).unwrap());
        for c in &pr.opening_proof.commit_phase_merkle_caps { b.write_merkle_cap(c).unwrap(); }
        b.write_field_ext_vec::<F, D>(&pr.opening_proof.final_poly.coeffs).unwrap();
        out.digest(&format!("stark/{name}/proof_prefix"), &b);
        // the transcript: every challenge that precedes the proof of work
        let mut ch = Challenger::<F, PoseidonHash>::new();
        let chal = proof.get_challenges(&stark, &mut ch, None, None, false, &cfg, None);
        let mut t: Vec<u8> = fes_bytes(&chal.stark_alphas);
        t.write_field_ext::<F, D>(chal.stark_zeta).unwrap();
        t.write_field_ext::<F, D>(chal.fri_challenges.fri_alpha).unwrap();
        t.write_field_ext_vec::<F, D>(&chal.fri_challenges.fri_betas).unwrap();
        out.digest(&format!("stark/{name}/transcript_pre_pow"), &t);
        out.info(&format!("stark/{name}/pow_witness"), &pr.opening_proof.pow_witness.to_canonical_u64().to_string());
        out.info(&format!("stark/{name}/query_indices"), &fnv64(&chal.fri_challenges.fri_query_indices.iter().flat_map(|i| (*i as u64).to_le_bytes()).collect::<Vec<u8>>()).to_string());
        let ok = matches!(catch_unwind(AssertUnwindSafe(|| starky::verifier::verify_stark_proof(stark, proof.clone(), &cfg, None))), Ok(Ok(())));
        out.digest(&format!("stark/{name}/self_verify"), &[ok as u8]);
        std::fs::write(format!("{dir}/stark_{name}.json"), serde_json::to_vec(&proof).unwrap()).expect("write stark proof");
    }
}

fn verify_starks(tier: &str, out: &mut Out, dirs: &[String]) {
    for (name, cfg, _log_n, _x0, _x1) in stark_cases(tier) {
        for d in dirs {
            let tag = std::path::Path::new(d).file_name().map(|x| x.to_string_lossy().to_string()).unwrap_or_default();
            let res = match std::fs::read(format!("{d}/stark_{name}.json")) {
                Err(_) => "missing".to_string(),
                Ok(bytes) => match serde_json::from_slice::<StarkProofWithPublicInputs<F, C, D>>(&bytes) {
                    Err(_) => "decode-err".into(),
                    Ok(p) => match catch_unwind(AssertUnwindSafe(|| starky::verifier::verify_stark_proof(S { _p: PhantomData }, p, &cfg, None))) {
                        Ok(Ok(())) => "ok".into(),
                        Ok(Err(e)) => format!("rejected: {e}"),
                        Err(_) => "verify-panic".into(),
                    },
                },
            };
            writeln!(out.w, "verify stark_{name} {tag} = {} # {res}", (res == "ok") as u8).unwrap();
            out.n += 1;
        }
    }
}

pub fn run(seed: u64, tier: &str, w: &mut dyn Write) -> usize {
    let args: Vec<String> = std::env::args().collect();
    let extra = &args[5.min(args.len())..];
    let mut out = Out { w, n: 0 };
    let packing = <<F as plonky2::field::packable::Packable>::Packing as PackedField>::WIDTH;
    out.info("packing_width", &packing.to_string());
    out.info("rayon_threads", &plonky2_maybe_rayon::rayon::current_num_threads().to_string());
    out.info("debug_assertions", &(cfg!(debug_assertions) as u8).to_string());
    // evidence that the hash-map state really differs between processes / builds: iteration order
    // of a fixed set under hashbrown's default hasher (ahash: compile-time keys from const-random,
    // per-process part from addresses under ASLR)
    let hs: hashbrown::HashSet<u64> = (0..64u64).collect();
    let order: Vec<u8> = hs.iter().map(|x| *x as u8).collect();
    out.info("hash_iteration_order", &fnv64(&order).to_string());
    if extra.first().map(|s| s.as_str()) == Some("verifyfile") {
        let dirs = extra[1..].to_vec();
        verify_circuits(seed, tier, &mut out, &dirs);
        verify_starks(tier, &mut out, &dirs);
        return out.n;
    }
    let dir = extra.first().cloned().unwrap_or_else(|| ".".to_string());
    std::fs::create_dir_all(&dir).expect("proof directory");
    let only = std::env::var("VERIF_C19_ONLY").unwrap_or_default();
    let want = |k: &str| only.is_empty() || only.split(',').any(|x| x == k);
    if want("circuits") { produce_circuits(seed, tier, &mut out, &dir); }
    if want("merkle") {
        merkle_artefacts::<PoseidonHash>("poseidon", tier, &mut out);
        merkle_artefacts::<KeccakHash<25>>("keccak", tier, &mut out);
    }
    if want("packed") { packed_artefacts(tier, &mut out); }
    if want("fft") { fft_artefacts(tier, &mut out); }
    if want("polybatch") { polybatch_artefacts(tier, &mut out); }
    if want("stark") { produce_starks(tier, &mut out, &dir); }
    out.n
}
