//! Proof corpus shared by the proof-level properties: configurations, circuit construction from
//! DSL programs, proving, and flat integer dumps of circuit data / proofs for the Gallina verifier.
use std::panic::{catch_unwind, AssertUnwindSafe};

use plonky2::field::extension::quadratic::QuadraticExtension;
use plonky2::field::goldilocks_field::GoldilocksField as F;
use plonky2::field::types::PrimeField64;
use plonky2::fri::proof::FriProof;
use plonky2::fri::reduction_strategies::FriReductionStrategy;
use plonky2::fri::{FriConfig, FriParams};
use plonky2::gates::arithmetic_base::ArithmeticGate;
use plonky2::gates::arithmetic_extension::ArithmeticExtensionGate;
use plonky2::gates::base_sum::BaseSumGate;
use plonky2::gates::constant::ConstantGate;
use plonky2::gates::coset_interpolation::CosetInterpolationGate;
use plonky2::gates::exponentiation::ExponentiationGate;
use plonky2::gates::lookup::LookupGate;
use plonky2::gates::lookup_table::LookupTableGate;
use plonky2::gates::multiplication_extension::MulExtensionGate;
use plonky2::gates::noop::NoopGate;
use plonky2::gates::poseidon::PoseidonGate;
use plonky2::gates::poseidon_mds::PoseidonMdsGate;
use plonky2::gates::public_input::PublicInputGate;
use plonky2::gates::random_access::RandomAccessGate;
use plonky2::gates::reducing::ReducingGate;
use plonky2::gates::reducing_extension::ReducingExtensionGate;
use plonky2::hash::hash_types::HashOut;
use plonky2::hash::merkle_proofs::MerkleProof;
use plonky2::hash::merkle_tree::MerkleCap;
use plonky2::hash::poseidon::PoseidonHash;
use plonky2::plonk::circuit_builder::CircuitBuilder;
use plonky2::plonk::circuit_data::{CircuitConfig, CircuitData, CommonCircuitData, VerifierOnlyCircuitData};
use plonky2::plonk::config::PoseidonGoldilocksConfig;
use plonky2::plonk::proof::{OpeningSet, ProofWithPublicInputs};

use crate::dsl::{self, Program, D};
use crate::rng::Rng;

pub type C = PoseidonGoldilocksConfig;
pub type H = PoseidonHash;
pub type FE = QuadraticExtension<F>;
pub type Data = CircuitData<F, C, D>;
pub type Pwpi = ProofWithPublicInputs<F, C, D>;

pub fn fri_config(rate_bits: usize, cap_height: usize, pow: u32, strat: FriReductionStrategy, queries: usize) -> FriConfig {
    FriConfig { rate_bits, cap_height, proof_of_work_bits: pow, reduction_strategy: strat, num_query_rounds: queries }
}

/// A named family of admissible configurations (small query counts keep model runs cheap).
pub fn configs() -> Vec<(&'static str, CircuitConfig)> {
    let std = CircuitConfig::standard_recursion_config();
    let mk = |num_challenges: usize, zk: bool, fri: FriConfig| {
        let sec = (fri.num_query_rounds * fri.rate_bits + fri.proof_of_work_bits as usize).min(100);
        CircuitConfig { num_challenges, zero_knowledge: zk, security_bits: sec, fri_config: fri, ..std.clone() }
    };
    vec![
        ("std_small", mk(2, false, fri_config(3, 4, 3, FriReductionStrategy::ConstantArityBits(4, 5), 5))),
        ("arity1_cap0", mk(2, false, fri_config(3, 0, 2, FriReductionStrategy::ConstantArityBits(1, 2), 5))),
        ("arity2_cap1_c3", mk(3, false, fri_config(4, 1, 1, FriReductionStrategy::ConstantArityBits(2, 1), 4))),
        ("fixed_12", mk(1, false, fri_config(3, 2, 4, FriReductionStrategy::Fixed(vec![1, 2]), 6))),
        ("minsize", mk(2, false, fri_config(3, 3, 2, FriReductionStrategy::MinSize(None), 5))),
        ("minsize3_rate5", mk(2, false, fri_config(5, 2, 0, FriReductionStrategy::MinSize(Some(3)), 4))),
        ("zk", mk(2, true, fri_config(3, 2, 2, FriReductionStrategy::ConstantArityBits(3, 2), 5))),
        ("zk_arity1", mk(1, true, fri_config(3, 0, 1, FriReductionStrategy::ConstantArityBits(1, 3), 5))),
        ("standard", std.clone()),
    ]
}

/// Wide rows (234 wires) and rows with fewer routed wires than the standard 80.
pub fn wide_config() -> CircuitConfig {
    let fri = fri_config(3, 1, 2, FriReductionStrategy::ConstantArityBits(2, 2), 5);
    CircuitConfig { num_wires: 234, num_routed_wires: 100, num_challenges: 2, security_bits: 17, fri_config: fri,
                    ..CircuitConfig::standard_recursion_config() }
}
pub fn narrow_config() -> CircuitConfig {
    let fri = fri_config(3, 1, 2, FriReductionStrategy::ConstantArityBits(2, 2), 5);
    CircuitConfig { num_wires: 135, num_routed_wires: 66, num_constants: 3, num_challenges: 2, security_bits: 17,
                    fri_config: fri, ..CircuitConfig::standard_recursion_config() }
}

pub struct Built {
    pub data: Data,
    pub proof: Pwpi,
    pub expected_pis: Vec<u64>,
}

/// Build the circuit of `p`, prove it with its satisfying inputs. Err(msg) when anything panics or fails.
pub fn build_and_prove(p: &Program, cfg: &CircuitConfig) -> Result<Built, String> {
    let (_, pubs) = dsl::eval_native(p).ok_or("program not satisfiable natively")?;
    let r = catch_unwind(AssertUnwindSafe(|| {
        let mut b = CircuitBuilder::<F, D>::new(cfg.clone());
        let ins = dsl::build(p, &mut b);
        let data = b.build::<C>();
        let pw = dsl::witness(p, &ins);
        let proof = data.prove(pw);
        (data, proof)
    }));
    match r {
        Err(_) => Err("panic while building or proving".into()),
        Ok((_, Err(e))) => Err(format!("prove failed: {e}")),
        Ok((data, Ok(proof))) => Ok(Built { data, proof, expected_pis: pubs }),
    }
}

pub fn gen_program(r: &mut Rng, size: usize, kinds: u32) -> Program {
    dsl::generate(r, size, kinds)
}

// ------------------------------------------------------------------ flat dumps
pub fn ext(o: &mut Vec<u64>, x: &FE) {
    o.push(x.0[0].to_canonical_u64());
    o.push(x.0[1].to_canonical_u64());
}
pub fn exts(o: &mut Vec<u64>, xs: &[FE]) {
    o.push(xs.len() as u64);
    for x in xs { ext(o, x) }
}
pub fn fes(o: &mut Vec<u64>, xs: &[F]) {
    o.push(xs.len() as u64);
    for x in xs { o.push(x.to_canonical_u64()) }
}
pub fn hash(o: &mut Vec<u64>, h: &HashOut<F>) {
    for e in h.elements { o.push(e.to_canonical_u64()) }
}
pub fn cap(o: &mut Vec<u64>, c: &MerkleCap<F, H>) {
    o.push(c.0.len() as u64);
    for h in &c.0 { hash(o, h) }
}
pub fn mproof(o: &mut Vec<u64>, p: &MerkleProof<F, H>) {
    o.push(p.siblings.len() as u64);
    for h in &p.siblings { hash(o, h) }
}

pub fn dump_fri_config(o: &mut Vec<u64>, c: &FriConfig) {
    o.extend([c.rate_bits as u64, c.cap_height as u64, c.proof_of_work_bits as u64]);
    match &c.reduction_strategy {
        FriReductionStrategy::Fixed(v) => { o.push(0); o.push(v.len() as u64); o.extend(v.iter().map(|x| *x as u64)) }
        FriReductionStrategy::ConstantArityBits(a, b) => o.extend([1, *a as u64, *b as u64]),
        FriReductionStrategy::MinSize(m) => o.extend([2, m.map(|x| x as u64 + 1).unwrap_or(0)]),
    }
    o.push(c.num_query_rounds as u64);
}
pub fn dump_fri_params(o: &mut Vec<u64>, p: &FriParams) {
    dump_fri_config(o, &p.config);
    o.push(p.hiding as u64);
    o.push(p.degree_bits as u64);
    o.push(p.reduction_arity_bits.len() as u64);
    o.extend(p.reduction_arity_bits.iter().map(|x| *x as u64));
}

/// gate code + parameters (codes shared with Model/Gates.v through Model/PlonkParse.v)
pub fn dump_gate(o: &mut Vec<u64>, g: &plonky2::gates::gate::GateRef<F, D>) -> Result<(), String> {
    let a = g.0.as_any();
    if let Some(x) = a.downcast_ref::<ArithmeticGate>() { o.extend([1, x.num_ops as u64]); }
    else if let Some(x) = a.downcast_ref::<ArithmeticExtensionGate<D>>() { o.extend([2, x.num_ops as u64]); }
    else if let Some(x) = a.downcast_ref::<MulExtensionGate<D>>() { o.extend([3, x.num_ops as u64]); }
    else if let Some(x) = a.downcast_ref::<BaseSumGate<2>>() { o.extend([4, 2, x.num_limbs as u64]); }
    else if let Some(x) = a.downcast_ref::<BaseSumGate<4>>() { o.extend([4, 4, x.num_limbs as u64]); }
    else if let Some(x) = a.downcast_ref::<ConstantGate>() { o.extend([5, plonky2::gates::gate::Gate::<F, D>::num_constants(x) as u64]); }
    else if let Some(x) = a.downcast_ref::<CosetInterpolationGate<F, D>>() {
        o.extend([6, x.subgroup_bits as u64, x.degree as u64]);
    }
    else if let Some(x) = a.downcast_ref::<ExponentiationGate<F, D>>() { o.extend([7, x.num_power_bits as u64]); }
    else if a.downcast_ref::<PoseidonGate<F, D>>().is_some() { o.push(8); }
    else if a.downcast_ref::<PoseidonMdsGate<F, D>>().is_some() { o.push(9); }
    else if a.downcast_ref::<PublicInputGate>().is_some() { o.push(10); }
    else if let Some(x) = a.downcast_ref::<RandomAccessGate<F, D>>() {
        o.extend([11, x.bits as u64, x.num_copies as u64, x.num_extra_constants as u64]);
    }
    else if let Some(x) = a.downcast_ref::<ReducingGate<D>>() { o.extend([12, x.num_coeffs as u64]); }
    else if let Some(x) = a.downcast_ref::<ReducingExtensionGate<D>>() { o.extend([13, x.num_coeffs as u64]); }
    else if a.downcast_ref::<NoopGate>().is_some() { o.push(14); }
    else if let Some(x) = a.downcast_ref::<LookupGate>() { o.extend([15, x.num_slots as u64]); }
    else if let Some(x) = a.downcast_ref::<LookupTableGate>() { o.extend([16, x.num_slots as u64]); }
    else { return Err(format!("gate not in the model: {}", g.0.id())); }
    Ok(())
}

pub fn dump_common(o: &mut Vec<u64>, cd: &CommonCircuitData<F, D>) -> Result<(), String> {
    let c = &cd.config;
    o.extend([c.num_wires as u64, c.num_routed_wires as u64, c.num_constants as u64, c.use_base_arithmetic_gate as u64,
              c.security_bits as u64, c.num_challenges as u64, c.zero_knowledge as u64, c.max_quotient_degree_factor as u64]);
    dump_fri_config(o, &c.fri_config);
    dump_fri_params(o, &cd.fri_params);
    o.push(cd.gates.len() as u64);
    for g in &cd.gates { dump_gate(o, g)?; }
    let (sel_idx, groups) = plonky2::plonk::verif_hooks::selectors_info_parts(&cd.selectors_info);
    o.push(sel_idx.len() as u64);
    o.extend(sel_idx.iter().map(|x| *x as u64));
    o.push(groups.len() as u64);
    for (a, b) in groups { o.extend([a as u64, b as u64]); }
    o.extend([cd.quotient_degree_factor as u64, cd.num_gate_constraints as u64, cd.num_constants as u64,
              cd.num_public_inputs as u64]);
    fes(o, &cd.k_is);
    o.extend([cd.num_partial_products as u64, cd.num_lookup_polys as u64, cd.num_lookup_selectors as u64]);
    o.push(cd.luts.len() as u64);
    for l in &cd.luts {
        o.push(l.len() as u64);
        for (a, b) in l.iter() { o.extend([*a as u64, *b as u64]); }
    }
    Ok(())
}

pub fn dump_verifier_only(o: &mut Vec<u64>, v: &VerifierOnlyCircuitData<C, D>) {
    cap(o, &v.constants_sigmas_cap);
    hash(o, &v.circuit_digest);
}

pub fn dump_openings(o: &mut Vec<u64>, s: &OpeningSet<F, D>) {
    exts(o, &s.constants); exts(o, &s.plonk_sigmas); exts(o, &s.wires); exts(o, &s.plonk_zs);
    exts(o, &s.plonk_zs_next); exts(o, &s.partial_products); exts(o, &s.quotient_polys);
    exts(o, &s.lookup_zs); exts(o, &s.lookup_zs_next);
}

pub fn dump_fri_proof(o: &mut Vec<u64>, p: &FriProof<F, H, D>) {
    o.push(p.commit_phase_merkle_caps.len() as u64);
    for c in &p.commit_phase_merkle_caps { cap(o, c) }
    o.push(p.query_round_proofs.len() as u64);
    for q in &p.query_round_proofs {
        o.push(q.initial_trees_proof.evals_proofs.len() as u64);
        for (evals, mp) in &q.initial_trees_proof.evals_proofs { fes(o, evals); mproof(o, mp); }
        o.push(q.steps.len() as u64);
        for s in &q.steps { exts(o, &s.evals); mproof(o, &s.merkle_proof); }
    }
    exts(o, &p.final_poly.coeffs);
    o.push(p.pow_witness.to_canonical_u64());
}

pub fn dump_proof(o: &mut Vec<u64>, p: &Pwpi) {
    cap(o, &p.proof.wires_cap);
    cap(o, &p.proof.plonk_zs_partial_products_cap);
    cap(o, &p.proof.quotient_polys_cap);
    dump_openings(o, &p.proof.openings);
    dump_fri_proof(o, &p.proof.opening_proof);
    fes(o, &p.public_inputs);
}

pub fn line(op: &str, args: &[u64], res: &str) -> String {
    let a = args.iter().map(|x| x.to_string()).collect::<Vec<_>>().join(" ");
    format!("{} {} = {}", op, a, res)
}

/// verdict of `CircuitData::verify` with panics caught: "ok", "err", "panic"
pub fn verdict(data: &Data, p: Pwpi) -> &'static str {
    match catch_unwind(AssertUnwindSafe(|| data.verify(p))) {
        Ok(Ok(())) => "ok",
        Ok(Err(_)) => "err",
        Err(_) => "panic",
    }
}
