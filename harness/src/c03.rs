//! C03: accepted proofs are bound to each of their elements and to their circuit.
//! Generic single-element sweep through the serde tree of the proof (every number leaf gets
//! replaced; every array is emptied / shortened / has its last element duplicated), plain and
//! compressed, plus cross-circuit presentation.
//! Lines: `c03 <form> <base> <kind> <path...> = ok|err|dec|panic@..` ; anything but err/dec on a
//! changed proof violates the property. (`dec` = the altered tree no longer deserialises.)
use std::io::Write;
use std::panic::{catch_unwind, AssertUnwindSafe};

use plonky2::field::goldilocks_field::GoldilocksField as F;
use plonky2::plonk::proof::{CompressedProofWithPublicInputs, ProofWithPublicInputs};
use serde_json::Value;

use crate::corpus::*;
use crate::dsl::{self, D};
use crate::rng::*;

fn leaves(v: &Value, path: &mut Vec<String>, out: &mut Vec<Vec<String>>, arrays: &mut Vec<Vec<String>>) {
    match v {
        Value::Number(_) => out.push(path.clone()),
        Value::Array(a) => {
            arrays.push(path.clone());
            for (i, x) in a.iter().enumerate() {
                path.push(i.to_string());
                leaves(x, path, out, arrays);
                path.pop();
            }
        }
        Value::Object(m) => {
            for (k, x) in m.iter() {
                path.push(k.clone());
                leaves(x, path, out, arrays);
                path.pop();
            }
        }
        _ => {}
    }
}

fn at<'a>(v: &'a mut Value, path: &[String]) -> &'a mut Value {
    let mut cur = v;
    for p in path {
        cur = match cur {
            Value::Array(a) => &mut a[p.parse::<usize>().unwrap()],
            Value::Object(m) => m.get_mut(p).unwrap(),
            _ => unreachable!(),
        };
    }
    cur
}

fn verdict_plain(data: &Data, v: Value, orig: &Pwpi) -> String {
    match serde_json::from_value::<ProofWithPublicInputs<F, C, D>>(v) {
        Err(_) => "dec".into(),
        Ok(p) => {
            let _ = orig;
            match catch_unwind(AssertUnwindSafe(|| data.verify(p))) {
                Ok(Ok(())) => "ok".into(),
                Ok(Err(_)) => "err".into(),
                Err(_) => panic_site(),
            }
        }
    }
}

fn verdict_comp(data: &Data, v: Value, orig: &CompressedProofWithPublicInputs<F, C, D>) -> String {
    match serde_json::from_value::<CompressedProofWithPublicInputs<F, C, D>>(v) {
        Err(_) => "dec".into(),
        Ok(p) => {
            let _ = orig;
            match catch_unwind(AssertUnwindSafe(|| data.verify_compressed(p))) {
                Ok(Ok(())) => "ok".into(),
                Ok(Err(_)) => "err".into(),
                Err(_) => panic_site(),
            }
        }
    }
}

fn sweep(w: &mut dyn Write, r: &mut Rng, form: usize, bi: usize, root: &Value, stride: usize,
         verdict: &dyn Fn(Value) -> String) -> usize {
    let mut ls = vec![]; let mut arrs = vec![];
    leaves(root, &mut vec![], &mut ls, &mut arrs);
    let mut n = 0;
    let off = r.below(stride as u64) as usize;
    for (li, path) in ls.iter().enumerate() {
        // the compressed proof's index list is redundant: never read, recomputed
        if form == 1 && path.iter().any(|p| p == "indices") { continue; }
        if stride > 1 && li % stride != off && li >= 40 { continue; }
        let mut cur = root.clone();
        let old = at(&mut cur, path).as_u64().unwrap_or(0);
        let reps = [if old % P == P - 1 { 0 } else { old + 1 }, if old == 0 { 1 } else { 0 }, r.next_u64() % P];
        for (k, rep) in reps.iter().enumerate() {
            if *rep % P == old % P { continue; }
            let mut t = root.clone();
            *at(&mut t, path) = Value::from(*rep);
            writeln!(w, "c03 {form} {bi} v{k} {} = {}", path.join("/"), verdict(t)).unwrap();
            n += 1;
        }
    }
    for path in arrs.iter() {
        if form == 1 && path.iter().any(|p| p == "indices") { continue; }
        let len = at(&mut root.clone(), path).as_array().unwrap().len();
        if len == 0 { continue; }
        for kind in ["drop", "empty", "dup"] {
            let mut t = root.clone();
            let a = at(&mut t, path).as_array_mut().unwrap();
            match kind {
                "drop" => { a.pop(); }
                "empty" => a.clear(),
                _ => { let l = a.last().cloned().unwrap(); a.push(l) }
            }
            writeln!(w, "c03 {form} {bi} {kind} {} = {}", path.join("/"), verdict(t)).unwrap();
            n += 1;
        }
    }
    n
}

pub fn run(seed: u64, tier: &str, w: &mut dyn Write) -> usize {
    let mut r = Rng::new(seed ^ 0xC03);
    let cfgs = configs();
    let mut n = 0;
    let bases: Vec<(usize, u32, usize)> = if tier == "thorough" {
        vec![(0, 7, 1), (3, 31, 1), (6, 3, 1), (1, 15, 1), (2, 17, 1)]
    } else {
        vec![(0, 7, 9), (3, 31, 23)]
    };
    let mut built = vec![];
    // an extra base with MANY queries on a small circuit (repeated query indices guaranteed); config index usize::MAX
    let mut bases = bases;
    bases.push((usize::MAX, 3, 61));
    let many = {
        let fri = fri_config(3, 1, 1, plonky2::fri::reduction_strategies::FriReductionStrategy::ConstantArityBits(2, 2), 40);
        plonky2::plonk::circuit_data::CircuitConfig { security_bits: 100, fri_config: fri, ..plonky2::plonk::circuit_data::CircuitConfig::standard_recursion_config() }
    };
    for (bi, (ci, kinds, stride)) in bases.iter().enumerate() {
        let p = gen_program(&mut r, if *ci == usize::MAX { 8 } else { 10 + 5 * bi }, *kinds);
        let b = match build_and_prove(&p, if *ci == usize::MAX { &many } else { &cfgs[*ci].1 }) { Ok(b) => b, Err(_) => continue };
        let root = serde_json::to_value(&b.proof).unwrap();
        writeln!(w, "c03 0 {bi} base - = {}", verdict(&b.data, b.proof.clone())).unwrap();
        n += 1 + sweep(w, &mut r, 0, bi, &root, *stride, &|v| verdict_plain(&b.data, v, &b.proof));
        // query rounds that repeat the index of an EARLIER round carry their own copy of every opening: each copy
        // has to be authenticated. One value per opening class of the later copy (and of the first copy) is altered.
        if let Ok(chs) = catch_unwind(AssertUnwindSafe(|| b.proof.get_challenges(b.proof.get_public_inputs_hash(), &b.data.verifier_only.circuit_digest, &b.data.common))) {
            if let Ok(chs) = chs {
                let idx = &chs.fri_challenges.fri_query_indices;
                let mut pairs: Vec<(usize, usize)> = vec![];
                for j in 0..idx.len() { if let Some(i) = (0..j).find(|&i| idx[i] == idx[j]) { pairs.push((i, j)); } }
                let total = pairs.len();
                for (i, j) in pairs.into_iter().take(if tier == "thorough" { 6 } else { 2 }) {
                    for (tag, round) in [("first", i), ("repeat", j)] {
                        let nor = b.proof.proof.opening_proof.query_round_proofs[round].initial_trees_proof.evals_proofs.len();
                        for oi in 0..nor {
                            let mut edits: Vec<(String, Value)> = vec![];
                            let pre = format!("/proof/opening_proof/query_round_proofs/{round}/initial_trees_proof/evals_proofs/{oi}");
                            edits.push((format!("{pre}/0/0"), Value::Null));
                            edits.push((format!("{pre}/1/siblings/0/elements/1"), Value::Null));
                            for (ptr, _) in edits {
                                let mut t = root.clone();
                                let Some(cur) = t.pointer_mut(&ptr) else { continue };
                                let old = cur.as_u64().unwrap_or(0);
                                *cur = Value::from(if old % P == P - 1 { 0 } else { old % P + 1 });
                                writeln!(w, "c03 0 {bi} v0 repeated-index-{tag}-copy{} = {}", ptr.replace(&format!("/{round}/"), "/N/"), verdict_plain(&b.data, t, &b.proof)).unwrap();
                                n += 1;
                            }
                        }
                        let ns = b.proof.proof.opening_proof.query_round_proofs[round].steps.len();
                        for si in 0..ns {
                            for ptr in [format!("/proof/opening_proof/query_round_proofs/{round}/steps/{si}/evals/0/0"),
                                        format!("/proof/opening_proof/query_round_proofs/{round}/steps/{si}/merkle_proof/siblings/0/elements/2")] {
                                let mut t = root.clone();
                                let Some(cur) = t.pointer_mut(&ptr) else { continue };
                                let old = cur.as_u64().unwrap_or(0);
                                *cur = Value::from(if old % P == P - 1 { 0 } else { old % P + 1 });
                                writeln!(w, "c03 0 {bi} v0 repeated-index-{tag}-copy{} = {}", ptr.replace(&format!("/{round}/"), "/N/"), verdict_plain(&b.data, t, &b.proof)).unwrap();
                                n += 1;
                            }
                        }
                    }
                }
                writeln!(w, "c03info {bi} repeated query indices: {total} of {} rounds repeat an earlier index", idx.len()).unwrap();
            }
        }
        if let Ok(Ok(comp)) = catch_unwind(AssertUnwindSafe(|| b.data.compress(b.proof.clone()))) {
            let croot = serde_json::to_value(&comp).unwrap();
            let base = match catch_unwind(AssertUnwindSafe(|| b.data.verify_compressed(comp.clone()))) {
                Ok(Ok(())) => "ok".to_string(), Ok(Err(_)) => "err".into(), Err(_) => panic_site() };
            writeln!(w, "c03 1 {bi} base - = {base}").unwrap();
            n += 1 + sweep(w, &mut r, 1, bi, &croot, *stride, &|v| verdict_comp(&b.data, v, &comp));
            // the redundant index list may be anything
            let mut t = croot.clone();
            if let Some(ix) = t.pointer_mut("/proof/opening_proof/query_round_proofs/indices") { *ix = Value::Array(vec![]); }
            writeln!(w, "c03 1 {bi} indices-ignored - = {}", verdict_comp(&b.data, t, &comp)).unwrap();
            n += 1;
        }
        // model comparison: tampered proofs replayed by the Gallina verifier (Model/Plonk.v)
        if b.data.common.fri_params.degree_bits <= 7 {
            let mut ls = vec![]; let mut arrs = vec![];
            leaves(&root, &mut vec![], &mut ls, &mut arrs);
            let nm = if tier == "thorough" { 120 } else { 25 };
            let mut o0 = vec![];
            if dump_common(&mut o0, &b.data.common).is_ok() {
                dump_verifier_only(&mut o0, &b.data.verifier_only);
                for k in 0..nm {
                    let mut t = root.clone();
                    let path = if k % 5 == 0 { ls[(k / 5) % ls.len()].clone() } else { r.pick(&ls).clone() };
                    let cur = at(&mut t, &path);
                    let old = cur.as_u64().unwrap_or(0);
                    *cur = Value::from(if k % 3 == 0 { r.next_u64() % P } else if old % P == P - 1 { 0 } else { old + 1 });
                    if let Ok(q) = serde_json::from_value::<ProofWithPublicInputs<F, C, D>>(t) {
                        let v = verdict(&b.data, q.clone());
                        if v == "panic" { continue; }
                        let mut o = o0.clone();
                        dump_proof(&mut o, &q);
                        writeln!(w, "{}", line("plonkverify", &o, if v == "ok" { "1" } else { "0" })).unwrap();
                        n += 1;
                    }
                }
                // list-shape tampers too
                for k in 0..(nm / 5) {
                    let mut t = root.clone();
                    let path = r.pick(&arrs).clone();
                    let a = at(&mut t, &path).as_array_mut().unwrap();
                    if a.is_empty() { continue; }
                    if k % 2 == 0 { a.pop(); } else { let l = a.last().cloned().unwrap(); a.push(l); }
                    if let Ok(q) = serde_json::from_value::<ProofWithPublicInputs<F, C, D>>(t) {
                        let v = verdict(&b.data, q.clone());
                        if v == "panic" { continue; }
                        let mut o = o0.clone();
                        dump_proof(&mut o, &q);
                        writeln!(w, "{}", line("plonkverify", &o, if v == "ok" { "1" } else { "0" })).unwrap();
                        n += 1;
                    }
                }
            }
        }
        built.push((p, b));
    }
    // Keccak configuration
    for (k, ci) in [3usize, 0].iter().enumerate() {
        n += crate::kcfg::c03_keccak(&mut r, tier, w, &cfgs[*ci].1, k);
        if tier != "thorough" { break; }
    }
    // other circuits: same program with one constant changed (same shape, different constants /
    // digest), and entirely different programs
    for (bi, (p, b)) in built.iter().enumerate() {
        let mut q = p.clone();
        let mut changed = false;
        for op in q.ops.iter_mut() {
            if let dsl::Op::Const(c) = op { *c = (*c + 1) % P; changed = true; break; }
        }
        if !changed { q.ops.insert(q.ops.len() - 2, dsl::Op::Const(77)); }
        for (tag, prog) in [("const-changed", q), ("other-program", gen_program(&mut r, 14, 7))] {
            if let Ok(other) = build_and_prove(&prog, &b.data.common.config) {
                let same_digest = other.data.verifier_only.circuit_digest == b.data.verifier_only.circuit_digest;
                let o = if same_digest { "same".to_string() } else { verdict(&other.data, b.proof.clone()).to_string() };
                writeln!(w, "c03 2 {bi} other-circuit {tag} = {o}").unwrap();
                n += 1;
            }
        }
    }
    n
}

pub fn leaves_pub(v: &Value, path: &mut Vec<String>, out: &mut Vec<Vec<String>>, arrays: &mut Vec<Vec<String>>) {
    leaves(v, path, out, arrays)
}
pub fn at_pub<'a>(v: &'a mut Value, path: &[String]) -> &'a mut Value {
    at(v, path)
}
