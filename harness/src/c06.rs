//! C06: the in-circuit verifier accepts exactly what the native verifier accepts.
//! For every inner circuit of the corpus an outer circuit is built once with
//! `builder.verify_proof::<C>(&pt, &vdt, &inner_common)`; the inner public inputs and the inner
//! verifier data are registered as outer public inputs. For the valid inner proof and for every
//! tampered (proof, verifier data) pair the witness is set with `set_proof_with_pis_target` /
//! `set_verifier_data_target`, and
//!   native  = `VerifierCircuitData{vd, common}.verify(p)`
//!   outer   = set-witness ok AND witness generation ok AND outer prove ok AND outer verify ok AND
//!             outer public inputs = inner public inputs ++ verifier data
//! are compared. Lines:
//!   c06 <inner> <case> = <1|0> # exp=<1|0|?> native=<ok|err:..|panic> outer=<ok|stage:detail> [unsat=..]
//! The result is 1 iff (native ok <=> outer ok). `exp` is the verdict expected by construction
//! (`?` = decided by the native verifier, e.g. an alternative PoW witness).
use std::io::Write;
use std::panic::{catch_unwind, AssertUnwindSafe};

use plonky2::field::extension::FieldExtension;
use plonky2::field::goldilocks_field::GoldilocksField as F;
use plonky2::field::types::Field;
use plonky2::hash::hash_types::HashOut;
use plonky2::iop::generator::generate_partial_witness;
use plonky2::iop::witness::{PartialWitness, PartitionWitness, Witness, WitnessWrite};
use plonky2::plonk::circuit_builder::CircuitBuilder;
use plonky2::plonk::circuit_data::{CircuitConfig, CommonCircuitData, VerifierCircuitData, VerifierCircuitTarget, VerifierOnlyCircuitData};
use plonky2::plonk::config::{GenericConfig, Hasher};
use plonky2::plonk::proof::ProofWithPublicInputsTarget;
use plonky2::plonk::prover::prove_with_partition_witness;
use plonky2::plonk::vars::EvaluationVars;
use plonky2::util::timing::TimingTree;

use crate::corpus::*;
use crate::dsl::{self, D};
use crate::rng::*;

pub type Vd = VerifierOnlyCircuitData<C, D>;

pub struct Outer {
    pub data: Data,
    pub pt: ProofWithPublicInputsTarget<D>,
    pub vdt: VerifierCircuitTarget,
}

/// Build the outer circuit verifying one proof of a circuit with `inner_common`.
pub fn build_outer(inner_common: &CommonCircuitData<F, D>, outer_cfg: &CircuitConfig) -> Result<Outer, String> {
    let r = catch_unwind(AssertUnwindSafe(|| {
        let mut b = CircuitBuilder::<F, D>::new(outer_cfg.clone());
        let pt = b.add_virtual_proof_with_pis(inner_common);
        let vdt = b.add_virtual_verifier_data(inner_common.config.fri_config.cap_height);
        b.verify_proof::<C>(&pt, &vdt, inner_common);
        b.register_public_inputs(&pt.public_inputs);
        b.register_public_inputs(&vdt.circuit_digest.elements);
        for h in &vdt.constants_sigmas_cap.0 {
            b.register_public_inputs(&h.elements);
        }
        let data = b.build::<C>();
        Outer { data, pt, vdt }
    }));
    r.map_err(|_| format!("outer build panicked: {}", panic_site()))
}

/// The public inputs the outer proof has to carry for (p, vd).
pub fn expected_outer_pis(p: &Pwpi, vd: &Vd) -> Vec<F> {
    let mut v = p.public_inputs.clone();
    v.extend(vd.circuit_digest.elements);
    for h in &vd.constants_sigmas_cap.0 {
        v.extend(h.elements);
    }
    v
}

/// `panic_site()` with the cargo registry prefix of dependency paths removed
pub fn site() -> String {
    let s = panic_site();
    match s.find("/registry/src/") {
        Some(i) => { let rest = &s[i + 14..]; format!("panic@{}", rest.split_once('/').map(|x| x.1).unwrap_or(rest)) }
        None => s,
    }
}

fn short(msg: &str) -> String {
    let s: String = msg.chars().take(70).map(|c| if c.is_ascii_alphanumeric() { c } else { '_' }).collect();
    s.split('_').filter(|w| !w.is_empty()).collect::<Vec<_>>().join("_")
}

/// First row whose gate constraints are violated by the generated witness: (row, gate id).
/// Uses the `verif_hooks` re-export of `evaluate_gate_constraints`.
pub fn first_unsat_row(data: &Data, w: &PartitionWitness<F>) -> Option<(usize, String)> {
    let common = &data.common;
    let n = common.degree();
    let nconst = common.num_constants;
    let consts: Vec<Vec<F>> = data.prover_only.constants_sigmas_commitment.polynomials[..nconst]
        .iter().map(|p| p.clone().fft().values).collect();
    let pis: Vec<F> = data.prover_only.public_inputs.iter().map(|t| w.try_get_target(*t).unwrap_or(F::ZERO)).collect();
    let pih = <<C as GenericConfig<D>>::InnerHasher as Hasher<F>>::hash_no_pad(&pis);
    let m = w.clone().full_witness();
    let (sel_idx, _) = plonky2::plonk::verif_hooks::selectors_info_parts(&common.selectors_info);
    for row in 0..n {
        let lc: Vec<FE> = (0..nconst).map(|j| <FE as FieldExtension<D>>::from_basefield(consts[j][row])).collect();
        let lw: Vec<FE> = (0..common.config.num_wires).map(|j| <FE as FieldExtension<D>>::from_basefield(m.get_wire(row, j))).collect();
        let vars = EvaluationVars::<F, D> { local_constants: &lc, local_wires: &lw, public_inputs_hash: &pih };
        let cs = plonky2::plonk::verif_hooks::evaluate_gate_constraints::<F, D>(common, vars);
        if cs.iter().any(|c| *c != FE::ZERO) {
            let gate = (0..common.gates.len())
                .find(|&g| consts[sel_idx[g]][row] == F::from_canonical_usize(g))
                .map(|g| common.gates[g].0.id()).unwrap_or_else(|| "?".into());
            let gate: String = gate.chars().take_while(|c| c.is_ascii_alphanumeric()).collect();
            return Some((row, gate));
        }
    }
    None
}

pub struct OuterOutcome {
    pub ok: bool,
    /// "ok" or "<stage>:<detail>", stage in setw / witgen / prove / verify / pis / unsat
    pub what: String,
    pub unsat: Option<(usize, String)>,
}

/// Run the outer circuit on a witness prepared by `set` (which uses the library's own assignment
/// routines); `expect_pis` are the public inputs an accepted outer proof has to carry.
pub fn run_outer_with(data: &Data, set: &dyn Fn(&mut PartialWitness<F>) -> anyhow::Result<()>, expect_pis: &[F],
                      oracle: bool) -> OuterOutcome {
    let fail = |what: String, unsat| OuterOutcome { ok: false, what, unsat };
    let mut pw = PartialWitness::new();
    match catch_unwind(AssertUnwindSafe(|| set(&mut pw))) {
        Err(_) => return fail(format!("setw:{}", site()), None),
        Ok(Err(e)) => return fail(format!("setw:{}", short(&e.to_string())), None),
        Ok(Ok(())) => {}
    }
    let wit = match catch_unwind(AssertUnwindSafe(|| generate_partial_witness(pw, &data.prover_only, &data.common))) {
        Err(_) => return fail(format!("witgen:{}", site()), None),
        Ok(Err(e)) => return fail(format!("witgen:{}", short(&e.to_string())), None),
        Ok(Ok(w)) => w,
    };
    let unsat = if oracle { catch_unwind(AssertUnwindSafe(|| first_unsat_row(data, &wit))).unwrap_or(None) } else { None };
    let proof = match catch_unwind(AssertUnwindSafe(|| {
        prove_with_partition_witness(&data.prover_only, &data.common, wit, &mut TimingTree::default())
    })) {
        Err(_) => return fail(format!("prove:{}", site()), unsat),
        Ok(Err(e)) => return fail(format!("prove:{}", short(&e.to_string())), unsat),
        Ok(Ok(p)) => p,
    };
    match catch_unwind(AssertUnwindSafe(|| data.verify(proof.clone()))) {
        Err(_) => return fail(format!("verify:{}", site()), unsat),
        Ok(Err(e)) => return fail(format!("verify:{}", short(&e.to_string())), unsat),
        Ok(Ok(())) => {}
    }
    if proof.public_inputs != expect_pis {
        return fail("pis:outer_public_inputs_differ".into(), unsat);
    }
    if unsat.is_some() {
        return fail("unsat:accepted_with_violated_gate_constraint".into(), unsat);
    }
    OuterOutcome { ok: true, what: "ok".into(), unsat }
}

pub fn run_outer(o: &Outer, p: &Pwpi, vd: &Vd, oracle: bool) -> OuterOutcome {
    let exp = expected_outer_pis(p, vd);
    run_outer_with(&o.data, &|pw| {
        pw.set_proof_with_pis_target(&o.pt, p)?;
        pw.set_verifier_data_target(&o.vdt, vd)
    }, &exp, oracle)
}

/// Native verdict for (p, vd) under `common`: "ok", "err:<class>", "panic@.."
pub fn native_verdict(common: &CommonCircuitData<F, D>, vd: &Vd, p: &Pwpi) -> String {
    let v = VerifierCircuitData::<F, C, D> { verifier_only: vd.clone(), common: common.clone() };
    match catch_unwind(AssertUnwindSafe(|| v.verify(p.clone()))) {
        Ok(Ok(())) => "ok".into(),
        Ok(Err(e)) => {
            let m = e.to_string();
            let class = if m.contains("proof of work") { "pow" }
                else if m.contains("Final polynomial") { "final" }
                else if m.contains("vanishing_polys_zeta") { "vanishing" }
                else if m.contains("x_index_within_coset") { "fold" }
                else if m.contains("Merkle") { "merkle" }
                else { "other" };
            if class == "other" { format!("err:{}", short(&m)) } else { format!("err:{class}") }
        }
        Err(_) => panic_site(),
    }
}

pub fn bump(x: &mut F) { *x += F::ONE; }
pub fn bump_ext(x: &mut FE, r: &mut Rng) { x.0[r.below(2) as usize] += F::ONE; }
pub fn bump_hash(h: &mut HashOut<F>, r: &mut Rng) { h.elements[r.below(4) as usize] += F::ONE; }

pub struct Case { pub name: String, pub exp: char, pub p: Pwpi, pub vd: Vd }

/// Tampered variants of an accepted (proof, verifier data). `reps` positions per class.
pub fn tamper_cases(r: &mut Rng, b: &Built, reps: usize) -> Vec<Case> {
    let mut out = vec![];
    let vd = &b.data.verifier_only;
    let mut add = |name: String, exp: char, p: Pwpi, vd: Vd| out.push(Case { name, exp, p, vd });
    let nq = b.proof.proof.opening_proof.query_round_proofs.len();
    for k in 0..reps {
        // opening values: every opening vector in turn
        for (fname, sel) in [("constants", 0), ("plonk_sigmas", 1), ("wires", 2), ("plonk_zs", 3), ("plonk_zs_next", 4),
                             ("partial_products", 5), ("quotient_polys", 6), ("lookup_zs", 7), ("lookup_zs_next", 8)] {
            if k > 0 && sel != (k + 1) % 9 && sel != 2 { continue; }
            let mut p = b.proof.clone();
            let os = &mut p.proof.openings;
            let v = match sel { 0 => &mut os.constants, 1 => &mut os.plonk_sigmas, 2 => &mut os.wires, 3 => &mut os.plonk_zs,
                                4 => &mut os.plonk_zs_next, 5 => &mut os.partial_products, 6 => &mut os.quotient_polys,
                                7 => &mut os.lookup_zs, _ => &mut os.lookup_zs_next };
            if v.is_empty() { continue; }
            let i = r.below(v.len() as u64) as usize;
            bump_ext(&mut v[i], r);
            add(format!("opening-{fname}-{i}"), '0', p, vd.clone());
        }
        // query leaf
        {
            let mut p = b.proof.clone();
            let q = r.below(nq as u64) as usize;
            let ep = &mut p.proof.opening_proof.query_round_proofs[q].initial_trees_proof.evals_proofs;
            let o = r.below(ep.len() as u64) as usize;
            let j = r.below(ep[o].0.len() as u64) as usize;
            bump(&mut ep[o].0[j]);
            add(format!("leaf-q{q}-o{o}-{j}"), '0', p, vd.clone());
        }
        // Merkle sibling of an initial-tree path and of a step path
        {
            let mut p = b.proof.clone();
            let q = r.below(nq as u64) as usize;
            let ep = &mut p.proof.opening_proof.query_round_proofs[q].initial_trees_proof.evals_proofs;
            let o = r.below(ep.len() as u64) as usize;
            if !ep[o].1.siblings.is_empty() {
                let s = r.below(ep[o].1.siblings.len() as u64) as usize;
                bump_hash(&mut ep[o].1.siblings[s], r);
                add(format!("sibling-q{q}-o{o}-{s}"), '0', p, vd.clone());
            }
        }
        {
            let mut p = b.proof.clone();
            let q = r.below(nq as u64) as usize;
            let steps = &mut p.proof.opening_proof.query_round_proofs[q].steps;
            let cands: Vec<usize> = (0..steps.len()).filter(|&s| !steps[s].merkle_proof.siblings.is_empty()).collect();
            if !cands.is_empty() {
                let s = *r.pick(&cands);
                let i = r.below(steps[s].merkle_proof.siblings.len() as u64) as usize;
                bump_hash(&mut steps[s].merkle_proof.siblings[i], r);
                add(format!("stepsibling-q{q}-s{s}-{i}"), '0', p, vd.clone());
            }
        }
        // step evaluation
        {
            let mut p = b.proof.clone();
            let q = r.below(nq as u64) as usize;
            let steps = &mut p.proof.opening_proof.query_round_proofs[q].steps;
            if !steps.is_empty() {
                let s = r.below(steps.len() as u64) as usize;
                let i = r.below(steps[s].evals.len() as u64) as usize;
                bump_ext(&mut steps[s].evals[i], r);
                add(format!("stepeval-q{q}-s{s}-{i}"), '0', p, vd.clone());
            }
        }
        // final polynomial coefficient
        {
            let mut p = b.proof.clone();
            let c = &mut p.proof.opening_proof.final_poly.coeffs;
            let i = r.below(c.len() as u64) as usize;
            bump_ext(&mut c[i], r);
            add(format!("finalpoly-{i}"), '0', p, vd.clone());
        }
        // public-input vector of the wrong length (hash_no_pad does not separate [x] from [x, 0]; the native
        // verifier rejects by shape; the witness assignment must not accept it by truncation / padding)
        {
            let mut p = b.proof.clone(); p.public_inputs.push(F::ZERO); add("publicinput-append0".into(), '0', p, vd.clone());
            let mut p = b.proof.clone(); p.public_inputs.push(F::from_canonical_u64(1 + r.below(1000))); add("publicinput-appendx".into(), '0', p, vd.clone());
            let mut p = b.proof.clone(); if p.public_inputs.pop().is_some() { add("publicinput-droplast".into(), '0', p, vd.clone()); }
        }
        // surplus elements (the native verifier rejects every one by shape; the witness assignment must not accept
        // them by truncation): one more FRI step in a query round, one more opening, openings regrouped between two
        // vectors, caps with surplus entries, one more commit-phase cap, one more Merkle sibling, one more query round
        {
            let nq2 = b.proof.proof.opening_proof.query_round_proofs.len();
            let q = r.below(nq2 as u64) as usize;
            let mut p = b.proof.clone();
            { let st = &mut p.proof.opening_proof.query_round_proofs[q].steps; if let Some(l) = st.last().cloned() { st.push(l); add(format!("surplus-step-q{q}"), '0', p, vd.clone()); } }
            let mut p = b.proof.clone(); p.proof.openings.quotient_polys.push(FE::ZERO); add("surplus-opening-quotient".into(), '0', p, vd.clone());
            let mut p = b.proof.clone(); p.proof.openings.plonk_zs_next.push(FE::ZERO); add("surplus-opening-zsnext".into(), '0', p, vd.clone());
            let mut p = b.proof.clone(); p.proof.openings.constants.push(FE::ZERO); add("surplus-opening-constants0".into(), '0', p, vd.clone());
            let mut p = b.proof.clone();
            if let Some(x) = p.proof.openings.wires.pop() { p.proof.openings.plonk_zs.insert(0, x); add("regrouped-wires-to-zs".into(), '0', p, vd.clone()); }
            let mut p = b.proof.clone();
            if let Some(x) = p.proof.openings.constants.pop() { p.proof.openings.plonk_sigmas.insert(0, x); add("regrouped-constants-to-sigmas".into(), '0', p, vd.clone()); }
            for which in 0..3 {
                let mut p = b.proof.clone();
                let cap = match which { 0 => &mut p.proof.wires_cap, 1 => &mut p.proof.plonk_zs_partial_products_cap, _ => &mut p.proof.quotient_polys_cap };
                let dup = cap.0.clone(); cap.0.extend(dup);
                add(format!("surplus-cap-entries-{}", ["wires", "zs", "quotient"][which]), '0', p, vd.clone());
            }
            let mut p = b.proof.clone();
            { let cs = &mut p.proof.opening_proof.commit_phase_merkle_caps; if let Some(l) = cs.last().cloned() { cs.push(l); add("surplus-commit-cap".into(), '0', p, vd.clone()); } }
            let mut p = b.proof.clone();
            { let ep = &mut p.proof.opening_proof.query_round_proofs[q].initial_trees_proof.evals_proofs;
              let o = r.below(ep.len() as u64) as usize; ep[o].0.push(F::ZERO); add(format!("surplus-leaf-element-q{q}-o{o}"), '0', p, vd.clone()); }
            let mut p = b.proof.clone();
            { let l = p.proof.opening_proof.query_round_proofs[q].clone(); p.proof.opening_proof.query_round_proofs.push(l); add("surplus-query-round".into(), '0', p, vd.clone()); }
            let mut p = b.proof.clone(); p.proof.opening_proof.final_poly.coeffs.push(FE::ZERO); add("surplus-finalpoly-zero".into(), '0', p, vd.clone());
        }
        // public input
        if !b.proof.public_inputs.is_empty() {
            let mut p = b.proof.clone();
            let i = r.below(p.public_inputs.len() as u64) as usize;
            bump(&mut p.public_inputs[i]);
            add(format!("publicinput-{i}"), '0', p, vd.clone());
        }
        // cap entries: the three proof caps, a commit-phase cap
        for which in 0..4 {
            if k > 0 && which != k % 4 { continue; }
            let mut p = b.proof.clone();
            let cap = match which {
                0 => &mut p.proof.wires_cap, 1 => &mut p.proof.plonk_zs_partial_products_cap, 2 => &mut p.proof.quotient_polys_cap,
                _ => { let cs = &mut p.proof.opening_proof.commit_phase_merkle_caps; if cs.is_empty() { continue; }
                       let i = r.below(cs.len() as u64) as usize; &mut cs[i] }
            };
            let i = r.below(cap.0.len() as u64) as usize;
            bump_hash(&mut cap.0[i], r);
            add(format!("cap-{}-{i}", ["wires", "zs", "quotient", "commit"][which]), '0', p, vd.clone());
        }
    }
    // proof-of-work witness: a value failing the grinding check, and (if found) another value
    // passing it (then the query indices differ and later checks fail)
    let pow_bits = b.data.common.config.fri_config.proof_of_work_bits;
    let mut bad = None; let mut regrind = None;
    for d in 1..400u64 {
        let mut p = b.proof.clone();
        p.proof.opening_proof.pow_witness += F::from_canonical_u64(d);
        let nv = native_verdict(&b.data.common, vd, &p);
        if nv == "err:pow" { if bad.is_none() { bad = Some(p); } }
        else if regrind.is_none() { regrind = Some(p); }
        if (bad.is_some() || pow_bits == 0) && regrind.is_some() { break; }
    }
    if let Some(p) = bad { add("pow-badgrinding".into(), '0', p, vd.clone()); }
    if let Some(p) = regrind { add("pow-otherwitness".into(), '?', p, vd.clone()); }
    // verifier data: digest, every cap entry, one cap entry (possibly not opened by any query)
    {
        let mut v = vd.clone(); bump_hash(&mut v.circuit_digest, r);
        add("vd-digest".into(), '0', b.proof.clone(), v);
        let mut v = vd.clone();
        for h in v.constants_sigmas_cap.0.iter_mut() { bump_hash(h, r); }
        add("vd-cap-all".into(), '0', b.proof.clone(), v);
        let mut v = vd.clone();
        let i = r.below(v.constants_sigmas_cap.0.len() as u64) as usize;
        bump_hash(&mut v.constants_sigmas_cap.0[i], r);
        add(format!("vd-cap-one-{i}"), '?', b.proof.clone(), v);
    }
    // shortened vectors: the assignment routine pads these with zeros
    {
        // (when the dropped top coefficient is zero - always so for proofs without FRI reduction
        // steps - the padded assignment is the original accepted proof)
        let mut p = b.proof.clone();
        let top = p.proof.opening_proof.final_poly.coeffs.pop();
        add(format!("short-finalpoly-dropped{}", if top == Some(FE::ZERO) { "zero" } else { "nonzero" }), '0', p, vd.clone());
        let mut p = b.proof.clone();
        if p.proof.opening_proof.commit_phase_merkle_caps.pop().is_some() { add("short-commitcaps".into(), '0', p, vd.clone()); }
        let mut p = b.proof.clone();
        let q = r.below(nq as u64) as usize;
        if p.proof.opening_proof.query_round_proofs[q].initial_trees_proof.evals_proofs[0].1.siblings.pop().is_some() {
            add(format!("short-siblings-q{q}"), '0', p, vd.clone());
        }
        let mut p = b.proof.clone();
        if p.proof.opening_proof.query_round_proofs[q].steps.pop().is_some() { add(format!("short-steps-q{q}"), '0', p, vd.clone()); }
    }
    out
}

/// (name, config, gadget kinds, program size) of the inner corpus.
pub fn inner_corpus(tier: &str) -> Vec<(&'static str, CircuitConfig, u32, usize)> {
    let cfgs = configs();
    let get = |n: &str| cfgs.iter().find(|(m, _)| *m == n).unwrap().1.clone();
    let mut v = vec![
        ("std_small", get("std_small"), 7u32, 14usize),
        ("zk_lookup", get("zk"), 31, 24),
    ];
    if tier == "thorough" {
        v.extend([
            ("arity1_cap0", get("arity1_cap0"), 15, 20),
            ("arity2_cap1_c3_lookup", get("arity2_cap1_c3"), 17, 12),
            ("fixed_12", get("fixed_12"), 3, 40),
            ("zk_arity1", get("zk_arity1"), 7, 10),
            ("narrow_rows", narrow_config(), 31, 20),
            ("wide_rows", wide_config(), 7, 16),
            ("standard", get("standard"), 31, 30),
        ]);
    }
    v
}

/// Same program with one constant changed: same shape, different constants / verifier data.
pub fn sibling_program(p: &dsl::Program) -> dsl::Program {
    let mut q = p.clone();
    for op in q.ops.iter_mut() {
        if let dsl::Op::Const(c) = op { *c = (*c + 1) % P; return q; }
    }
    q.ops.insert(q.ops.len() - 2, dsl::Op::Const(77));
    q
}

pub fn run(seed: u64, tier: &str, w: &mut dyn Write) -> usize {
    let mut r = Rng::new(seed ^ 0xC06);
    let mut n = 0;
    let thorough = tier == "thorough";
    let reps = if thorough { 3 } else { 1 };
    let outer_cfgs: Vec<(&str, CircuitConfig)> = if thorough {
        vec![("", CircuitConfig::standard_recursion_config()), ("@zkouter", CircuitConfig::standard_recursion_zk_config())]
    } else { vec![("", CircuitConfig::standard_recursion_config())] };
    // an outer circuit whose OWN parameters differ from the inner ones in everything the in-circuit verifier must
    // take from the inner circuit (number of challenges, grinding bits, cap height, arity): run for the first inner
    let mut outer_cfgs = outer_cfgs;
    outer_cfgs.push(("@otherouter", CircuitConfig { num_challenges: 3, security_bits: 96,
        fri_config: fri_config(3, 3, 12, plonky2::fri::reduction_strategies::FriReductionStrategy::ConstantArityBits(3, 4), 28),
        ..CircuitConfig::standard_recursion_config() }));
    for (ii, (iname, icfg, kinds, size)) in inner_corpus(tier).into_iter().enumerate() {
        let prog = gen_program(&mut r, size, kinds);
        let b = match build_and_prove(&prog, &icfg) {
            Ok(b) => b,
            Err(e) => { writeln!(w, "c06 {iname} inner-build = 0 # {e}").unwrap(); n += 1; continue; }
        };
        for (oi, (otag, ocfg)) in outer_cfgs.iter().enumerate() {
            if *otag == "@otherouter" { if ii != 0 { continue; } }
            else if oi > 0 && ii != 1 { continue; } // second outer configuration: one inner circuit
            let name = format!("{iname}{otag}");
            let outer = match build_outer(&b.data.common, ocfg) {
                Ok(o) => o,
                Err(e) => { writeln!(w, "c06 {name} outer-build = 0 # {e}").unwrap(); n += 1; continue; }
            };
            let mut cases = vec![Case { name: "valid".into(), exp: '1', p: b.proof.clone(), vd: b.data.verifier_only.clone() }];
            cases.extend(tamper_cases(&mut r, &b, reps));
            // false statements: proofs of other circuits
            let sib = sibling_program(&prog);
            if let Ok(o) = build_and_prove(&sib, &icfg) {
                if o.data.common == b.data.common && o.data.verifier_only != b.data.verifier_only {
                    cases.push(Case { name: "otherproof-thisvd".into(), exp: '0', p: o.proof.clone(), vd: b.data.verifier_only.clone() });
                    cases.push(Case { name: "thisproof-othervd".into(), exp: '0', p: b.proof.clone(), vd: o.data.verifier_only.clone() });
                    cases.push(Case { name: "otherproof-othervd".into(), exp: '1', p: o.proof.clone(), vd: o.data.verifier_only.clone() });
                }
            }
            if let Ok(o) = build_and_prove(&gen_program(&mut r, size + 40, kinds | 8), &icfg) {
                if o.data.common != b.data.common {
                    cases.push(Case { name: "othershape-thisvd".into(), exp: '0', p: o.proof.clone(), vd: b.data.verifier_only.clone() });
                    cases.push(Case { name: "othershape-othervd".into(), exp: '0', p: o.proof.clone(), vd: o.data.verifier_only.clone() });
                }
            }
            for c in cases {
                let nat = native_verdict(&b.data.common, &c.vd, &c.p);
                let out = run_outer(&outer, &c.p, &c.vd, true);
                // an outer proof that was produced AND verified is an acceptance by the in-circuit verifier, also
                // when the public inputs it re-exposes are not the ones handed in (e.g. a silently truncated vector)
                let accepted = out.ok || out.what.starts_with("pis:");
                let agree = (nat == "ok") == accepted;
                let unsat = out.unsat.map(|(row, g)| format!(" unsat=row{row}:{g}")).unwrap_or_default();
                writeln!(w, "c06 {name} {} = {} # exp={} native={} outer={}{} outer_rows={}", c.name, agree as u8, c.exp, nat,
                         out.what, unsat, outer.data.common.degree()).unwrap();
                n += 1;
            }
            w.flush().unwrap();
        }
    }
    n
}
