//! C16: proof compression is lossless and verification-equivalent.
//! Lines: `c16 <base> <case> = <1|0> # detail` (1 = the property held on this case)
use std::collections::HashSet;
use std::io::Write;
use std::panic::{catch_unwind, AssertUnwindSafe};

use plonky2::field::types::Field;
use plonky2::fri::reduction_strategies::FriReductionStrategy;
use plonky2::plonk::circuit_data::CircuitConfig;

use crate::corpus::*;
use crate::rng::Rng;

fn many_queries(cap: usize, strat: FriReductionStrategy, queries: usize, zk: bool, nch: usize) -> CircuitConfig {
    let fri = fri_config(3, cap, 1, strat, queries);
    CircuitConfig { num_challenges: nch, zero_knowledge: zk, security_bits: (queries * 3 + 1).min(100), fri_config: fri,
                    ..CircuitConfig::standard_recursion_config() }
}

fn vclass<T>(f: impl FnOnce() -> anyhow::Result<T>) -> &'static str {
    match catch_unwind(AssertUnwindSafe(f)) { Ok(Ok(_)) => "ok", Ok(Err(_)) => "err", Err(_) => "panic" }
}

pub fn run(seed: u64, tier: &str, w: &mut dyn Write) -> usize {
    let mut r = Rng::new(seed ^ 0xC16);
    let mut n = 0;
    // small degrees with many queries: repeated indices and shared cosets at every layer are the norm
    let mut cfgs = vec![
        many_queries(0, FriReductionStrategy::ConstantArityBits(1, 1), 40, false, 2),
        many_queries(2, FriReductionStrategy::ConstantArityBits(2, 2), 60, false, 1),
        many_queries(4, FriReductionStrategy::ConstantArityBits(4, 5), 28, false, 2),
        many_queries(1, FriReductionStrategy::ConstantArityBits(2, 2), 20, true, 2),
        many_queries(3, FriReductionStrategy::MinSize(None), 35, false, 3),
        many_queries(1, FriReductionStrategy::Fixed(vec![1, 1, 1]), 50, false, 2),
        // the last commit-phase tree is exactly its cap (paths with zero siblings): 2^3..2^5 rows fold down to a
        // codeword of 2^4 entries under a cap of height 4
        many_queries(4, FriReductionStrategy::ConstantArityBits(1, 1), 30, false, 2),
    ];
    if tier == "thorough" {
        cfgs.push(many_queries(0, FriReductionStrategy::ConstantArityBits(2, 1), 30, true, 2));   // (arity_bits <= final bits + 1: fri_params asserts it)
        cfgs.push(many_queries(1, FriReductionStrategy::MinSize(Some(2)), 64, false, 2));
        cfgs.push(many_queries(2, FriReductionStrategy::Fixed(vec![2, 1]), 70, false, 2));      // (a Fixed schedule must not fold below degree 1: not validated by the library)
    }
    let reps = if tier == "thorough" { 4 } else { 1 };
    let only: Option<usize> = std::env::var("VERIF_ONLY").ok().and_then(|x| x.parse().ok());
    for (ci, cfg) in cfgs.iter().enumerate() {
        if only.map_or(false, |o| o != ci) { continue; }
        for rep in 0..reps {
            let kinds = [7u32, 31, 3, 17][(ci + rep) % 4];
            let p = gen_program(&mut r, 8 + 10 * rep, kinds);
            let b = match build_and_prove(&p, cfg) { Ok(b) => b, Err(e) => { writeln!(w, "c16 {ci}.{rep} build = 0 # {e}").unwrap(); n += 1; continue } };
            let base = format!("{ci}.{rep}");
            let comp = match catch_unwind(AssertUnwindSafe(|| b.data.compress(b.proof.clone()))) {
                Ok(Ok(c)) => c,
                _ => { writeln!(w, "c16 {base} compress = 0 # compress failed on an accepted proof").unwrap(); n += 1; continue }
            };
            // index / coset collision statistics of this proof
            let idx = &comp.proof.opening_proof.query_round_proofs.indices;
            let distinct: HashSet<_> = idx.iter().collect();
            let arities = &b.data.common.fri_params.reduction_arity_bits;
            let mut shared = 0;
            let mut cur: Vec<usize> = distinct.iter().map(|x| **x).collect();
            for a in arities { let before = cur.iter().collect::<HashSet<_>>().len(); cur = cur.iter().map(|x| x >> a).collect(); let after = cur.iter().collect::<HashSet<_>>().len(); if after < before { shared += before - after } }
            let stats = format!("queries {} distinct {} coset-merges {} degree_bits {}", idx.len(), distinct.len(), shared, b.data.common.fri_params.degree_bits);
            // (1) lossless
            let dec = catch_unwind(AssertUnwindSafe(|| b.data.decompress(comp.clone())));
            let lossless = matches!(&dec, Ok(Ok(d)) if *d == b.proof);
            writeln!(w, "c16 {base} lossless = {} # {stats}", lossless as u8).unwrap();
            // (2) both verifiers accept
            let v1 = vclass(|| b.data.verify(b.proof.clone()));
            let v2 = vclass(|| b.data.verify_compressed(comp.clone()));
            writeln!(w, "c16 {base} accept-both = {} # plain {v1} compressed {v2}", (v1 == "ok" && v2 == "ok") as u8).unwrap();
            // (3) byte round trip of the compressed form
            let bytes = comp.to_bytes();
            let back = plonky2::plonk::proof::CompressedProofWithPublicInputs::from_bytes(bytes, &b.data.common);
            writeln!(w, "c16 {base} bytes-roundtrip = {}", matches!(&back, Ok(c2) if *c2 == comp) as u8).unwrap();
            n += 3;
            // (3b) correspondence with Model/Dedup.v: per query (index, fingerprint of its data);
            //      the result of the real compress+decompress, also on an inconsistent proof where a
            //      repeated index carries altered data (first occurrence must win)
            for variant in 0..2 {
                let mut q = b.proof.clone();
                if variant == 1 {
                    // alter the data of the LAST query of a repeated index, if any
                    let mut seen = std::collections::HashMap::new();
                    let mut target = None;
                    for (i, x) in idx.iter().enumerate() { if seen.contains_key(x) { target = Some(i) } else { seen.insert(*x, i); } }
                    match target { Some(i) => { q.proof.opening_proof.query_round_proofs[i].initial_trees_proof.evals_proofs[1].0[0] += crate::dsl_f_one(); }
                                   None => continue }
                }
                let fp = |p: &Pwpi| -> Vec<u64> { p.proof.opening_proof.query_round_proofs.iter()
                    .map(|r| plonky2::field::types::PrimeField64::to_canonical_u64(&r.initial_trees_proof.evals_proofs[1].0[0])).collect() };
                let before = fp(&q);
                // indices are a function of the transcript, which does not include query data
                let back = catch_unwind(AssertUnwindSafe(|| b.data.compress(q.clone()).and_then(|c| b.data.decompress(c))));
                if let Ok(Ok(d)) = back {
                    let after = fp(&d);
                    let mut args = vec![idx.len() as u64];
                    for (i, v) in idx.iter().zip(before.iter()) { args.push(*i as u64); args.push(*v); }
                    writeln!(w, "{}", line("dedup", &args, &after.iter().map(|x| x.to_string()).collect::<Vec<_>>().join(" "))).unwrap();
                    n += 1;
                }
            }
            // (4) equivalence on tampered compressed proofs: verify_compressed(c') accepts exactly
            //     when decompress(c') succeeds and ordinary verification accepts the result
            let ntamper = if tier == "thorough" { 30 } else { 10 };
            let croot = serde_json::to_value(&comp).unwrap();
            let mut ls = vec![]; let mut arrs = vec![];
            crate::c03::leaves_pub(&croot, &mut vec![], &mut ls, &mut arrs);
            for t in 0..ntamper {
                let mut tv = croot.clone();
                let what;
                if t % 5 == 4 {
                    what = "indices emptied (redundant)".to_string();
                    if let Some(ix) = tv.pointer_mut("/proof/opening_proof/query_round_proofs/indices") { *ix = serde_json::Value::Array(vec![]); }
                } else {
                    let path = r.pick(&ls).clone();
                    let cur = crate::c03::at_pub(&mut tv, &path);
                    let old = cur.as_u64().unwrap_or(0);
                    *cur = serde_json::Value::from(if old % crate::rng::P == crate::rng::P - 1 { 0 } else { old + 1 });
                    what = path.join("/");
                }
                let c2: plonky2::plonk::proof::CompressedProofWithPublicInputs<_, C, 2> = match serde_json::from_value(tv) { Ok(c) => c, Err(_) => continue };
                let vc = vclass(|| b.data.verify_compressed(c2.clone()));
                let vd = match catch_unwind(AssertUnwindSafe(|| b.data.decompress(c2.clone()))) {
                    Ok(Ok(d)) => vclass(|| b.data.verify(d)),
                    Ok(Err(_)) => "err",
                    Err(_) => "panic",
                };
                let okc = (vc == "ok") == (vd == "ok");
                writeln!(w, "c16 {base} tamper-equiv = {} # {}: compressed {vc} decompress+plain {vd}", okc as u8,
                         what.split('/').map(|x| if x.chars().all(|c| c.is_ascii_digit()) { "N" } else { x }).collect::<Vec<_>>().join("/")).unwrap();
                n += 1;
            }
            // (5) equivalence on altered ORIGINALS: everything outside the per-query data (public
            //     inputs, caps, openings, final polynomial, grinding witness) is carried verbatim by
            //     compress, so ordinary verification of p' and compressed verification of
            //     compress(p') must give the same verdict - also for public-input vectors of the
            //     wrong length (hash_no_pad does not separate [x] from [x, 0])
            let proot = serde_json::to_value(&b.proof).unwrap();
            let mut pls = vec![]; let mut parrs = vec![];
            crate::c03::leaves_pub(&proot, &mut vec![], &mut pls, &mut parrs);
            let outside: Vec<Vec<String>> = pls.iter().filter(|p| !p.iter().any(|x| x == "query_round_proofs")).cloned().collect();
            let nalt = if tier == "thorough" { 16 } else { 8 };
            for t in 0..nalt {
                let mut tv = proot.clone();
                let what: String;
                match t {
                    0 => { tv["public_inputs"].as_array_mut().unwrap().push(serde_json::Value::from(0u64)); what = "public_inputs+[0]".into() }
                    1 => { tv["public_inputs"].as_array_mut().unwrap().push(serde_json::Value::from(1 + r.below(1000))); what = "public_inputs+[x]".into() }
                    2 => { if tv["public_inputs"].as_array_mut().unwrap().pop().is_none() { continue } what = "public_inputs-last".into() }
                    3 => { let a = tv["public_inputs"].as_array_mut().unwrap(); if a.is_empty() { continue }
                           let k = r.below(a.len() as u64) as usize; let old = a[k].as_u64().unwrap_or(0);
                           a[k] = serde_json::Value::from(if old % crate::rng::P == crate::rng::P - 1 { 0 } else { old + 1 }); what = "public_inputs[k]+1".into() }
                    4 => { let a = tv["public_inputs"].as_array_mut().unwrap(); for _ in 0..8 { a.push(serde_json::Value::from(0u64)); } what = "public_inputs+[0;8]".into() }
                    _ => { if outside.is_empty() { continue }
                           let path = r.pick(&outside).clone();
                           let cur = crate::c03::at_pub(&mut tv, &path);
                           let old = cur.as_u64().unwrap_or(0);
                           *cur = serde_json::Value::from(if old % crate::rng::P == crate::rng::P - 1 { 0 } else { old + 1 });
                           what = path.iter().map(|x| if x.chars().all(|c| c.is_ascii_digit()) { "N" } else { x.as_str() }).collect::<Vec<_>>().join("/") }
                }
                let p2: plonky2::plonk::proof::ProofWithPublicInputs<_, C, 2> = match serde_json::from_value(tv) { Ok(c) => c, Err(_) => continue };
                let vp = vclass(|| b.data.verify(p2.clone()));
                let vc = match catch_unwind(AssertUnwindSafe(|| b.data.compress(p2.clone()))) {
                    Ok(Ok(c2)) => vclass(|| b.data.verify_compressed(c2)),
                    Ok(Err(_)) => "err",
                    Err(_) => "panic",
                };
                let okc = (vp == "ok") == (vc == "ok");
                writeln!(w, "c16 {base} altered-original-equiv = {} # {what}: plain {vp} compress+compressed {vc}", okc as u8).unwrap();
                n += 1;
            }
        }
    }
    n += crate::c16b::run(&mut r, tier, w);
    n
}
