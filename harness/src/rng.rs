//! Self-contained splitmix64 stream: every random choice of the harness derives from VERIF_SEED.
#[derive(Clone)]
pub struct Rng(pub u64);

impl Rng {
    pub fn new(seed: u64) -> Self {
        Rng(seed.wrapping_mul(0x9E3779B97F4A7C15).wrapping_add(0x1234_5678_9abc_def1))
    }
    pub fn next_u64(&mut self) -> u64 {
        self.0 = self.0.wrapping_add(0x9E3779B97F4A7C15);
        let mut z = self.0;
        z = (z ^ (z >> 30)).wrapping_mul(0xBF58476D1CE4E5B9);
        z = (z ^ (z >> 27)).wrapping_mul(0x94D049BB133111EB);
        z ^ (z >> 31)
    }
    pub fn below(&mut self, n: u64) -> u64 {
        if n == 0 { 0 } else { self.next_u64() % n }
    }
    pub fn range(&mut self, lo: u64, hi_incl: u64) -> u64 {
        lo + self.below(hi_incl - lo + 1)
    }
    pub fn coin(&mut self) -> bool {
        self.next_u64() & 1 == 1
    }
    pub fn pick<'a, T>(&mut self, xs: &'a [T]) -> &'a T {
        &xs[self.below(xs.len() as u64) as usize]
    }
    pub fn fork(&mut self) -> Rng {
        Rng::new(self.next_u64())
    }
}

pub const P: u64 = 0xFFFF_FFFF_0000_0001;
pub const EPS: u64 = 0xFFFF_FFFF;

/// Boundary representations of Goldilocks elements (canonical and non-canonical).
pub fn boundary_u64() -> Vec<u64> {
    let mut v = vec![
        0, 1, 2, 3, 7, EPS - 2, EPS - 1, EPS, EPS + 1, EPS + 2, 1 << 32, (1 << 32) + 1, 1 << 33, 1 << 48,
        (1 << 63) - 1, 1 << 63, (1 << 63) + 1, P - 3, P - 2, P - 1, P, P + 1, P + 2, P + 3,
        u64::MAX - EPS - 1, u64::MAX - EPS, u64::MAX - EPS + 1, u64::MAX - 2, u64::MAX - 1, u64::MAX,
        0xFFFF_FFFF_0000_0000, 0xFFFF_FFFE_FFFF_FFFF, 0x0000_0001_0000_0000, 0x8000_0000_0000_0000,
        0xFFFF_FFFF_8000_0000, 0x7FFF_FFFF_FFFF_FFFF, 0x0000_0000_8000_0000, 0xFFFF_FFFF_FFFF_0000,
        0x0000_FFFF_FFFF_FFFF, 0xAAAA_AAAA_AAAA_AAAA, 0x5555_5555_5555_5555, P / 2, P / 2 + 1,
        (P - 1) / 3, 18446744069414584320, 4294967296 * 4294967295,
    ];
    v.sort();
    v.dedup();
    v
}

/// A u64 drawn from a mixture: boundary value, near-boundary, or uniform.
pub fn mixed_u64(r: &mut Rng, b: &[u64]) -> u64 {
    match r.below(4) {
        0 => *r.pick(b),
        1 => r.pick(b).wrapping_add(r.below(5)).wrapping_sub(2),
        _ => r.next_u64(),
    }
}

/// (location, message) of the most recent caught panic (set by the panic hook in main.rs).
pub static LAST_PANIC: std::sync::Mutex<(String, String)> = std::sync::Mutex::new((String::new(), String::new()));

/// `panic@<file relative to /repo>:<message class>` for the most recent caught panic; line numbers
/// are left out so that unrelated edits do not change the site name.
pub fn panic_site() -> String {
    let (loc, msg) = LAST_PANIC.lock().unwrap().clone();
    let file = loc.rsplit_once(':').map(|x| x.0).unwrap_or(&loc).to_string();
    // path relative to the repository root, wherever the repository lives (/repo, or a snapshot of it)
    let file = ["/plonky2/src/", "/starky/src/", "/field/src/", "/util/src/", "/maybe_rayon/src/"].iter()
        .filter_map(|m| file.rfind(m).map(|i| file[i + 1..].to_string())).next()
        .unwrap_or_else(|| file.trim_start_matches("/repo/").to_string());
    let class: String = msg.chars().take(60).map(|c| if c.is_ascii_alphanumeric() { c } else { '_' }).collect();
    // strip run-dependent numbers
    let class: String = class.split('_').filter(|w| !w.is_empty() && !w.chars().all(|c| c.is_ascii_digit())).collect::<Vec<_>>().join("_");
    format!("panic@{}:{}", file, class)
}
