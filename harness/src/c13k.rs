//! C13, Keccak configuration: the glue around keccak-256 (KeccakPermutation's hash onion with
//! rejection sampling, KeccakHash<25>::hash_no_pad / two_to_one / hash_or_noop, BytesHash::to_vec)
//! judged by the independent Python oracle tools/spec_c13k.py.
use std::io::Write;

use plonky2::hash::hash_types::BytesHash;
use plonky2::plonk::config::GenericHashOut;
use plonky2::hash::hashing::PlonkyPermutation;
use plonky2::hash::keccak::{KeccakHash, KeccakPermutation};
use plonky2::iop::challenger::Challenger;
use plonky2::plonk::config::Hasher;
use plonky2_field::goldilocks_field::GoldilocksField as F;
use plonky2_field::types::{Field, PrimeField64};

use crate::rng::*;

type K = KeccakHash<25>;

pub fn run(r: &mut Rng, tier: &str, w: &mut dyn Write) -> usize {
    let b = boundary_u64();
    let mut n = 0;
    let reps = if tier == "thorough" { 400 } else { 40 };
    let el = |r: &mut Rng| F::from_noncanonical_u64(mixed_u64(r, &b));
    for i in 0..reps {
        let st: Vec<F> = (0..12).map(|_| if i == 0 { F::ZERO } else { el(r) }).collect();
        let mut p = KeccakPermutation::<F>::new(st.iter().copied());
        p.permute();
        writeln!(w, "kperm {} = {}", st.iter().map(|x| x.to_canonical_u64().to_string()).collect::<Vec<_>>().join(" "),
                 p.as_ref().iter().map(|x| x.to_canonical_u64().to_string()).collect::<Vec<_>>().join(" ")).unwrap();
        let len = if i < 12 { i } else { r.below(30) as usize };
        let xs: Vec<F> = (0..len).map(|_| el(r)).collect();
        let h = <K as Hasher<F>>::hash_no_pad(&xs);
        writeln!(w, "khash {} {} = {}", len, xs.iter().map(|x| x.to_canonical_u64().to_string()).collect::<Vec<_>>().join(" "),
                 h.0.iter().map(|x| x.to_string()).collect::<Vec<_>>().join(" ")).unwrap();
        let hn = <K as Hasher<F>>::hash_or_noop(&xs);
        writeln!(w, "khashornoop {} {} = {}", len, xs.iter().map(|x| x.to_canonical_u64().to_string()).collect::<Vec<_>>().join(" "),
                 hn.0.iter().map(|x| x.to_string()).collect::<Vec<_>>().join(" ")).unwrap();
        let mut a = [0u8; 25]; let mut c = [0u8; 25];
        for j in 0..25 { a[j] = r.next_u64() as u8; c[j] = if i % 3 == 0 { 0xff } else { r.next_u64() as u8 }; }
        let t = <K as Hasher<F>>::two_to_one(BytesHash(a), BytesHash(c));
        writeln!(w, "ktwo {} {} = {}", a.iter().map(|x| x.to_string()).collect::<Vec<_>>().join(" "),
                 c.iter().map(|x| x.to_string()).collect::<Vec<_>>().join(" "), t.0.iter().map(|x| x.to_string()).collect::<Vec<_>>().join(" ")).unwrap();
        // digest -> field elements as absorbed by the transcript
        let v: Vec<F> = GenericHashOut::<F>::to_vec(&BytesHash::<25>(c));
        writeln!(w, "kdigest_to_vec {} = {}", c.iter().map(|x| x.to_string()).collect::<Vec<_>>().join(" "),
                 v.iter().map(|x| x.to_canonical_u64().to_string()).collect::<Vec<_>>().join(" ")).unwrap();
        // challenger over the Keccak permutation: observe xs, draw 3
        let mut ch = Challenger::<F, K>::new();
        ch.observe_elements(&xs);
        let out = ch.get_n_challenges(3);
        writeln!(w, "kchallenger {} {} = {}", len, xs.iter().map(|x| x.to_canonical_u64().to_string()).collect::<Vec<_>>().join(" "),
                 out.iter().map(|x| x.to_canonical_u64().to_string()).collect::<Vec<_>>().join(" ")).unwrap();
        n += 6;
    }
    n
}
