//! C13: run the Poseidon permutation, the sponge functions and the challengers of the real
//! implementation; one case per line `op args.. = results..`.
//! Field elements go in as raw u64 representations (possibly non-canonical) and are printed
//! canonical (`poseidon_raw` prints the representation the code produced).
use std::io::Write;
use std::panic::{catch_unwind, AssertUnwindSafe};

use plonky2::hash::hash_types::HashOut;
use plonky2::hash::hashing::hash_n_to_m_no_pad;
use plonky2::hash::poseidon::{Poseidon, PoseidonHash, PoseidonPermutation};
use plonky2::iop::challenger::{Challenger, RecursiveChallenger};
use plonky2::iop::generator::generate_partial_witness;
use plonky2::iop::target::Target;
use plonky2::iop::witness::{PartialWitness, Witness};
use plonky2::plonk::circuit_builder::CircuitBuilder;
use plonky2::plonk::circuit_data::CircuitConfig;
use plonky2::plonk::config::{GenericConfig, Hasher, PoseidonGoldilocksConfig};
use plonky2_field::goldilocks_field::GoldilocksField as F;
use plonky2_field::types::{Field, PrimeField64};

use crate::rng::*;

const D: usize = 2;
type C = PoseidonGoldilocksConfig;

struct Out<'a> {
    w: &'a mut dyn Write,
    n: usize,
    k: usize,
}
impl<'a> Out<'a> {
    fn case(&mut self, ops: &[&str], args: &[u64], f: impl FnOnce() -> Vec<u64>) {
        let r = catch_unwind(AssertUnwindSafe(f));
        let a = args.iter().map(|x| x.to_string()).collect::<Vec<_>>().join(" ");
        let res = match r {
            Ok(v) => v.iter().map(|x| x.to_string()).collect::<Vec<_>>().join(" "),
            Err(_) => "panic".to_string(),
        };
        // the same implementation result is compared with several models (one line each)
        for op in ops {
            writeln!(self.w, "{} {} = {}", op, a, res).unwrap();
            self.n += 1;
        }
    }
}

fn st(v: &[u64]) -> [F; 12] {
    let mut s = [F::ZERO; 12];
    for i in 0..12 {
        s[i] = F(v[i]);
    }
    s
}
fn canon(s: &[F]) -> Vec<u64> {
    s.iter().map(|x| x.to_canonical_u64()).collect()
}

/// boundary / structured 12-element states
fn structured_states(r: &mut Rng, b: &[u64]) -> Vec<Vec<u64>> {
    let mut v: Vec<Vec<u64>> = Vec::new();
    for &c in &[0u64, 1, P - 1, P, P + 1, u64::MAX, u64::MAX - 1, EPS, EPS + 1, 1 << 32, 1 << 63,
                0xFFFF_FFFF_0000_0000, 0x0000_0000_FFFF_FFFF, 0x8000_0000_8000_0000, 0x7FFF_FFFF_7FFF_FFFF] {
        v.push(vec![c; 12]);
    }
    v.push((0..12u64).collect());
    // the fourth published test vector of poseidon_goldilocks.rs
    v.push(vec![
        0x8ccbbbea4fe5d2b7, 0xc2af59ee9ec49970, 0x90f7e1a9e658446a, 0xdcc0630a3ab8b1b8,
        0x7ff8256bca20588c, 0x5d99a7ca0c44ecfb, 0x48452b17a70fbee3, 0xeb09d654690b6c88,
        0x4a55d3a39c676a88, 0xc0407a38d2285139, 0xa234bac9356386d1, 0xe1633f2bad98a52f,
    ]);
    // a single non-canonical / saturated limb in an otherwise zero (or all P-1) state
    for i in 0..12 {
        for &c in &[u64::MAX, P, 0xFFFF_FFFF_0000_0000u64, 0x0000_0000_FFFF_FFFFu64] {
            let mut s = vec![0u64; 12];
            s[i] = c;
            v.push(s);
            let mut s = vec![P - 1; 12];
            s[i] = c;
            v.push(s);
        }
    }
    // halves saturated in alternating positions
    for k in 0..4 {
        v.push((0..12).map(|i| if (i + k) % 2 == 0 { 0xFFFF_FFFF_0000_0000 } else { 0xFFFF_FFFF }).collect());
        v.push((0..12).map(|i| if (i + k) % 3 == 0 { u64::MAX } else { 0 }).collect());
    }
    // every element a boundary representation
    for _ in 0..60 {
        v.push((0..12).map(|_| *r.pick(b)).collect());
    }
    v
}

fn perm_cases(o: &mut Out, s: &[u64], full: bool) {
    let sv = s.to_vec();
    if full {
        o.case(&["poseidon", "poseidon_spec", "poseidon_fast"], &sv, || canon(&F::poseidon(st(s))));
        o.k += 1;
        if o.k % 3 == 0 {
            o.case(&["poseidon_raw"], &sv, || F::poseidon(st(s)).iter().map(|x| x.0).collect());
        }
        o.case(&["poseidon_naive"], &sv, || canon(&F::poseidon_naive(st(s))));
    } else {
        o.case(&["poseidon"], &sv, || canon(&F::poseidon(st(s))));
    }
    o.case(&["mds_layer"], &sv, || canon(&F::mds_layer(&st(s))));
    if full {
        o.case(&["partial_rounds"], &sv, || {
            let mut x = st(s);
            let mut ctr = 4usize;
            F::partial_rounds(&mut x, &mut ctr);
            canon(&x)
        });
    }
}

fn sponge_cases(o: &mut Out, r: &mut Rng, b: &[u64], maxlen: usize, reps: usize) {
    for rep in 0..reps {
        for len in 0..=maxlen {
            let xs: Vec<u64> = (0..len).map(|_| if rep == 0 { (len * 100 + 1) as u64 } else { mixed_u64(r, b) }).collect();
            let fs: Vec<F> = xs.iter().map(|&x| F(x)).collect();
            o.case(&["hash_no_pad"], &xs, || canon(&PoseidonHash::hash_no_pad(&fs).elements));
            if len % 3 == 0 || len <= 9 {
                o.case(&["hash_or_noop"], &xs, || canon(&PoseidonHash::hash_or_noop(&fs).elements));
                o.case(&["hash_pad"], &xs, || canon(&PoseidonHash::hash_pad(&fs).elements));
                let m = 1 + r.below(20);
                let mut a = vec![m];
                a.extend_from_slice(&xs);
                o.case(&["hash_n_to_m"], &a, || {
                    canon(&hash_n_to_m_no_pad::<F, PoseidonPermutation<F>>(&fs, m as usize))
                });
            }
        }
    }
    for _ in 0..(reps * 12) {
        let xs: Vec<u64> = (0..8).map(|_| mixed_u64(r, b)).collect();
        o.case(&["two_to_one"], &xs, || {
            let l = HashOut { elements: [F(xs[0]), F(xs[1]), F(xs[2]), F(xs[3])] };
            let rr = HashOut { elements: [F(xs[4]), F(xs[5]), F(xs[6]), F(xs[7])] };
            canon(&PoseidonHash::two_to_one(l, rr).elements)
        });
    }
}

/// random interleaving of observe / squeeze; encoded `0 k x1..xk` | `1 n`
fn gen_ops(r: &mut Rng, b: &[u64], nops: usize, maxobs: u64, maxsq: u64, extended: bool) -> Vec<u64> {
    let mut a = Vec::new();
    for _ in 0..nops {
        let choice = if extended { r.below(6) } else { r.below(2) };
        match choice {
            0 => {
                // lengths around the rate boundaries are over-represented
                let k = match r.below(4) {
                    0 => *r.pick(&[0u64, 1, 7, 8, 9, 15, 16, 17, 24]),
                    _ => r.below(maxobs + 1),
                };
                a.push(0);
                a.push(k);
                for _ in 0..k {
                    a.push(mixed_u64(r, b));
                }
            }
            1 => {
                let n = match r.below(4) {
                    0 => *r.pick(&[0u64, 1, 7, 8, 9, 16, 17]),
                    _ => r.below(maxsq + 1),
                };
                a.push(1);
                a.push(n);
            }
            2 => a.push(2),
            3 => a.push(3),
            4 => a.push(4),
            _ => {
                a.push(5);
                a.push(mixed_u64(r, b));
            }
        }
    }
    a
}

fn run_native(code: &[u64]) -> Vec<u64> {
    let mut ch = Challenger::<F, PoseidonHash>::new();
    let mut out: Vec<F> = Vec::new();
    let mut i = 0;
    while i < code.len() {
        match code[i] {
            0 => {
                let k = code[i + 1] as usize;
                let xs: Vec<F> = code[i + 2..i + 2 + k].iter().map(|&x| F(x)).collect();
                ch.observe_elements(&xs);
                i += 2 + k;
            }
            1 => {
                out.extend(ch.get_n_challenges(code[i + 1] as usize));
                i += 2;
            }
            2 => {
                out.extend(ch.get_hash().elements);
                i += 1;
            }
            3 => {
                let e = ch.get_extension_challenge::<D>();
                out.extend(e.0);
                i += 1;
            }
            4 => {
                let p = ch.compact();
                out.extend(p.as_ref().iter().copied());
                i += 1;
            }
            _ => {
                ch.observe_element(F(code[i + 1]));
                i += 2;
            }
        }
    }
    canon(&out)
}

/// RecursiveChallenger: build the circuit that observes constants / squeezes targets, generate
/// its witness and read the challenge targets back.
fn run_recursive(code: &[u64]) -> Vec<u64> {
    let config = CircuitConfig::standard_recursion_config();
    let mut builder = CircuitBuilder::<F, D>::new(config);
    let mut rc = RecursiveChallenger::<F, <C as GenericConfig<D>>::InnerHasher, D>::new(&mut builder);
    let mut outs: Vec<Target> = Vec::new();
    let mut i = 0;
    while i < code.len() {
        match code[i] {
            0 => {
                let k = code[i + 1] as usize;
                let xs: Vec<F> = code[i + 2..i + 2 + k].iter().map(|&x| F::from_noncanonical_u64(x)).collect();
                let ts = builder.constants(&xs);
                rc.observe_elements(&ts);
                i += 2 + k;
            }
            _ => {
                outs.extend(rc.get_n_challenges(&mut builder, code[i + 1] as usize));
                i += 2;
            }
        }
    }
    let circuit = builder.build::<C>();
    let witness = generate_partial_witness(PartialWitness::new(), &circuit.prover_only, &circuit.common).unwrap();
    canon(&witness.get_targets(&outs))
}

pub fn run(seed: u64, tier: &str, w: &mut dyn Write) -> usize {
    let mut r = Rng::new(seed ^ 0xC13);
    let b = boundary_u64();
    let mut o = Out { w, n: 0, k: 0 };
    let thorough = tier == "thorough";

    // ---- permutation
    let ss = structured_states(&mut r, &b);
    for s in &ss {
        perm_cases(&mut o, s, true);
    }
    let (n_full, n_light) = if thorough { (2000, 15000) } else { (60, 300) };
    for i in 0..n_full {
        let s: Vec<u64> = (0..12).map(|_| if i % 2 == 0 { r.next_u64() } else { mixed_u64(&mut r, &b) }).collect();
        perm_cases(&mut o, &s, true);
    }
    for _ in 0..n_light {
        // uniformly random representations: the polynomial-identity stream
        let s: Vec<u64> = (0..12).map(|_| r.next_u64()).collect();
        perm_cases(&mut o, &s, false);
    }
    // mds_layer alone: products steered to the 32-bit-half carry boundaries
    let n_mds = if thorough { 20000 } else { 1000 };
    for _ in 0..n_mds {
        let s: Vec<u64> = (0..12)
            .map(|_| match r.below(5) {
                0 => 0xFFFF_FFFF_0000_0000 | r.below(4),
                1 => 0xFFFF_FFFF - r.below(3),
                2 => u64::MAX - r.below(3),
                3 => *r.pick(&b),
                _ => r.next_u64(),
            })
            .collect();
        let sv = s.clone();
        o.case(&["mds_layer"], &sv, || canon(&F::mds_layer(&st(&s))));
    }

    // mds_partial_layer_fast alone, at the carry boundary of its u160 accumulator: the eleven products
    // state[i] * W_HATS[round][i-1] are made to sum, modulo 2^128, to just below 2^128 (state[11] is solved for),
    // and state[0] is put on either side of the value whose product with M_00 makes the low limb wrap
    let per_round = if thorough { 40 } else { 6 };
    for round in 0..22usize {
        let mut made = 0;
        let mut tries = 0;
        while made < per_round && tries < 400 {
            tries += 1;
            let mut s: Vec<u64> = (0..12).map(|_| if r.below(4) == 0 { mixed_u64(&mut r, &b) } else { r.next_u64() }).collect();
            let wh = <F as Poseidon>::FAST_PARTIAL_ROUND_W_HATS[round];
            let mut low: u128 = 0;
            for i in 1..11 { low = low.wrapping_add((s[i] as u128) * (wh[i - 1] as u128)); }
            let v = u128::MAX - low;
            let w11 = wh[10] as u128;
            if w11 == 0 || v / w11 > u64::MAX as u128 { continue; }
            s[11] = (v / w11) as u64;
            let gap = v - (s[11] as u128) * w11;          // low limb after the eleven products = 2^128 - 1 - gap
            let m00 = (<F as Poseidon>::MDS_MATRIX_CIRC[0] + <F as Poseidon>::MDS_MATRIX_DIAG[0]) as u128;
            let thr = gap / m00 + 1;                      // smallest state[0] whose product exceeds the gap: wraps
            if thr > u64::MAX as u128 { continue; }
            let thr = thr as u64;
            for s0 in [thr.saturating_sub(1), thr, thr.saturating_add(1 + r.below(1 << 20)), thr | (r.next_u64() << 1 >> 1), u64::MAX - r.below(3)] {
                let mut a = vec![round as u64];
                s[0] = s0;
                a.extend(s.iter().copied());
                let sc = s.clone();
                o.case(&["mds_partial_fast"], &a, || canon(&F::mds_partial_layer_fast(&st(&sc), round)));
            }
            made += 1;
        }
        // and away from the boundary
        for _ in 0..per_round {
            let s: Vec<u64> = (0..12).map(|_| mixed_u64(&mut r, &b)).collect();
            let mut a = vec![round as u64];
            a.extend(s.iter().copied());
            o.case(&["mds_partial_fast"], &a, || canon(&F::mds_partial_layer_fast(&st(&s), round)));
        }
    }

    // ---- sponge
    sponge_cases(&mut o, &mut r, &b, 40, if thorough { 12 } else { 2 });

    // ---- challengers
    let (n_ch, max_ops) = if thorough { (400, 200) } else { (60, 40) };
    for i in 0..n_ch {
        let nops = 1 + r.below(if i % 5 == 0 { max_ops } else { 12 }) as usize;
        let code = gen_ops(&mut r, &b, nops, 20, 12, false);
        o.case(&["challenger", "challenger_x"], &code, || run_native(&code));
        let code = gen_ops(&mut r, &b, nops, 20, 12, true);
        o.case(&["challenger_x"], &code, || run_native(&code));
    }
    // the test_consistency shape of challenger.rs and fixed rate-boundary shapes
    for shape in [vec![(2u64, 1u64), (5, 2), (3, 4)], vec![(8, 1)], vec![(8, 8), (1, 9)], vec![(16, 1), (0, 8), (7, 7)],
                  vec![(0, 1), (0, 8)], vec![(9, 0), (7, 1)], vec![(24, 17)]] {
        let mut code = Vec::new();
        for (k, n) in shape {
            code.push(0);
            code.push(k);
            for _ in 0..k {
                code.push(r.next_u64());
            }
            code.push(1);
            code.push(n);
        }
        o.case(&["challenger", "rchallenger"], &code, || run_native(&code));
        o.case(&["rchallenger", "challenger"], &code, || run_recursive(&code));
    }
    let n_rc = if thorough { 60 } else { 8 };
    for _ in 0..n_rc {
        let nops = 1 + r.below(8) as usize;
        let code = gen_ops(&mut r, &b, nops, 18, 10, false);
        // the circuit version against the recursive model, and (the property) against the native one
        o.case(&["rchallenger", "challenger"], &code, || run_recursive(&code));
    }
    let nk = crate::c13k::run(&mut r.fork(), tier, o.w);
    o.n + nk
}
