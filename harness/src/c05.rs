//! C05: FRI opening proofs attest only true evaluations of low-degree polynomials.
//! Stand-alone FRI instances through the public API (PolynomialBatch::prove_openings,
//! verify_fri_proof) on random oracle shapes; honest proofs must verify, every deviation must be
//! rejected, also with the challenges held fixed.
//! Lines:
//!   friverify <instance, openings, challenges, caps, proof, params dump> = <code>   (Model/Fri.v replays)
//!        code: 1 accepted; 0 shape; 2 proof of work; 3 number of rounds; 4 Merkle path; 5 fold
//!        consistency; 6 final polynomial; 9 other error
//!   c05 <shape> <case> = <1|0> # detail           (1 = property held: honest accepted / deviation rejected)
use std::io::Write;
use std::panic::{catch_unwind, AssertUnwindSafe};

use plonky2::field::extension::quadratic::QuadraticExtension;
use plonky2::field::extension::Extendable;
use plonky2::field::goldilocks_field::GoldilocksField as F;
use plonky2::field::polynomial::PolynomialCoeffs;
use plonky2::field::types::{Field, PrimeField64};
use plonky2::fri::oracle::PolynomialBatch;
use plonky2::fri::proof::{FriChallenges, FriProof};
use plonky2::fri::reduction_strategies::FriReductionStrategy;
use plonky2::fri::structure::{FriBatchInfo, FriInstanceInfo, FriOpeningBatch, FriOpenings, FriOracleInfo, FriPolynomialInfo};
use plonky2::fri::verifier::verify_fri_proof;
use plonky2::fri::{FriConfig, FriParams};
use plonky2::hash::merkle_tree::MerkleCap;
use plonky2::iop::challenger::Challenger;
use plonky2::util::timing::TimingTree;

use crate::corpus::*;
use crate::dsl::D;
use crate::rng::*;

type FE = QuadraticExtension<F>;

struct Inst {
    instance: FriInstanceInfo<F, D>,
    batches: Vec<PolynomialBatch<F, C, D>>,
    openings: FriOpenings<F, D>,
    params: FriParams,
}

fn rand_f(r: &mut Rng) -> F { F::from_noncanonical_u64(r.next_u64() % P) }
fn rand_fe(r: &mut Rng) -> FE { QuadraticExtension([rand_f(r), rand_f(r)]) }

fn make(r: &mut Rng, degree_bits: usize, noracles: usize, hiding: bool, cfg: &FriConfig, npoints: usize, high_degree: bool) -> Inst {
    let n = 1usize << degree_bits;
    let params = cfg.fri_params(degree_bits, hiding);
    let mut batches = vec![];
    let mut oracles = vec![];
    for oi in 0..noracles {
        let npolys = 1 + r.below(5) as usize;
        let blinding = oi > 0 && r.coin();
        let polys: Vec<PolynomialCoeffs<F>> = (0..npolys).map(|pi| {
            let mut c: Vec<F> = (0..n).map(|_| rand_f(r)).collect();
            // shapes of committed polynomials: random, zero upper half, constant, monic top coefficient, and the
            // identically ZERO polynomial (an unused column) - opened at the later points as well
            match (pi + 2 * oi) % 5 { 0 => {}, 1 => { for x in c.iter_mut().skip(n / 2) { *x = F::ZERO } }, 2 => { for x in c.iter_mut().skip(1) { *x = F::ZERO } },
                                      3 => { c[n - 1] = F::ONE } _ => { for x in c.iter_mut() { *x = F::ZERO } } }
            PolynomialCoeffs::new(c)
        }).collect();
        let _ = high_degree;
        let b = PolynomialBatch::<F, C, D>::from_coeffs(polys, cfg.rate_bits, blinding && hiding, cfg.cap_height, &mut TimingTree::default(), None);
        oracles.push(FriOracleInfo { num_polys: npolys, blinding });
        batches.push(b);
    }
    // opening points: all polynomials at the first point, a random subset at the others
    let mut fbatches = vec![];
    let mut obatches = vec![];
    for pt in 0..npoints {
        let point = rand_fe(r);
        let mut polys = vec![];
        for (oi, o) in oracles.iter().enumerate() {
            for pi in 0..o.num_polys {
                if pt == 0 || r.coin() { polys.push(FriPolynomialInfo { oracle_index: oi, polynomial_index: pi }); }
            }
        }
        if polys.is_empty() { polys.push(FriPolynomialInfo { oracle_index: 0, polynomial_index: 0 }); }
        let values: Vec<FE> = polys.iter().map(|p| batches[p.oracle_index].polynomials[p.polynomial_index].to_extension::<D>().eval(point)).collect();
        fbatches.push(FriBatchInfo { point, polynomials: polys });
        obatches.push(FriOpeningBatch { values });
    }
    Inst { instance: FriInstanceInfo { oracles, batches: fbatches }, batches, openings: FriOpenings { batches: obatches }, params }
}

fn transcript(inst: &Inst, openings: &FriOpenings<F, D>) -> Challenger<F, H> {
    let mut ch = Challenger::<F, H>::new();
    for b in &inst.batches { ch.observe_cap::<H>(&b.merkle_tree.cap); }
    ch.observe_openings(openings);
    ch
}

fn prove(inst: &Inst, openings: &FriOpenings<F, D>) -> Option<FriProof<F, H, D>> {
    let mut ch = transcript(inst, openings);
    let refs: Vec<&PolynomialBatch<F, C, D>> = inst.batches.iter().collect();
    catch_unwind(AssertUnwindSafe(|| PolynomialBatch::prove_openings(&inst.instance, &refs, &mut ch, &inst.params, None, None, &mut TimingTree::default()))).ok()
}

fn challenges(inst: &Inst, openings: &FriOpenings<F, D>, proof: &FriProof<F, H, D>) -> FriChallenges<F, D> {
    let mut ch = transcript(inst, openings);
    ch.fri_challenges::<C, D>(&proof.commit_phase_merkle_caps, &proof.final_poly, proof.pow_witness, inst.params.degree_bits, &inst.params.config, None, None)
}

fn verify(inst: &Inst, openings: &FriOpenings<F, D>, chs: &FriChallenges<F, D>, proof: &FriProof<F, H, D>) -> u64 {
    let caps: Vec<MerkleCap<F, H>> = inst.batches.iter().map(|b| b.merkle_tree.cap.clone()).collect();
    match catch_unwind(AssertUnwindSafe(|| verify_fri_proof::<F, C, D>(&inst.instance, openings, chs, &caps, proof, &inst.params))) {
        Err(_) => 8,
        Ok(Ok(())) => 1,
        Ok(Err(e)) => {
            let m = format!("{e}");
            if m.contains("proof of work") { 2 } else if m.contains("Number of query rounds") { 3 }
            else if m.contains("Invalid Merkle proof") { 4 } else if m.contains("old_eval") { 5 }
            else if m.contains("Final polynomial") { 6 } else if m.contains("Condition failed") { 0 } else { 9 }
        }
    }
}

fn dump(o: &mut Vec<u64>, inst: &Inst, openings: &FriOpenings<F, D>, chs: &FriChallenges<F, D>, proof: &FriProof<F, H, D>) {
    o.push(inst.instance.oracles.len() as u64);
    for or in &inst.instance.oracles { o.extend([or.num_polys as u64, or.blinding as u64]); }
    o.push(inst.instance.batches.len() as u64);
    for b in &inst.instance.batches {
        ext(o, &b.point);
        o.push(b.polynomials.len() as u64);
        for p in &b.polynomials { o.extend([p.oracle_index as u64, p.polynomial_index as u64]); }
    }
    o.push(openings.batches.len() as u64);
    for b in &openings.batches { exts(o, &b.values); }
    ext(o, &chs.fri_alpha);
    exts(o, &chs.fri_betas);
    o.push(chs.fri_pow_response.to_canonical_u64());
    o.push(chs.fri_query_indices.len() as u64);
    o.extend(chs.fri_query_indices.iter().map(|x| *x as u64));
    o.push(inst.batches.len() as u64);
    for b in &inst.batches { cap(o, &b.merkle_tree.cap); }
    dump_fri_proof(o, proof);
    dump_fri_params(o, &inst.params);
}

pub fn run(seed: u64, tier: &str, w: &mut dyn Write) -> usize {
    let mut r = Rng::new(seed ^ 0xC05);
    let mut n = 0;
    let nshapes = if tier == "thorough" { 60 } else { 10 };
    let strategies = |r: &mut Rng, db: usize| -> FriReductionStrategy {
        match r.below(5) {
            0 => FriReductionStrategy::ConstantArityBits(1, 1),
            1 => FriReductionStrategy::ConstantArityBits(2, 1 + r.below(3) as usize),
            2 => FriReductionStrategy::ConstantArityBits(3 + r.below(2) as usize, 2),
            3 => FriReductionStrategy::MinSize(if r.coin() { None } else { Some(1 + r.below(3) as usize) }),
            _ => { let mut v = vec![]; let mut left = db; while left > 0 && v.len() < 3 { let a = 1 + r.below(left.min(3) as u64) as usize; v.push(a); left -= a; if r.coin() { break } } FriReductionStrategy::Fixed(v) }
        }
    };
    // FriReductionStrategy::reduction_arity_bits against Model/FriStrategy.v
    let nar = if tier == "thorough" { 1500 } else { 250 };
    for _ in 0..nar {
        let d = r.below(24) as usize; let rb = r.below(6) as usize; let c = r.below(8) as usize; let q = 1 + r.below(100) as usize;
        let (strat, mut args): (FriReductionStrategy, Vec<u64>) = match r.below(4) {
            0 => { let k = r.below(4) as usize; let v: Vec<usize> = (0..k).map(|_| r.below(6) as usize).collect();
                   let mut a = vec![0, k as u64]; a.extend(v.iter().map(|x| *x as u64)); (FriReductionStrategy::Fixed(v), a) }
            1 | 2 => { let a = 1 + r.below(6) as usize; let f = r.below(8) as usize; (FriReductionStrategy::ConstantArityBits(a, f), vec![1, a as u64, f as u64]) }
            _ => { if r.coin() { (FriReductionStrategy::MinSize(None), vec![2, 0]) } else { let m = 1 + r.below(5) as usize; (FriReductionStrategy::MinSize(Some(m)), vec![2, 1, m as u64]) } }
        };
        args.extend([d as u64, rb as u64, c as u64, q as u64]);
        let res = catch_unwind(AssertUnwindSafe(|| strat.reduction_arity_bits(d, rb, c, q)));
        let out = match res { Ok(v) => { let mut o = vec![v.len() as u64]; o.extend(v.iter().map(|x| *x as u64)); o.iter().map(|x| x.to_string()).collect::<Vec<_>>().join(" ") } Err(_) => "panic".to_string() };
        writeln!(w, "{}", line("aritybits", &args, &out)).unwrap();
        n += 1;
    }
    let mut dumped = 0;
    for si in 0..nshapes {
        let degree_bits = 2 + r.below(6) as usize;
        let cfg = FriConfig { rate_bits: 1 + r.below(3) as usize, cap_height: r.below(4) as usize, proof_of_work_bits: r.below(6) as u32,
                              reduction_strategy: strategies(&mut r, degree_bits), num_query_rounds: 1 + r.below(8) as usize };
        let hiding = r.below(3) == 0;
        let noracles = 1 + r.below(4) as usize;
        let npoints = 1 + r.below(3) as usize;
        // FriConfig::fri_params asserts degree_bits >= arity_bits for ConstantArityBits: such a combination is inadmissible
        let inst = match catch_unwind(AssertUnwindSafe(|| make(&mut r, degree_bits, noracles, hiding, &cfg, npoints, false))) {
            Ok(i) => i,
            Err(_) => { writeln!(w, "c05 {si} inadmissible-shape = - # fri_params refused the configuration ({})", crate::rng::panic_site()).unwrap(); continue }
        };
        // cap height must not exceed the last committed layer: the prover asserts it; skip inadmissible shapes
        let proof = match prove(&inst, &inst.openings) { Some(p) => p, None => { writeln!(w, "c05 {si} inadmissible-shape = - # prover refused").unwrap(); continue } };
        let chs = challenges(&inst, &inst.openings, &proof);
        let code = verify(&inst, &inst.openings, &chs, &proof);
        writeln!(w, "c05 {si} honest = {} # db {degree_bits} oracles {noracles} points {npoints} hiding {hiding} arities {:?} queries {} code {code}", (code == 1) as u8, inst.params.reduction_arity_bits, cfg.num_query_rounds).unwrap();
        n += 1;
        let mut emit_model = |w: &mut dyn Write, dumped: &mut usize, openings: &FriOpenings<F, D>, chs: &FriChallenges<F, D>, p: &FriProof<F, H, D>, code: u64| {
            if code == 8 { return; }
            let lim = if tier == "thorough" { 400 } else { 60 };
            if *dumped < lim && degree_bits <= 6 {
                let mut o = vec![];
                dump(&mut o, &inst, openings, chs, p);
                writeln!(w, "{}", line("friverify", &o, &code.to_string())).unwrap();
                *dumped += 1;
            }
        };
        emit_model(w, &mut dumped, &inst.openings, &chs, &proof, code);
        // the model PROVER (Model/FriProver.v) must produce the same proof as prove_openings
        if !hiding && degree_bits <= 6 && code == 1 {
            let mut o = vec![];
            dump(&mut o, &inst, &inst.openings, &chs, &proof);
            o.push(inst.batches.len() as u64);
            for b in &inst.batches {
                o.push(b.polynomials.len() as u64);
                for p in &b.polynomials { o.push(p.coeffs.len() as u64); o.extend(p.coeffs.iter().map(|x| x.to_canonical_u64())); }
            }
            writeln!(w, "{}", line("friprove", &o, "1")).unwrap();
        }
        // (a) wrong claimed opening: prover runs honestly on the real polynomials, claim differs
        {
            let mut op2 = FriOpenings { batches: inst.openings.batches.iter().map(|b| FriOpeningBatch { values: b.values.clone() }).collect() };
            let bi = r.below(op2.batches.len() as u64) as usize;
            let vi = r.below(op2.batches[bi].values.len() as u64) as usize;
            op2.batches[bi].values[vi] += FE::ONE;
            if let Some(p2) = prove(&inst, &op2) {
                let c2 = challenges(&inst, &op2, &p2);
                let code = verify(&inst, &op2, &c2, &p2);
                writeln!(w, "c05 {si} wrong-opening = {} # code {code}", (code != 1) as u8).unwrap();
                emit_model(w, &mut dumped, &op2, &c2, &p2, code);
                n += 1;
            }
            // same wrong claim against the honest proof with the honest (fixed) challenges
            let code = verify(&inst, &op2, &chs, &proof);
            writeln!(w, "c05 {si} wrong-opening-fixed-challenges = {} # code {code}", (code != 1) as u8).unwrap();
            emit_model(w, &mut dumped, &op2, &chs, &proof, code);
            n += 1;
        }
        // (b) bad grinding: another witness, challenges recomputed
        if cfg.proof_of_work_bits >= 3 {
            let mut p2 = proof.clone();
            let mut tries = 0;
            loop {
                p2.pow_witness = rand_f(&mut r);
                let c2 = challenges(&inst, &inst.openings, &p2);
                let lz = c2.fri_pow_response.to_canonical_u64().leading_zeros();
                tries += 1;
                if lz < cfg.proof_of_work_bits || tries > 50 {
                    let code = verify(&inst, &inst.openings, &c2, &p2);
                    let insufficient = lz < cfg.proof_of_work_bits;
                    writeln!(w, "c05 {si} bad-grinding = {} # leading zeros {lz} < {} code {code}", (!insufficient || code == 2) as u8, cfg.proof_of_work_bits).unwrap();
                    emit_model(w, &mut dumped, &inst.openings, &c2, &p2, code);
                    n += 1;
                    break;
                }
            }
        }
        // (c) per-element edits under FIXED challenges: every class of position
        let classes = ["initial leaf", "initial sibling", "step eval", "step sibling", "final poly", "commit cap"];
        for (ci, cl) in classes.iter().enumerate() {
            for _ in 0..(if tier == "thorough" { 4 } else { 2 }) {
                let mut p2 = proof.clone();
                let qi = r.below(p2.query_round_proofs.len() as u64) as usize;
                let q = &mut p2.query_round_proofs[qi];
                let mut touched = true;
                match ci {
                    0 => { let oi = r.below(q.initial_trees_proof.evals_proofs.len() as u64) as usize; let e = &mut q.initial_trees_proof.evals_proofs[oi].0;
                           // only unsalted, opened positions are algebraically pinned; salts are pinned by the Merkle path
                           let k = r.below(e.len() as u64) as usize; e[k] += F::ONE; }
                    1 => { let oi = r.below(q.initial_trees_proof.evals_proofs.len() as u64) as usize; let s = &mut q.initial_trees_proof.evals_proofs[oi].1.siblings;
                           if s.is_empty() { touched = false } else { let k = r.below(s.len() as u64) as usize; s[k].elements[r.below(4) as usize] += F::ONE; } }
                    2 => { if q.steps.is_empty() { touched = false } else { let si2 = r.below(q.steps.len() as u64) as usize; let e = &mut q.steps[si2].evals; let k = r.below(e.len() as u64) as usize; e[k] += FE::ONE; } }
                    3 => { if q.steps.is_empty() { touched = false } else { let si2 = r.below(q.steps.len() as u64) as usize; let s = &mut q.steps[si2].merkle_proof.siblings;
                           if s.is_empty() { touched = false } else { let k = r.below(s.len() as u64) as usize; s[k].elements[0] += F::ONE; } } }
                    4 => { let k = r.below(p2.final_poly.coeffs.len() as u64) as usize; p2.final_poly.coeffs[k] += FE::ONE; }
                    _ => { if p2.commit_phase_merkle_caps.is_empty() { touched = false } else { let k = r.below(p2.commit_phase_merkle_caps.len() as u64) as usize;
                           // only cap entries on a queried path are checked: pick the entry the first query uses
                           let bits: usize = inst.params.reduction_arity_bits[..=k].iter().sum();
                           let cap_len = p2.commit_phase_merkle_caps[k].0.len();
                           let lde = inst.params.degree_bits + cfg.rate_bits;
                           let idx = (chs.fri_query_indices[0] >> bits) >> (lde - bits - cfg.cap_height.min(lde - bits));
                           p2.commit_phase_merkle_caps[k].0[idx % cap_len].elements[0] += F::ONE; } }
                }
                if !touched || p2 == proof { continue; }
                let code = verify(&inst, &inst.openings, &chs, &p2);
                writeln!(w, "c05 {si} fixed-challenges-edit-{} = {} # code {code}", cl.replace(' ', "-"), (code != 1) as u8).unwrap();
                emit_model(w, &mut dumped, &inst.openings, &chs, &p2, code);
                n += 1;
            }
        }
        // (c2) list-shape edits under fixed challenges: a missing commit-phase cap / beta must be an error
        if !proof.commit_phase_merkle_caps.is_empty() {
            let mut p2 = proof.clone();
            p2.commit_phase_merkle_caps.pop();
            let code = verify(&inst, &inst.openings, &chs, &p2);
            writeln!(w, "c05 {si} fixed-challenges-drop-last-commit-cap = {} # code {code}", (code != 1 && code != 8) as u8).unwrap();
            emit_model(w, &mut dumped, &inst.openings, &chs, &p2, code);
            n += 1;
        }
        // (d) a function of too high degree: commit polynomials of 2n coefficients but claim degree n
        if let (true, Ok(small_params)) = (degree_bits >= 3, catch_unwind(AssertUnwindSafe(|| cfg.fri_params(degree_bits - 1, hiding)))) {
            let refs: Vec<&PolynomialBatch<F, C, D>> = inst.batches.iter().collect();
            // the oracles were committed with rate_bits relative to n; present them as degree n/2 with rate+1
            let mut cfg2 = cfg.clone(); cfg2.rate_bits += 1;
            let params2 = FriParams { config: cfg2.clone(), ..small_params.clone() };
            let inst2_instance = FriInstanceInfo { oracles: inst.instance.oracles.clone(), batches: inst.instance.batches.clone() };
            let mut ch = transcript(&inst, &inst.openings);
            let pr = catch_unwind(AssertUnwindSafe(|| PolynomialBatch::prove_openings(&inst2_instance, &refs, &mut ch, &params2, None, None, &mut TimingTree::default())));
            match pr {
                Ok(p2) => {
                    let mut ch = transcript(&inst, &inst.openings);
                    let c2 = ch.fri_challenges::<C, D>(&p2.commit_phase_merkle_caps, &p2.final_poly, p2.pow_witness, params2.degree_bits, &params2.config, None, None);
                    let caps: Vec<MerkleCap<F, H>> = inst.batches.iter().map(|b| b.merkle_tree.cap.clone()).collect();
                    let v = catch_unwind(AssertUnwindSafe(|| verify_fri_proof::<F, C, D>(&inst2_instance, &inst.openings, &c2, &caps, &p2, &params2)));
                    let accepted = matches!(v, Ok(Ok(())));
                    // acceptance is only legitimate if every committed polynomial really has degree < n/2
                    let low = inst.batches.iter().all(|b| b.polynomials.iter().all(|p| p.coeffs.iter().skip(1 << (degree_bits - 1)).all(|c| c.is_zero())));
                    writeln!(w, "c05 {si} high-degree-folded-honestly = {} # accepted {accepted} all-low-degree {low}", (!accepted || low) as u8).unwrap();
                    n += 1;
                }
                Err(_) => { writeln!(w, "c05 {si} high-degree-folded-honestly = 1 # prover refused (final polynomial does not fit)").unwrap(); n += 1; }
            }
        }
    }
    n += crate::c05b::run(&mut r, tier, w);
    n
}
