//! C15: run the FFT / polynomial algebra / bit-reversal / transpose implementation on generated
//! cases; one case per line `op args.. = results..` (decimal; field elements canonical u64 in the
//! results, arbitrary u64 representations in the arguments; a caught panic is `= panic`).
use std::io::Write;
use std::panic::{catch_unwind, AssertUnwindSafe};

use plonky2_field::cosets::get_unique_coset_shifts;
use plonky2_field::fft::{fft_root_table, fft_with_options, ifft_with_options, FftRootTable};
use plonky2_field::goldilocks_field::GoldilocksField as F;
use plonky2_field::interpolation::{barycentric_weights, interpolant, interpolate, interpolate2};
use plonky2_field::polynomial::{PolynomialCoeffs, PolynomialValues};
use plonky2_field::types::{Field, PrimeField64};
use plonky2_field::zero_poly_coset::ZeroPolyOnCoset;
use plonky2_util::{reverse_index_bits, reverse_index_bits_in_place};

use crate::rng::*;

struct Out<'a> {
    w: &'a mut dyn Write,
    n: usize,
}
impl<'a> Out<'a> {
    fn case(&mut self, op: &str, args: &[u64], f: impl FnOnce() -> Vec<u64>) {
        let r = catch_unwind(AssertUnwindSafe(f));
        let mut line = String::with_capacity(16 + 21 * args.len());
        line.push_str(op);
        for a in args {
            line.push(' ');
            line.push_str(&a.to_string());
        }
        line.push_str(" =");
        match r {
            Ok(v) => {
                for x in v {
                    line.push(' ');
                    line.push_str(&x.to_string());
                }
            }
            Err(_) => line.push_str(" panic"),
        }
        writeln!(self.w, "{}", line).unwrap();
        self.n += 1;
    }
}

fn fs(v: &[u64]) -> Vec<F> {
    v.iter().map(|&x| F(x)).collect()
}
fn us(v: &[F]) -> Vec<u64> {
    v.iter().map(|x| x.to_canonical_u64()).collect()
}
fn cat(parts: &[&[u64]]) -> Vec<u64> {
    parts.iter().flat_map(|p| p.iter().copied()).collect()
}
/// field element representation: mostly canonical uniform, sometimes boundary / non-canonical
fn elt(r: &mut Rng, b: &[u64]) -> u64 {
    match r.below(8) {
        0 => mixed_u64(r, b),
        1 => r.below(3),
        _ => r.next_u64() % P,
    }
}
fn vec_elts(r: &mut Rng, b: &[u64], n: usize) -> Vec<u64> {
    (0..n).map(|_| elt(r, b)).collect()
}
fn nonzero_elt(r: &mut Rng, b: &[u64]) -> u64 {
    loop {
        let x = elt(r, b);
        if x % P != 0 {
            return x;
        }
    }
}

// ------------------------------------------------------------------ util
#[derive(Clone, Copy)]
#[repr(C)]
struct Big<const W: usize>([u64; W]);

/// guard elements on either side of a slice handed to an in-place routine that uses unchecked indexing
const GUARD: usize = 80;
fn guard_id(i: usize) -> u64 { 0x6A5D_0000 + i as u64 }

fn inplace_case<T: Copy>(o: &mut Out, ids: &[u64], mk: impl Fn(u64) -> T, id: impl Fn(&T) -> u64) {
    let sz = std::mem::size_of::<T>() as u64;
    let args = cat(&[&[sz], ids]);
    o.case("revidx_inplace", &args, || {
        // the slice sits between guard elements owned by the harness: a write outside the slice is then seen
        // (and reported with the input) instead of corrupting the allocator's memory
        let n = ids.len();
        let mut v: Vec<T> = (0..GUARD).map(|i| mk(guard_id(i))).chain(ids.iter().map(|&x| mk(x)))
            .chain((GUARD..2 * GUARD).map(|i| mk(guard_id(i)))).collect();
        reverse_index_bits_in_place(&mut v[GUARD..GUARD + n]);
        for i in 0..2 * GUARD {
            let at = if i < GUARD { i } else { n + i };
            if id(&v[at]) != id(&mk(guard_id(i))) { return vec![u64::MAX, 0xBAD_0B, i as u64]; }
        }
        v[GUARD..GUARD + n].iter().map(|t| id(t)).collect()
    });
}

fn guarded_transpose(ids: &[u64], lb_stride: usize, lb_size: usize, x: usize) -> Vec<u64> {
    let n = ids.len();
    let g = GUARD << 3;
    let mut v: Vec<u64> = (0..g).map(guard_id).chain(ids.iter().copied()).chain((g..2 * g).map(guard_id)).collect();
    unsafe { plonky2_util::verif_hooks::transpose_in_place_square(&mut v[g..g + n], lb_stride, lb_size, x) };
    for i in 0..2 * g {
        let at = if i < g { i } else { n + i };
        if v[at] != guard_id(i) { return vec![u64::MAX, 0xBAD_0B, i as u64]; }
    }
    v[g..g + n].to_vec()
}

fn big_case<const W: usize>(o: &mut Out, ids: &[u64]) {
    inplace_case::<Big<W>>(
        o,
        ids,
        |x| {
            let mut a = [0u64; W];
            a[0] = x;
            a[W - 1] = x;
            Big(a)
        },
        |t| {
            assert!(t.0[0] == t.0[W - 1]);
            t.0[0]
        },
    );
}

fn ids_for(r: &mut Rng, n: usize) -> Vec<u64> {
    if r.coin() {
        (0..n as u64).collect()
    } else {
        (0..n).map(|_| r.next_u64() >> 32).collect()
    }
}

fn util_cases(o: &mut Out, r: &mut Rng, thorough: bool) {
    // reverse_bits(n, num_bits)
    for nb in 0..=64u64 {
        for t in 0..3 {
            let n = if nb == 0 {
                0
            } else if nb == 64 {
                r.next_u64()
            } else {
                match t {
                    0 => r.next_u64() & ((1u64 << nb) - 1),
                    1 => (1u64 << nb) - 1,
                    _ => 1,
                }
            };
            o.case("revbits", &[n, nb], || vec![plonky2::verif_hooks::reverse_bits(n as usize, nb as usize) as u64]);
        }
    }
    for _ in 0..40 {
        // bits above num_bits set
        let (n, nb) = (r.next_u64(), r.below(65));
        o.case("revbits", &[n, nb], || vec![plonky2::verif_hooks::reverse_bits(n as usize, nb as usize) as u64]);
    }
    // reverse_index_bits (copying): both the table path (n_power <= 6) and the split path
    let top = if thorough { 14 } else { 11 };
    for lb in 0..=top {
        for _ in 0..(if lb <= 8 { 3 } else { 1 }) {
            let ids = ids_for(r, 1 << lb);
            o.case("revidx", &ids, || reverse_index_bits(&ids));
        }
    }
    for n in [0usize, 3, 5, 6, 7, 12, 63, 65, 96, 100, 129] {
        let ids = ids_for(r, n);
        o.case("revidx", &ids, || reverse_index_bits(&ids));
        inplace_case::<u64>(o, &ids, |x| x, |t| *t);
    }
    // reverse_index_bits_in_place: element sizes 1, 4, 8, 16, 128, 1024, 8192, 16384 bytes;
    // simple path iff size << lb_n <= SMALL_ARR_SIZE (1 << 16) or size >= BIG_T_SIZE (1 << 14)
    let top64 = if thorough { 14 } else { 11 };
    for lb in 0..=top64 {
        for _ in 0..(if lb <= 8 || lb == 14 { 2 } else { 1 }) {
            let ids = ids_for(r, 1 << lb);
            inplace_case::<u64>(o, &ids, |x| x, |t| *t);
        }
    }
    for lb in 0..=(if thorough { 14 } else { 9 }) {
        let ids = ids_for(r, 1 << lb);
        inplace_case::<u32>(o, &ids, |x| x as u32, |t| *t as u64);
    }
    for lb in 0..=(if thorough { 13 } else { 8 }) {
        let ids = ids_for(r, 1 << lb);
        inplace_case::<u128>(o, &ids, |x| (x as u128) | ((x as u128) << 64), |t| *t as u64);
    }
    for lb in 0..=(if thorough { 12 } else { 7 }) {
        let ids = ids_for(r, 1 << lb);
        inplace_case::<u8>(o, &ids.iter().map(|x| x & 0xff).collect::<Vec<_>>(), |x| x as u8, |t| *t as u64);
    }
    // 128-byte elements: chunked path from lb_n = 10
    for lb in (if thorough { 0 } else { 7 })..=(if thorough { 13 } else { 11 }) {
        let ids = ids_for(r, 1 << lb);
        big_case::<16>(o, &ids);
    }
    // 1 KiB elements: chunked path from lb_n = 7
    for lb in 0..=(if thorough { 12 } else { 10 }) {
        let ids = ids_for(r, 1 << lb);
        big_case::<128>(o, &ids);
    }
    // 8 KiB elements: chunked path from lb_n = 4 (even and odd lb_n, tiny transposes)
    for lb in 0..=(if thorough { 11 } else { 9 }) {
        for _ in 0..2 {
            let ids = ids_for(r, 1 << lb);
            big_case::<1024>(o, &ids);
        }
    }
    // 16 KiB elements = BIG_T_SIZE: always the simple path
    for lb in 0..=(if thorough { 10 } else { 8 }) {
        let ids = ids_for(r, 1 << lb);
        big_case::<2048>(o, &ids);
    }
    // transpose_in_place_square(arr, lb_stride, lb_size, x): all indices in range
    let max_size = if thorough { 7 } else { 6 };
    for lb_size in 0..=max_size {
        for extra in 0..3usize {
            if lb_size == 7 && extra == 2 {
                continue; // 2^16 elements: too slow for the list model
            }
            let lb_stride = lb_size + extra;
            for k in 0..3 {
                let room = (1usize << lb_stride) - (1usize << lb_size);
                let x = match k {
                    0 => 0,
                    1 => room,
                    _ => r.below(room as u64 + 1) as usize,
                };
                if k > 0 && room == 0 {
                    continue;
                }
                let side = x + (1 << lb_size);
                let need = ((side - 1) << lb_stride) + side;
                let len = need + (r.below(3) as usize) * (r.below(17) as usize);
                let ids = ids_for(r, len);
                let args = cat(&[&[lb_stride as u64, lb_size as u64, x as u64], &ids]);
                o.case("transpose", &args, || guarded_transpose(&ids, lb_stride, lb_size, x));
            }
        }
    }
    // lb_size > lb_stride (documented as "overlap"; indices still in range of a long enough array)
    for (lb_stride, lb_size, x) in [(0usize, 1usize, 0usize), (1, 2, 0), (1, 3, 1), (2, 4, 0), (3, 5, 2)] {
        let side = x + (1 << lb_size);
        let len = ((side - 1) << lb_stride) + side;
        let ids = ids_for(r, len);
        let args = cat(&[&[lb_stride as u64, lb_size as u64, x as u64], &ids]);
        o.case("transpose", &args, || guarded_transpose(&ids, lb_stride, lb_size, x));
    }
}

// ------------------------------------------------------------------ fft
fn flatten_table(t: &FftRootTable<F>) -> Vec<u64> {
    let mut v = vec![t.len() as u64];
    for row in t {
        v.push(row.len() as u64);
        v.extend(us(row));
    }
    v
}
fn table_args(t: &[Vec<u64>]) -> Vec<u64> {
    let mut v = vec![t.len() as u64];
    for row in t {
        v.push(row.len() as u64);
        v.extend(row.iter().copied());
    }
    v
}
fn to_table(t: &[Vec<u64>]) -> FftRootTable<F> {
    t.iter().map(|row| fs(row)).collect()
}
fn raw_table(n: usize) -> Vec<Vec<u64>> {
    fft_root_table::<F>(n).iter().map(|row| us(row)).collect()
}

fn zero_tail(c: &mut [u64], r: usize) {
    let n = c.len();
    let keep = if r >= 64 { 0 } else { n >> r };
    for x in c.iter_mut().skip(keep) {
        *x = 0;
    }
}

fn fft_cases(o: &mut Out, r: &mut Rng, b: &[u64], thorough: bool) {
    for lg in 0..=9usize {
        o.case("roottable", &[1 << lg], || flatten_table(&fft_root_table::<F>(1 << lg)));
    }
    for n in [0u64, 3, 6, 12, 1 << 32, 1 << 33, 1 << 40] {
        // sizes beyond the two-adicity panic before allocating; 2^32 itself would allocate 2^31 rows: skip
        if n == 1 << 32 {
            continue;
        }
        o.case("roottable", &[n], || flatten_table(&fft_root_table::<F>(n as usize)));
    }
    for k in 0..=34u64 {
        o.case("prou", &[k], || vec![F::primitive_root_of_unity(k as usize).to_canonical_u64()]);
    }
    for k in 0..=7u64 {
        o.case("subgroup", &[k], || us(&F::two_adic_subgroup(k as usize)));
    }
    let top = if thorough { 14 } else { 11 };
    for lg in 0..=top {
        let n = 1usize << lg;
        let reps = if lg <= 6 { 4 } else if lg <= 10 { 2 } else { 1 };
        for rep in 0..reps {
            let c = match rep {
                3 => vec![0u64; n],
                _ => vec_elts(r, b, n),
            };
            o.case("fft", &c, || us(&fft_with_options(PolynomialCoeffs::new(fs(&c)), None, None).values));
            o.case("ifft", &c, || us(&ifft_with_options(PolynomialValues::new(fs(&c)), None, None).coeffs));
        }
        // zero-tail factors r = 0..lg_n (and beyond), with a genuinely zero tail and with a non-zero one
        if lg <= 12 {
            for zr in 0..=(lg + 2) {
                if lg >= 9 && zr % 3 != 1 && zr != lg {
                    continue;
                }
                let mut c = vec_elts(r, b, n);
                zero_tail(&mut c, zr);
                let args = cat(&[&[zr as u64], &c]);
                o.case("fft_r", &args, || us(&fft_with_options(PolynomialCoeffs::new(fs(&c)), Some(zr), None).values));
                o.case("ifft_r", &args, || us(&ifft_with_options(PolynomialValues::new(fs(&c)), Some(zr), None).coeffs));
                if lg <= 7 {
                    let c2 = vec_elts(r, b, n);
                    let args2 = cat(&[&[zr as u64], &c2]);
                    o.case("fft_r", &args2, || {
                        us(&fft_with_options(PolynomialCoeffs::new(fs(&c2)), Some(zr), None).values)
                    });
                }
            }
            for zr in [17usize, 40, 63] {
                if lg <= 4 {
                    let c = vec_elts(r, b, n);
                    let args = cat(&[&[zr as u64], &c]);
                    o.case("fft_r", &args, || us(&fft_with_options(PolynomialCoeffs::new(fs(&c)), Some(zr), None).values));
                }
            }
        }
        // supplied root tables
        if lg <= 10 {
            let c = vec_elts(r, b, n);
            let good = raw_table(n);
            let mut variants: Vec<(Vec<Vec<u64>>, Option<usize>)> = vec![(good.clone(), None)];
            variants.push((raw_table(2 * n), None)); // larger table: wrong length -> panic
            if lg >= 1 {
                variants.push((raw_table(n / 2), None)); // smaller table
                variants.push((raw_table(2 * n)[..lg].to_vec(), None)); // prefix of the larger table: same rows
                let zr = r.below(lg as u64 + 1) as usize;
                variants.push((good.clone(), Some(zr)));
                // rows longer than needed (extra entries must be ignored)
                let mut longer = good.clone();
                for row in longer.iter_mut() {
                    // packed builds (AVX2 / AVX-512) require row lengths divisible by the packing width
                    // (`pack_slice` asserts it): there, extend by multiples of 16 only
                    let packed = cfg!(any(target_feature = "avx2", target_feature = "avx512f", target_feature = "neon"));
                    let extra = if packed { 16 * r.below(3) as usize } else { r.below(4) as usize };
                    for _ in 0..extra {
                        row.push(r.next_u64() % P);
                    }
                }
                variants.push((longer, None));
                // arbitrary contents of the right shape: the transform must use the supplied entries
                let arb: Vec<Vec<u64>> = good.iter().map(|row| vec_elts(r, b, row.len())).collect();
                variants.push((arb, None));
                // one row too short
                let mut short = good.clone();
                let i = r.below(lg as u64) as usize;
                let need = 1usize << i;
                short[i].truncate(need - 1);
                variants.push((short.clone(), None));
                // ... but unused when the zero-tail factor skips that layer
                variants.push((short, Some(i + 1)));
                // empty table
                variants.push((vec![], None));
            }
            for (t, zf) in variants {
                let mut cc = c.clone();
                if let Some(zr) = zf {
                    zero_tail(&mut cc, zr);
                }
                let args = cat(&[&[zf.is_some() as u64, zf.unwrap_or(0) as u64], &table_args(&t), &cc]);
                o.case("fftx", &args, || {
                    let tab = to_table(&t);
                    us(&fft_with_options(PolynomialCoeffs::new(fs(&cc)), zf, Some(&tab)).values)
                });
                o.case("ifftx", &args, || {
                    let tab = to_table(&t);
                    us(&ifft_with_options(PolynomialValues::new(fs(&cc)), zf, Some(&tab)).coeffs)
                });
            }
        }
        // cosets and low-degree extension
        if lg <= 10 {
            for sh in [0u64, 1, F::MULTIPLICATIVE_GROUP_GENERATOR.0, elt(r, b), elt(r, b)] {
                if lg > 7 && sh <= 1 {
                    continue;
                }
                let c = vec_elts(r, b, n);
                let args = cat(&[&[sh], &c]);
                o.case("coset_fft", &args, || us(&PolynomialCoeffs::new(fs(&c)).coset_fft(F(sh)).values));
                o.case("coset_ifft", &args, || us(&PolynomialValues::new(fs(&c)).coset_ifft(F(sh)).coeffs));
                let zr = r.below(lg as u64 + 1) as usize;
                let mut cz = c.clone();
                zero_tail(&mut cz, zr);
                let argz = cat(&[&[sh, zr as u64], &cz]);
                o.case("coset_fft_r", &argz, || {
                    us(&PolynomialCoeffs::new(fs(&cz)).coset_fft_with_options(F(sh), Some(zr), None).values)
                });
            }
        }
        if lg <= 9 {
            for rb in 0..=3usize {
                if lg + rb > 11 {
                    continue;
                }
                let v = vec_elts(r, b, n);
                let args = cat(&[&[rb as u64], &v]);
                o.case("lde", &args, || us(&PolynomialValues::new(fs(&v)).lde(rb).values));
                o.case("lde_coset", &args, || us(&PolynomialValues::new(fs(&v)).lde_onto_coset(rb).values));
                o.case("clde", &args, || us(&PolynomialCoeffs::new(fs(&v)).lde(rb).coeffs));
            }
        }
    }
    // lengths that are not powers of two
    for n in [0usize, 3, 5, 6, 7, 12, 24, 100] {
        let c = vec_elts(r, b, n);
        o.case("fft", &c, || us(&fft_with_options(PolynomialCoeffs::new(fs(&c)), None, None).values));
        o.case("ifft", &c, || us(&ifft_with_options(PolynomialValues::new(fs(&c)), None, None).coeffs));
        let args = cat(&[&[1], &c]);
        o.case("fft_r", &args, || us(&fft_with_options(PolynomialCoeffs::new(fs(&c)), Some(1), None).values));
        o.case("coset_fft", &args, || us(&PolynomialCoeffs::new(fs(&c)).coset_fft(F(1)).values));
        o.case("lde", &args, || us(&PolynomialValues::new(fs(&c)).lde(1).values));
        o.case("clde", &args, || us(&PolynomialCoeffs::new(fs(&c)).lde(1).coeffs));
        if n > 0 {
            let t = raw_table(n.next_power_of_two());
            let argt = cat(&[&[0, 0], &table_args(&t), &c]);
            o.case("fftx", &argt, || {
                let tab = to_table(&t);
                us(&fft_with_options(PolynomialCoeffs::new(fs(&c)), None, Some(&tab)).values)
            });
        }
    }
}

// ------------------------------------------------------------------ polynomials
/// a coefficient vector of a given length from a mixture of shapes
fn poly_shape(r: &mut Rng, b: &[u64], len: usize) -> Vec<u64> {
    let mut c = vec_elts(r, b, len);
    match r.below(8) {
        0 => c.iter_mut().for_each(|x| *x = 0),                       // zero polynomial of that length
        1 => zero_tail(&mut c, 1),                                     // leading zeros (untrimmed)
        2 => c.iter_mut().skip(1).for_each(|x| *x = 0),               // constant
        3 => c.iter_mut().for_each(|x| if *x % 3 != 0 { *x = 0 }),    // sparse
        4 => {
            if let Some(l) = c.last_mut() {
                *l = P; // non-canonical zero as the leading coefficient
            }
        }
        _ => {}
    }
    c
}

fn two(op: &str, o: &mut Out, a: &[u64], bb: &[u64], f: impl FnOnce(&PolynomialCoeffs<F>, &PolynomialCoeffs<F>) -> Vec<u64>) {
    let args = cat(&[&[a.len() as u64], a, bb]);
    o.case(op, &args, || f(&PolynomialCoeffs::new(fs(a)), &PolynomialCoeffs::new(fs(bb))));
}

fn qr_out(q: PolynomialCoeffs<F>, rm: PolynomialCoeffs<F>) -> Vec<u64> {
    let mut v = vec![q.len() as u64];
    v.extend(us(&q.coeffs));
    v.extend(us(&rm.coeffs));
    v
}

fn div_pair(o: &mut Out, a: &[u64], d: &[u64]) {
    two("divrem", o, a, d, |x, y| {
        let (q, rm) = x.div_rem(y);
        qr_out(q, rm)
    });
    two("divremlong", o, a, d, |x, y| {
        let (q, rm) = x.div_rem_long_division(y);
        qr_out(q, rm)
    });
}

fn poly_cases(o: &mut Out, r: &mut Rng, b: &[u64], thorough: bool) {
    let reps = if thorough { 400 } else { 60 };
    let lens: Vec<usize> = vec![0, 0, 1, 1, 2, 3, 4, 5, 7, 8, 9, 15, 16, 17, 31, 33, 40];
    for i in 0..reps {
        let la = if i < lens.len() { lens[i] } else { r.below(if i % 7 == 0 { 300 } else { 40 }) as usize };
        let lb = if i % 5 == 0 { la } else { r.below(if i % 11 == 0 { 200 } else { 24 }) as usize };
        let a = poly_shape(r, b, la);
        let c = poly_shape(r, b, lb);
        two("polyadd", o, &a, &c, |x, y| us(&(x + y).coeffs));
        two("polysub", o, &a, &c, |x, y| us(&(x - y).coeffs));
        two("polymul", o, &a, &c, |x, y| us(&(x * y).coeffs));
        let x = elt(r, b);
        let ax = cat(&[&[x], &a]);
        o.case("eval", &ax, || vec![PolynomialCoeffs::new(fs(&a)).eval(F(x)).to_canonical_u64()]);
        o.case("scalarmul", &ax, || us(&(&PolynomialCoeffs::new(fs(&a)) * F(x)).coeffs));
        o.case("divlin", &ax, || us(&PolynomialCoeffs::new(fs(&a)).divide_by_linear(F(x)).coeffs));
        o.case("trim", &a, || us(&PolynomialCoeffs::new(fs(&a)).trimmed().coeffs));
        o.case("trim", &a, || {
            let mut p = PolynomialCoeffs::new(fs(&a));
            p.trim();
            us(&p.coeffs)
        });
        o.case("degp1", &a, || vec![PolynomialCoeffs::new(fs(&a)).degree_plus_one() as u64]);
        o.case("lead", &a, || vec![PolynomialCoeffs::new(fs(&a)).lead().to_canonical_u64()]);
        let tl = r.below(la as u64 + 3);
        let at = cat(&[&[tl], &a]);
        o.case("trimlen", &at, || {
            let mut p = PolynomialCoeffs::new(fs(&a));
            match p.trim_to_len(tl as usize) {
                Ok(()) => std::iter::once(1).chain(us(&p.coeffs)).collect(),
                Err(_) => vec![0],
            }
        });
        o.case("padded", &at, || us(&PolynomialCoeffs::new(fs(&a)).padded(tl as usize).coeffs));
        // eval_with_powers: powers x, x^2, ..; equal lengths (the release build truncates otherwise)
        if la >= 1 {
            let pw: Vec<u64> = F(x).powers().skip(1).take(la - 1).map(|p| p.to_canonical_u64()).collect();
            let ap = cat(&[&[la as u64], &a, &pw]);
            o.case("evalpow", &ap, || {
                vec![PolynomialCoeffs::new(fs(&a)).eval_with_powers(&fs(&pw)).to_canonical_u64()]
            });
        }
    }
    o.case("evalpow", &[0], || vec![PolynomialCoeffs::<F>::new(vec![]).eval_with_powers(&[]).to_canonical_u64()]);

    // division with remainder
    let dreps = if thorough { 500 } else { 80 };
    for i in 0..dreps {
        let la = r.below(if i % 9 == 0 { 150 } else { 36 }) as usize;
        let lb = match i % 6 {
            0 => la,                           // equal length
            1 => la + 1 + r.below(3) as usize, // divisor of larger degree
            2 => 1,                            // constant divisor
            _ => r.below(12) as usize,
        };
        let a = poly_shape(r, b, la);
        let d = poly_shape(r, b, lb);
        div_pair(o, &a, &d);
    }
    // structured divisors: X^k, X^k + c, X^2 - 1, sparse; dividends that are multiples of X * divisor
    let neg1 = P - 1;
    let structured: Vec<Vec<u64>> = vec![
        vec![neg1, 0, 1],
        vec![1, 0, 1],
        vec![0, 0, 1],
        vec![0, 1],
        vec![5, 0, 0, 1],
        vec![1, 0, 0, 0, neg1],
        vec![1, 1],
        vec![neg1, 1],
        vec![3, 0, 0, 0, 0, 0, 0, 0, 1],
        vec![1, 0, 1, 0, 0],
        vec![0],
        vec![],
        vec![0, 0],
    ];
    for d in &structured {
        for la in [0usize, 1, 2, 3, 4, 5, 6, 7, 8, 9, 10, 13, 17, 20, 33] {
            let a = vec_elts(r, b, la);
            div_pair(o, &a, d);
        }
        // a = X^s * d * m for a random m: the quotient has zero low-order coefficients
        for s in 1..=3usize {
            let ml = 1 + r.below(5) as usize;
            let m = vec_elts(r, b, ml);
            let prod = &PolynomialCoeffs::new(fs(d)) * &PolynomialCoeffs::new(fs(&m));
            let mut a = vec![0u64; s];
            a.extend(us(&prod.trimmed().coeffs));
            div_pair(o, &a, d);
        }
    }
    div_pair(o, &[0, 1, 0, 1], &[1, 0, 1]); // (X^3 + X) / (X^2 + 1)
    // inv_mod_xn
    for i in 0..(if thorough { 200 } else { 50 }) {
        let lp = 1 + r.below(14) as usize;
        let mut p = poly_shape(r, b, lp);
        if i % 8 != 0 {
            p[0] = nonzero_elt(r, b);
        }
        let n = r.below(20);
        let args = cat(&[&[n], &p]);
        o.case("invmodxn", &args, || us(&PolynomialCoeffs::new(fs(&p)).inv_mod_xn(n as usize).coeffs));
    }
    for p in [vec![1, 0, neg1], vec![1, 0, 0, 5], vec![2, 0, 0, 0, 0, 1], vec![1, 1], vec![7], vec![], vec![0, 1], vec![1, 0, 0]] {
        for n in 0..=18u64 {
            let args = cat(&[&[n], &p]);
            o.case("invmodxn", &args, || us(&PolynomialCoeffs::new(fs(&p)).inv_mod_xn(n as usize).coeffs));
        }
    }
}

// ------------------------------------------------------------------ interpolation, Z_H on cosets, shifts
fn distinct_points(r: &mut Rng, b: &[u64], n: usize, on_subgroup: bool) -> Vec<u64> {
    let mut xs: Vec<u64> = Vec::new();
    let sub = F::two_adic_subgroup(5);
    while xs.len() < n {
        let x = if on_subgroup && r.coin() { sub[r.below(32) as usize].0 } else { elt(r, b) % P };
        if !xs.contains(&x) {
            xs.push(x);
        }
    }
    let mut v = Vec::new();
    for x in xs {
        v.push(x);
        v.push(elt(r, b));
    }
    v
}
fn points_of(v: &[u64]) -> Vec<(F, F)> {
    v.chunks(2).map(|c| (F(c[0]), F(c[1]))).collect()
}

fn interp_cases(o: &mut Out, r: &mut Rng, b: &[u64], thorough: bool) {
    let reps = if thorough { 20 } else { 4 };
    for n in 0..=18usize {
        for rep in 0..reps {
            let pts = distinct_points(r, b, n, rep % 2 == 1);
            o.case("interp", &pts, || us(&interpolant(&points_of(&pts)).coeffs));
            o.case("baryw", &pts, || us(&barycentric_weights(&points_of(&pts))));
            for k in 0..2 {
                // on a node and off the nodes
                let x = if k == 0 && n > 0 { pts[2 * (r.below(n as u64) as usize)] } else { elt(r, b) };
                let args = cat(&[&[x], &pts]);
                o.case("interpolate", &args, || {
                    let p = points_of(&pts);
                    let w = barycentric_weights(&p);
                    vec![interpolate(&p, F(x), &w).to_canonical_u64()]
                });
            }
        }
    }
    // repeated abscissa: barycentric weights divide by zero
    for n in 2..=6usize {
        let mut pts = distinct_points(r, b, n, false);
        pts[2] = pts[0];
        o.case("interp", &pts, || us(&interpolant(&points_of(&pts)).coeffs));
        o.case("baryw", &pts, || us(&barycentric_weights(&points_of(&pts))));
    }
    for i in 0..(if thorough { 200 } else { 30 }) {
        let mut a = vec_elts(r, b, 5);
        if i % 10 == 0 {
            a[2] = a[0];
        }
        if i % 10 == 1 {
            a[0] = 5;
            a[2] = P + 5; // same element, different representation
        }
        o.case("interp2", &a, || {
            vec![interpolate2([(F(a[0]), F(a[1])), (F(a[2]), F(a[3]))], F(a[4])).to_canonical_u64()]
        });
    }
    for n_log in 0..=(if thorough { 20 } else { 12 }) {
        for rate_bits in 0..=4usize {
            o.case("zpoc", &[n_log as u64, rate_bits as u64], || {
                let z = ZeroPolyOnCoset::<F>::new(n_log, rate_bits);
                let rate = 1usize << rate_bits;
                let mut v: Vec<u64> = (0..rate).map(|i| z.eval(i).to_canonical_u64()).collect();
                v.extend((0..rate).map(|i| z.eval_inverse(i).to_canonical_u64()));
                v
            });
            for k in 0..2 {
                let i = r.below(1 << 20);
                let x = if k == 0 && n_log % 4 == 0 { 1 } else { elt(r, b) };
                o.case("zpoc_l0", &[n_log as u64, rate_bits as u64, i, x], || {
                    let z = ZeroPolyOnCoset::<F>::new(n_log, rate_bits);
                    vec![
                        z.eval(i as usize).to_canonical_u64(),
                        z.eval_inverse(i as usize).to_canonical_u64(),
                        z.eval_l_0(i as usize, F(x)).to_canonical_u64(),
                    ]
                });
            }
        }
    }
    for k in [0u64, 1, 5, 20, 31, 32, 33] {
        for ns in [0u64, 1, 2, 7, 80] {
            o.case("cosetshifts", &[1 << k, ns], || us(&get_unique_coset_shifts::<F>(1usize << k, ns as usize)));
        }
    }
}

pub fn run(seed: u64, tier: &str, w: &mut dyn Write) -> usize {
    let mut r = Rng::new(seed ^ 0xC15);
    let b = boundary_u64();
    let thorough = tier == "thorough";
    let mut o = Out { w, n: 0 };
    util_cases(&mut o, &mut r, thorough);
    fft_cases(&mut o, &mut r, &b, thorough);
    poly_cases(&mut o, &mut r, &b, thorough);
    interp_cases(&mut o, &mut r, &b, thorough);
    o.n
}
