//! Verification harness: runs the plonky2 implementation on generated cases and writes
//! line-oriented case files for the Coq model (extracted OCaml / in-Coq vm_compute) to replay.
mod c01;
mod c02;
mod c08;
mod c09;
mod c10;
mod c03;
mod c04;
mod c04s;
mod c05;
mod c05b;
mod c06;
mod c07;
mod c07d4;
mod c11;
mod c20;
mod c12;
mod c12k;
mod c13;
mod c13k;
mod c14;
mod c15;
mod c16;
mod c16b;
mod c17;
mod c19;
mod c18;
mod corpus;
mod dsl;
mod kcfg;
mod rng;

use std::io::{BufWriter, Write};

pub fn dsl_f_one() -> plonky2::field::goldilocks_field::GoldilocksField {
    <plonky2::field::goldilocks_field::GoldilocksField as plonky2::field::types::Field>::ONE
}

fn main() {
    let args: Vec<String> = std::env::args().collect();
    if args.len() < 5 {
        eprintln!("usage: verif_harness <prop> <seed> <tier> <outfile> [extra..]");
        std::process::exit(2);
    }
    // silence panic messages of caught panics (they are outcomes, not errors)
    if std::env::var("VERIF_PANIC").is_err() {
        // caught panics are outcomes, not errors: record where they happened, print nothing
        std::panic::set_hook(Box::new(|info| {
            let loc = info.location().map(|l| format!("{}:{}", l.file(), l.line())).unwrap_or_default();
            let msg = if let Some(s) = info.payload().downcast_ref::<&str>() { s.to_string() }
                      else if let Some(s) = info.payload().downcast_ref::<String>() { s.clone() } else { String::new() };
            *rng::LAST_PANIC.lock().unwrap() = (loc, msg);
        }));
    }
    let prop = args[1].as_str();
    let seed: u64 = args[2].parse().expect("seed");
    let tier = args[3].as_str();
    let f = std::fs::File::create(&args[4]).expect("create outfile");
    let mut w = BufWriter::new(f);
    let n = match std::panic::catch_unwind(std::panic::AssertUnwindSafe(|| match prop {
        "c14" => c14::run(seed, tier, &mut w),
        "c01" => c01::run(seed, tier, &mut w),
        "c02" => c02::run(seed, tier, &mut w),
        "c08" => c08::run(seed, tier, &mut w),
        "c09" => c09::run(seed, tier, &mut w),
        "c18stark" => c09::run_c18stark(seed, tier, &mut w),
        "c10" => c10::run(seed, tier, &mut w),
        // the malformed-input lines of the multi-table entry alone (judged by C18)
        "c18ctl" => {
            let mut buf: Vec<u8> = vec![];
            c10::run(seed, "quick", &mut buf);
            let mut k = 0;
            for line in String::from_utf8_lossy(&buf).lines().filter(|l| l.starts_with("c18ctl ")) { writeln!(w, "{line}").unwrap(); k += 1; }
            k
        }
        "c18" => c18::run(seed, tier, &mut w),
        "c03" => c03::run(seed, tier, &mut w),
        "c16" => c16::run(seed, tier, &mut w),
        "c04" => c04::run(seed, tier, &mut w),
        "c05" => c05::run(seed, tier, &mut w),
        "c12" => c12::run(seed, tier, &mut w),
        "c13" => c13::run(seed, tier, &mut w),
        "c15" => c15::run(seed, tier, &mut w),
        "c17" => c17::run(seed, tier, &mut w),
        "c19" => c19::run(seed, tier, &mut w),
        "c06" => c06::run(seed, tier, &mut w),
        "c07" => c07::run(seed, tier, &mut w),
        "c11" => c11::run(seed, tier, &mut w),
        "c20" => c20::run(seed, tier, &mut w),
        _ => {
            eprintln!("unknown property {}", prop);
            std::process::exit(2);
        }
    })) {
        Ok(n) => n,
        Err(_) => {
            // a panic that no case caught: say where (the hook keeps expected panics quiet)
            let (loc, msg) = rng::LAST_PANIC.lock().unwrap().clone();
            eprintln!("harness panicked outside a case: {loc}: {msg}");
            std::process::exit(101);
        }
    };
    w.flush().unwrap();
    println!("cases {}", n);
}
