//! C04: Fiat-Shamir challenges depend on the whole statement and prior transcript.
//! Lines:
//!   challenges <dump> = <all challenges in drawing order>          (Model/Plonk.v run_challenges replays)
//!   c04 <base> <component> <position> = <1|0> # detail             (sensitivity sweep: 1 = every challenge
//!        drawn after the component changed and every challenge drawn before it did not)
use std::io::Write;

use plonky2::field::extension::Extendable;
use plonky2::field::goldilocks_field::GoldilocksField as F;
use plonky2::field::types::{Field, PrimeField64};
use plonky2::hash::hash_types::HashOut;
use plonky2::plonk::circuit_data::CommonCircuitData;
use plonky2::plonk::proof::ProofChallenges;

use crate::corpus::*;
use crate::dsl::D;
use crate::rng::Rng;

/// challenges grouped by drawing stage:
/// 0: betas, gammas, extra deltas (after wires cap)   1: alphas (after Z cap)   2: zeta (after quotient cap)
/// 3: fri alpha (after openings)   4+i: fri beta i (after commit cap i)   last: pow response + query indices
pub fn stages(ch: &ProofChallenges<F, D>) -> Vec<Vec<u64>> {
    let e = |x: &<F as Extendable<D>>::Extension| vec![x.0[0].to_canonical_u64(), x.0[1].to_canonical_u64()];
    let mut st = vec![];
    let mut s0: Vec<u64> = ch.plonk_betas.iter().chain(ch.plonk_gammas.iter()).map(|x| x.to_canonical_u64()).collect();
    s0.extend(ch.plonk_deltas.iter().map(|x| x.to_canonical_u64()));
    st.push(s0);
    st.push(ch.plonk_alphas.iter().map(|x| x.to_canonical_u64()).collect());
    st.push(e(&ch.plonk_zeta));
    st.push(e(&ch.fri_challenges.fri_alpha));
    for b in &ch.fri_challenges.fri_betas { st.push(e(b)); }
    let mut last = vec![ch.fri_challenges.fri_pow_response.to_canonical_u64()];
    last.extend(ch.fri_challenges.fri_query_indices.iter().map(|x| *x as u64));
    st.push(last);
    st
}

fn flat(ch: &ProofChallenges<F, D>) -> Vec<u64> {
    let e = |x: &<F as Extendable<D>>::Extension| vec![x.0[0].to_canonical_u64(), x.0[1].to_canonical_u64()];
    let mut o: Vec<u64> = ch.plonk_betas.iter().chain(ch.plonk_gammas.iter()).chain(ch.plonk_alphas.iter())
        .chain(ch.plonk_deltas.iter()).map(|x| x.to_canonical_u64()).collect();
    o.extend(e(&ch.plonk_zeta));
    o.extend(e(&ch.fri_challenges.fri_alpha));
    for b in &ch.fri_challenges.fri_betas { o.extend(e(b)); }
    o.push(ch.fri_challenges.fri_pow_response.to_canonical_u64());
    o.extend(ch.fri_challenges.fri_query_indices.iter().map(|x| *x as u64));
    o
}

fn challenges_of(p: &Pwpi, digest: &HashOut<F>, common: &CommonCircuitData<F, D>) -> ProofChallenges<F, D> {
    p.get_challenges(p.get_public_inputs_hash_pub(), digest, common).unwrap()
}

trait PiHash { fn get_public_inputs_hash_pub(&self) -> HashOut<F>; }
impl PiHash for Pwpi {
    fn get_public_inputs_hash_pub(&self) -> HashOut<F> {
        use plonky2::plonk::config::Hasher;
        H::hash_no_pad(&self.public_inputs)
    }
}

/// every stage >= first_changed must differ in every full-field challenge; every earlier stage must be equal.
/// The last stage holds the PoW response (full field) and the query indices (small range: only
/// the vector as a whole is required to differ).
pub fn compare(base: &[Vec<u64>], new: &[Vec<u64>], first_changed: usize) -> (bool, String) {
    if base.len() != new.len() { return (false, "stage count differs".into()); }
    for (i, (a, b)) in base.iter().zip(new.iter()).enumerate() {
        if i < first_changed {
            if a != b { return (false, format!("stage {i} changed although drawn before the component")); }
        } else if i + 1 == base.len() {
            if a[0] == b[0] { return (false, "pow response unchanged".into()); }
            if a.len() > 4 && a[1..] == b[1..] { return (false, "query indices unchanged".into()); }
        } else {
            for (x, y) in a.iter().zip(b.iter()) {
                if x == y { return (false, format!("a challenge of stage {i} did not change")); }
            }
        }
    }
    (true, String::new())
}

pub fn run(seed: u64, tier: &str, w: &mut dyn Write) -> usize {
    let mut r = Rng::new(seed ^ 0xC04);
    let cfgs = configs();
    let mut n = 0;
    let bases: Vec<(usize, u32)> = if tier == "thorough" { vec![(0, 7), (3, 31), (6, 3), (1, 15), (4, 17), (2, 1), (5, 31)] } else { vec![(0, 7), (3, 31), (6, 19)] };
    for (bi, (ci, kinds)) in bases.iter().enumerate() {
        let p = gen_program(&mut r, 10 + 7 * bi, *kinds);
        let b = match build_and_prove(&p, &cfgs[*ci].1) { Ok(b) => b, Err(_) => continue };
        let digest = b.data.verifier_only.circuit_digest;
        let common = &b.data.common;
        let base_ch = challenges_of(&b.proof, &digest, common);
        // model replay of the challenges
        let mut o = vec![];
        if dump_common(&mut o, common).is_ok() {
            dump_verifier_only(&mut o, &b.data.verifier_only);
            dump_proof(&mut o, &b.proof);
            writeln!(w, "{}", line("challenges", &o, &flat(&base_ch).iter().map(|x| x.to_string()).collect::<Vec<_>>().join(" "))).unwrap();
            n += 1;
        }
        let base = stages(&base_ch);
        let nst = base.len();
        let mut emit = |w: &mut dyn Write, comp: &str, pos: usize, q: &Pwpi, dg: &HashOut<F>, cd: &CommonCircuitData<F, D>, first: usize| {
            let new = stages(&challenges_of(q, dg, cd));
            let (ok, why) = compare(&base, &new, first);
            writeln!(w, "c04 {bi} {comp} {pos} = {} # {why}", ok as u8).unwrap();
        };
        // statement: digest limbs, public inputs, FRI / degree parameters  -> everything changes
        for k in 0..4 {
            let mut dg = digest; dg.elements[k] += F::ONE;
            emit(w, "digest", k, &b.proof, &dg, common, 0); n += 1;
        }
        for k in 0..b.proof.public_inputs.len() {
            let mut q = b.proof.clone(); q.public_inputs[k] += F::ONE;
            emit(w, "public_input", k, &q, &digest, common, 0); n += 1;
        }
        {
            // informational: hash_no_pad is not length-separating (an appended zero inside the first
            // rate block gives the same hash); harmless because the number of public inputs is fixed
            // by the circuit and checked by shape validation
            let mut q = b.proof.clone(); q.public_inputs.push(F::ZERO);
            let new = stages(&challenges_of(&q, &digest, common));
            writeln!(w, "c04info {bi} public_input_appended_zero = {}", (new != base) as u8).unwrap();
        }
        for k in 0..8 {
            let mut cd = common.clone();
            match k {
                0 => cd.fri_params.config.rate_bits += 1,
                1 => cd.fri_params.config.cap_height += 1,
                2 => cd.fri_params.config.proof_of_work_bits += 1,
                3 => cd.fri_params.config.num_query_rounds += 1,
                4 => cd.fri_params.hiding = !cd.fri_params.hiding,
                5 => cd.fri_params.degree_bits += 1,
                6 => { if let Some(x) = cd.fri_params.reduction_arity_bits.first_mut() { *x += 1 } else { cd.fri_params.reduction_arity_bits.push(1) } }
                _ => cd.fri_params.config.reduction_strategy = plonky2::fri::reduction_strategies::FriReductionStrategy::Fixed(vec![9, 9]),
            }
            // the number of query indices may change with num_query_rounds: compare common prefix only
            let new = stages(&challenges_of(&b.proof, &digest, &cd));
            let mut new2 = new.clone();
            if k == 3 { let l = new2.len() - 1; new2[l].truncate(base[l].len()); }
            let (ok, why) = compare(&base, &new2, 0);
            writeln!(w, "c04 {bi} fri_param {k} = {} # {why}", ok as u8).unwrap();
            n += 1;
        }
        // prover messages, in transcript order
        let sample = |r: &mut Rng, len: usize, k: usize| -> Vec<usize> {
            if tier == "thorough" || len <= k { (0..len).collect() } else { let mut v = vec![0, len - 1]; for _ in 0..k { v.push(r.below(len as u64) as usize) } v }
        };
        macro_rules! cap_sweep { ($name:expr, $field:ident, $first:expr) => {
            let len = b.proof.proof.$field.0.len() * 4;
            for pos in sample(&mut r, len, 6) {
                let mut q = b.proof.clone(); q.proof.$field.0[pos / 4].elements[pos % 4] += F::ONE;
                emit(w, $name, pos, &q, &digest, common, $first); n += 1;
            }
        } }
        cap_sweep!("wires_cap", wires_cap, 0);
        cap_sweep!("zs_partial_products_cap", plonk_zs_partial_products_cap, 1);
        cap_sweep!("quotient_polys_cap", quotient_polys_cap, 2);
        macro_rules! opening_sweep { ($name:expr, $field:ident) => {
            let len = b.proof.proof.openings.$field.len() * 2;
            for pos in sample(&mut r, len, 4) {
                let mut q = b.proof.clone(); q.proof.openings.$field[pos / 2].0[pos % 2] += F::ONE;
                emit(w, $name, pos, &q, &digest, common, 3); n += 1;
            }
        } }
        opening_sweep!("openings.constants", constants);
        opening_sweep!("openings.plonk_sigmas", plonk_sigmas);
        opening_sweep!("openings.wires", wires);
        opening_sweep!("openings.plonk_zs", plonk_zs);
        opening_sweep!("openings.plonk_zs_next", plonk_zs_next);
        opening_sweep!("openings.partial_products", partial_products);
        opening_sweep!("openings.quotient_polys", quotient_polys);
        opening_sweep!("openings.lookup_zs", lookup_zs);
        opening_sweep!("openings.lookup_zs_next", lookup_zs_next);
        let ncaps = b.proof.proof.opening_proof.commit_phase_merkle_caps.len();
        for ci2 in 0..ncaps {
            let len = b.proof.proof.opening_proof.commit_phase_merkle_caps[ci2].0.len() * 4;
            for pos in sample(&mut r, len, 4) {
                let mut q = b.proof.clone();
                q.proof.opening_proof.commit_phase_merkle_caps[ci2].0[pos / 4].elements[pos % 4] += F::ONE;
                emit(w, &format!("commit_cap_{ci2}"), pos, &q, &digest, common, 4 + ci2); n += 1;
            }
        }
        let flen = b.proof.proof.opening_proof.final_poly.coeffs.len() * 2;
        for pos in sample(&mut r, flen, 6) {
            let mut q = b.proof.clone(); q.proof.opening_proof.final_poly.coeffs[pos / 2].0[pos % 2] += F::ONE;
            emit(w, "final_poly", pos, &q, &digest, common, nst - 1); n += 1;
        }
        {
            let mut q = b.proof.clone(); q.proof.opening_proof.pow_witness += F::ONE;
            emit(w, "pow_witness", 0, &q, &digest, common, nst - 1); n += 1;
        }
        // query-round data are NOT part of the transcript: no challenge may change
        {
            let mut q = b.proof.clone();
            q.proof.opening_proof.query_round_proofs[0].initial_trees_proof.evals_proofs[1].0[0] += F::ONE;
            let new = stages(&challenges_of(&q, &digest, common));
            writeln!(w, "c04 {bi} query_data_not_in_transcript 0 = {}", (new == base) as u8).unwrap();
            n += 1;
        }
    }
    // Keccak configuration (bytes -> field packing of digests is part of the transcript)
    for (k, ci) in [3usize, 0].iter().enumerate() {
        n += crate::kcfg::c04_keccak(&mut r, tier, w, &cfgs[*ci].1, k);
        if tier != "thorough" { break; }
    }
    n += crate::c04s::run(&mut r, tier, w);
    n
}
