//! C12: run the real Merkle tree code (MerkleTree, BatchMerkleTree, verify_*_to_cap, path
//! compression) on generated cases; one case per line `op args.. = results..` (decimal).
//! Hasher id (first argument): 0 = PoseidonHash, 1 = ToyHash (a cheap `Hasher` defined here and,
//! identically, in coq/Model/MerklePoseidonInst.v and tools/spec_c12.py).
//! Only OBSERVABLE results are written (cap, proofs, verdicts), never the digests array.
use std::io::Write;
use std::panic::{catch_unwind, AssertUnwindSafe};

use plonky2::hash::batch_merkle_tree::BatchMerkleTree;
use plonky2::hash::hash_types::HashOut;
use plonky2::hash::merkle_proofs::{
    verify_batch_merkle_proof_to_cap, verify_merkle_proof_to_cap, MerkleProof,
};
use plonky2::hash::merkle_tree::{MerkleCap, MerkleTree};
use plonky2::hash::poseidon::{PoseidonHash, PoseidonPermutation};
use plonky2::plonk::config::Hasher;
use plonky2::verif_hooks as ph;
use plonky2_field::goldilocks_field::GoldilocksField as F;
use plonky2_field::types::{Field, PrimeField64};

use crate::rng::*;

/// Cheap, non-cryptographic hasher with the same shape as PoseidonHash (HashOut digests,
/// default `hash_or_noop`): lets the whole tree logic run inside Coq.
#[derive(Copy, Clone, Debug, Eq, PartialEq)]
pub struct ToyHash;

const PP: u128 = P as u128;

impl Hasher<F> for ToyHash {
    const HASH_SIZE: usize = 4 * 8;
    type Hash = HashOut<F>;
    type Permutation = PoseidonPermutation<F>;

    fn hash_no_pad(input: &[F]) -> HashOut<F> {
        let mut e = [F::ZERO; 4];
        for j in 0..4u128 {
            let mut acc: u128 = j + 1;
            for x in input {
                acc = (acc * (31 + j) + x.to_canonical_u64() as u128 + 7) % PP;
            }
            e[j as usize] = F::from_canonical_u64(acc as u64);
        }
        HashOut { elements: e }
    }

    fn two_to_one(l: HashOut<F>, r: HashOut<F>) -> HashOut<F> {
        let a: Vec<u128> = l.elements.iter().map(|x| x.to_canonical_u64() as u128).collect();
        let b: Vec<u128> = r.elements.iter().map(|x| x.to_canonical_u64() as u128).collect();
        let mut e = [F::ZERO; 4];
        for j in 0..4 {
            let v = (a[j] * 31 % PP + b[(j + 1) % 4] * 17 % PP + a[(j + 2) % 4] * b[j] % PP + 7 + j as u128) % PP;
            e[j] = F::from_canonical_u64(v as u64);
        }
        HashOut { elements: e }
    }
}

struct Out<'a> {
    w: &'a mut dyn Write,
    n: usize,
}

impl<'a> Out<'a> {
    fn case(&mut self, op: &str, args: &[u64], f: impl FnOnce() -> Vec<u64>) -> Option<Vec<u64>> {
        let r = catch_unwind(AssertUnwindSafe(f));
        let a = args.iter().map(|x| x.to_string()).collect::<Vec<_>>().join(" ");
        let (s, ret) = match r {
            Ok(v) => (v.iter().map(|x| x.to_string()).collect::<Vec<_>>().join(" "), Some(v)),
            Err(_) => ("panic".to_string(), None),
        };
        writeln!(self.w, "{} {} = {}", op, a, s).unwrap();
        self.n += 1;
        ret
    }
}

fn fl(x: &[F]) -> Vec<u64> {
    x.iter().map(|e| e.0).collect() // raw representation (may be non-canonical) as input
}
fn dg(h: &HashOut<F>) -> Vec<u64> {
    h.elements.iter().map(|e| e.to_canonical_u64()).collect()
}
fn dgs(hs: &[HashOut<F>]) -> Vec<u64> {
    hs.iter().flat_map(dg).collect()
}
fn lp(ps: &[Vec<HashOut<F>>]) -> Vec<u64> {
    let mut v = vec![];
    for p in ps {
        v.push(p.len() as u64);
        v.extend(dgs(p));
    }
    v
}

/// leaf element: mixture of small values, boundary representations and uniform u64
fn elem(r: &mut Rng, b: &[u64]) -> F {
    match r.below(8) {
        0 => F(r.below(4)),
        1 => F(*r.pick(b)),
        _ => F(r.next_u64()),
    }
}

fn rand_leaves(r: &mut Rng, b: &[u64], n: usize, w: usize) -> Vec<Vec<F>> {
    let mut v: Vec<Vec<F>> = (0..n).map(|_| (0..w).map(|_| elem(r, b)).collect()).collect();
    // sometimes repeat a leaf so that "other position, same leaf" occurs
    if n >= 4 && r.below(3) == 0 {
        let (i, j) = (r.below(n as u64) as usize, r.below(n as u64) as usize);
        v[i] = v[j].clone();
    }
    v
}

fn rand_digest(r: &mut Rng) -> HashOut<F> {
    HashOut { elements: [F(r.next_u64() % P), F(r.next_u64() % P), F(r.next_u64() % P), F(r.next_u64() % P)] }
}

fn verify_case<H: Hasher<F, Hash = HashOut<F>>>(
    o: &mut Out,
    hid: u64,
    leaf: &[F],
    i: usize,
    cap: &[HashOut<F>],
    sibs: &[HashOut<F>],
) -> Option<Vec<u64>> {
    let mut a = vec![hid, i as u64, leaf.len() as u64, cap.len() as u64, sibs.len() as u64];
    a.extend(fl(leaf));
    a.extend(dgs(cap));
    a.extend(dgs(sibs));
    o.case("verify", &a, || {
        let r = verify_merkle_proof_to_cap::<F, H>(
            leaf.to_vec(),
            i,
            &MerkleCap(cap.to_vec()),
            &MerkleProof { siblings: sibs.to_vec() },
        );
        vec![r.is_ok() as u64]
    })
}

fn tree_args(hid: u64, h: usize, leaves: &[Vec<F>], extra: &[u64]) -> Vec<u64> {
    let w = leaves.first().map(|l| l.len()).unwrap_or(0);
    let mut a = vec![hid, h as u64, leaves.len() as u64, w as u64];
    a.extend_from_slice(extra);
    for l in leaves {
        a.extend(fl(l));
    }
    a
}

fn flip_limb(r: &mut Rng, d: &HashOut<F>) -> HashOut<F> {
    let mut e = d.elements;
    let j = r.below(4) as usize;
    e[j] = match r.below(3) {
        0 => e[j] + F::ONE,
        1 => F(e[j].to_canonical_u64() ^ (1u64 << r.below(63))),
        _ => -e[j] + F::TWO,
    };
    HashOut { elements: e }
}

/// one tree: cap, all openings, honest verification and the negative cases
fn tree_cases<H: Hasher<F, Hash = HashOut<F>>>(
    o: &mut Out,
    r: &mut Rng,
    b: &[u64],
    hid: u64,
    k: usize,
    w: usize,
    h: usize,
    max_pos: usize,
) {
    let n = 1usize << k;
    let leaves = rand_leaves(r, b, n, w);
    let tree = match catch_unwind(AssertUnwindSafe(|| MerkleTree::<F, H>::new(leaves.clone(), h))) {
        Ok(t) => Some(t),
        Err(_) => None,
    };
    o.case("cap", &tree_args(hid, h, &leaves, &[]), || dgs(&tree.as_ref().unwrap().cap.0));
    let tree = match tree {
        Some(t) => t,
        None => return,
    };
    o.case("proveall", &tree_args(hid, h, &leaves, &[]), || {
        (0..n).flat_map(|i| dgs(&tree.prove(i).siblings)).collect()
    });
    let cap = tree.cap.0.clone();
    let positions: Vec<usize> = if n <= max_pos {
        (0..n).collect()
    } else {
        let mut v = vec![0, n - 1, n / 2, n / 2 - 1];
        while v.len() < max_pos {
            v.push(r.below(n as u64) as usize);
        }
        v
    };
    for &i in &positions {
        let p = tree.prove(i).siblings;
        // honest
        verify_case::<H>(o, hid, &leaves[i], i, &cap, &p);
        // other leaf: another committed leaf, and a one-element change
        let j = (i + 1 + r.below(n as u64) as usize) % n;
        verify_case::<H>(o, hid, &leaves[j], i, &cap, &p);
        if w > 0 {
            let mut l2 = leaves[i].clone();
            let c = r.below(w as u64) as usize;
            l2[c] += F::ONE;
            verify_case::<H>(o, hid, &l2, i, &cap, &p);
        }
        // same prefix, other width (short leaves are zero-padded, not hashed)
        let mut l3 = leaves[i].clone();
        l3.push(F::ZERO);
        verify_case::<H>(o, hid, &l3, i, &cap, &p);
        // other index: neighbour, random, and out of range (cap index panics)
        verify_case::<H>(o, hid, &leaves[i], i ^ 1, &cap, &p);
        verify_case::<H>(o, hid, &leaves[i], r.below(n as u64) as usize, &cap, &p);
        verify_case::<H>(o, hid, &leaves[i], i + n, &cap, &p);
        // altered sibling
        if !p.is_empty() {
            let mut p2 = p.clone();
            let c = r.below(p.len() as u64) as usize;
            p2[c] = flip_limb(r, &p2[c]);
            verify_case::<H>(o, hid, &leaves[i], i, &cap, &p2);
            // swapped / truncated / extended proof
            let mut p3 = p.clone();
            p3.pop();
            verify_case::<H>(o, hid, &leaves[i], i, &cap, &p3);
        }
        let mut p4 = p.clone();
        p4.push(rand_digest(r));
        verify_case::<H>(o, hid, &leaves[i], i, &cap, &p4);
        // altered cap entry: on the path and (if any) off the path
        let ci = i >> (k - h);
        let mut cap2 = cap.clone();
        cap2[ci] = flip_limb(r, &cap2[ci]);
        verify_case::<H>(o, hid, &leaves[i], i, &cap2, &p);
        if cap.len() > 1 {
            let mut cap3 = cap.clone();
            let cj = (ci + 1 + r.below(cap.len() as u64 - 1) as usize) % cap.len();
            cap3[cj] = flip_limb(r, &cap3[cj]);
            verify_case::<H>(o, hid, &leaves[i], i, &cap3, &p);
        }
    }
    // prove with an index out of range (release build: no debug_assert)
    for &i in &[n, n + 1, 2 * n + 3] {
        o.case("prove", &tree_args(hid, h, &leaves, &[i as u64]), || dgs(&tree.prove(i).siblings));
    }
    let i = r.below(n as u64) as usize;
    o.case("prove", &tree_args(hid, h, &leaves, &[i as u64]), || dgs(&tree.prove(i).siblings));
}

fn bad_shape_cases<H: Hasher<F, Hash = HashOut<F>>>(o: &mut Out, r: &mut Rng, b: &[u64], hid: u64) {
    // leaf counts that are not powers of two, cap height above the tree height
    for &(n, h) in &[(0usize, 0usize), (3, 0), (3, 1), (6, 1), (5, 2), (1, 1), (2, 2), (4, 3), (8, 5), (12, 2)] {
        let leaves = rand_leaves(r, b, n, 3);
        o.case("cap", &tree_args(hid, h, &leaves, &[]), || dgs(&MerkleTree::<F, H>::new(leaves.clone(), h).cap.0));
    }
}

fn compression_cases<H: Hasher<F, Hash = HashOut<F>>>(o: &mut Out, r: &mut Rng, b: &[u64], hid: u64, kmax: usize, reps: usize) {
    for k in 0..=kmax {
        for _ in 0..reps {
            let n = 1usize << k;
            let h = r.below(k as u64 + 1) as usize;
            let w = *r.pick(&[1usize, 3, 4, 5, 9]);
            let leaves = rand_leaves(r, b, n, w);
            let tree = MerkleTree::<F, H>::new(leaves.clone(), h);
            let m = 1 + r.below(12) as usize;
            // index multiset: duplicates and clusters are likely
            let idx: Vec<usize> = (0..m)
                .map(|_| if r.coin() { r.below(n as u64) as usize } else { r.below(std::cmp::min(n, 4) as u64) as usize })
                .collect();
            let proofs: Vec<MerkleProof<F, H>> = idx.iter().map(|&i| tree.prove(i)).collect();
            let mut a = vec![h as u64, m as u64];
            a.extend(idx.iter().map(|&i| i as u64));
            a.extend(lp(&proofs.iter().map(|p| p.siblings.clone()).collect::<Vec<_>>()));
            let comp = o.case("compress", &a, || {
                lp(&ph::compress_merkle_proofs::<F, H>(h, &idx, &proofs).iter().map(|p| p.siblings.clone()).collect::<Vec<_>>())
            });
            let comp_proofs = ph::compress_merkle_proofs::<F, H>(h, &idx, &proofs);
            let dec_args = |cps: &[MerkleProof<F, H>], height: usize| {
                let mut a = vec![hid, height as u64, h as u64, m as u64, w as u64];
                a.extend(idx.iter().map(|&i| i as u64));
                for &i in &idx {
                    a.extend(fl(&leaves[i]));
                }
                a.extend(lp(&cps.iter().map(|p| p.siblings.clone()).collect::<Vec<_>>()));
                a
            };
            let data: Vec<Vec<F>> = idx.iter().map(|&i| leaves[i].clone()).collect();
            o.case("decompress", &dec_args(&comp_proofs, k), || {
                lp(&ph::decompress_merkle_proofs::<F, H>(&data, &idx, &comp_proofs, k, h).iter().map(|p| p.siblings.clone()).collect::<Vec<_>>())
            });
            let _ = comp;
            // malformed: drop one sibling of a non-empty compressed proof -> next().unwrap() panics
            if let Some(q) = comp_proofs.iter().position(|p| !p.siblings.is_empty()) {
                let mut bad = comp_proofs.clone();
                bad[q].siblings.pop();
                o.case("decompress", &dec_args(&bad, k), || {
                    lp(&ph::decompress_merkle_proofs::<F, H>(&data, &idx, &bad, k, h).iter().map(|p| p.siblings.clone()).collect::<Vec<_>>())
                });
                // altered sibling: decompression still succeeds, with different proofs
                let mut alt = comp_proofs.clone();
                let c = alt[q].siblings.len() - 1;
                alt[q].siblings[c] = flip_limb(r, &alt[q].siblings[c]);
                o.case("decompress", &dec_args(&alt, k), || {
                    lp(&ph::decompress_merkle_proofs::<F, H>(&data, &idx, &alt, k, h).iter().map(|p| p.siblings.clone()).collect::<Vec<_>>())
                });
            }
            // compress with an index out of range
            if k > h {
                let mut idx2 = idx.clone();
                idx2[0] = n + r.below(3) as usize;
                let mut a = vec![h as u64, m as u64];
                a.extend(idx2.iter().map(|&i| i as u64));
                a.extend(lp(&proofs.iter().map(|p| p.siblings.clone()).collect::<Vec<_>>()));
                o.case("compress", &a, || {
                    lp(&ph::compress_merkle_proofs::<F, H>(h, &idx2, &proofs).iter().map(|p| p.siblings.clone()).collect::<Vec<_>>())
                });
            }
        }
    }
    // assert!(!proofs.is_empty())
    o.case("compress", &[0, 0], || {
        lp(&ph::compress_merkle_proofs::<F, H>(0, &[], &[]).iter().map(|p| p.siblings.clone()).collect::<Vec<_>>())
    });
}

fn batch_args(hid: u64, pre: &[u64], mats: &[Vec<Vec<F>>]) -> Vec<u64> {
    let mut a = vec![hid];
    a.extend_from_slice(pre);
    a.push(mats.len() as u64);
    for m in mats {
        a.push(m.len() as u64);
        a.push(m.first().map(|l| l.len()).unwrap_or(0) as u64);
    }
    for m in mats {
        for l in m {
            a.extend(fl(l));
        }
    }
    a
}

fn bverify_case<H: Hasher<F, Hash = HashOut<F>>>(
    o: &mut Out,
    hid: u64,
    vals: &[Vec<F>],
    heights: &[usize],
    i: usize,
    cap: &[HashOut<F>],
    sibs: &[HashOut<F>],
) {
    let mut a = vec![hid, i as u64, vals.len() as u64];
    for (v, h) in vals.iter().zip(heights) {
        a.push(*h as u64);
        a.push(v.len() as u64);
    }
    a.push(cap.len() as u64);
    a.push(sibs.len() as u64);
    for v in vals {
        a.extend(fl(v));
    }
    a.extend(dgs(cap));
    a.extend(dgs(sibs));
    o.case("bverify", &a, || {
        let r = verify_batch_merkle_proof_to_cap::<F, H>(
            vals,
            heights,
            i,
            &MerkleCap(cap.to_vec()),
            &MerkleProof { siblings: sibs.to_vec() },
        );
        vec![r.is_ok() as u64]
    });
}

fn batch_cases<H: Hasher<F, Hash = HashOut<F>>>(o: &mut Out, r: &mut Rng, b: &[u64], hid: u64, kmax: usize, reps: usize) {
    for _ in 0..reps {
        // strictly decreasing heights k0 > k1 > .. >= cap height
        let k0 = r.range(0, kmax as u64) as usize;
        let mut hs = vec![k0];
        let mut cur = k0;
        while cur > 0 && r.below(3) != 0 && hs.len() < 4 {
            cur = r.below(cur as u64) as usize;
            hs.push(cur);
        }
        let h = r.below(*hs.last().unwrap() as u64 + 1) as usize;
        let mats: Vec<Vec<Vec<F>>> = hs
            .iter()
            .map(|&k| {
                let w = *r.pick(&[1usize, 2, 4, 5, 9]);
                rand_leaves(r, b, 1 << k, w)
            })
            .collect();
        let tree = BatchMerkleTree::<F, H>::new(mats.clone(), h);
        o.case("bcap", &batch_args(hid, &[h as u64], &mats), || dgs(&tree.cap.0));
        let n = 1usize << k0;
        o.case("bopenall", &batch_args(hid, &[h as u64], &mats), || {
            (0..n).flat_map(|i| dgs(&tree.open_batch(i).siblings)).collect()
        });
        let cap = tree.cap.0.clone();
        let heights = tree.leaf_heights.clone();
        let npos = std::cmp::min(n, 6);
        for t in 0..npos {
            let i = if n <= 6 { t } else { r.below(n as u64) as usize };
            let p = tree.open_batch(i).siblings;
            let vals = tree.values(i);
            bverify_case::<H>(o, hid, &vals, &heights, i, &cap, &p);
            // altered value in one of the layers
            let li = r.below(vals.len() as u64) as usize;
            let mut v2 = vals.clone();
            v2[li][0] += F::ONE;
            bverify_case::<H>(o, hid, &v2, &heights, i, &cap, &p);
            // other index
            bverify_case::<H>(o, hid, &vals, &heights, i ^ 1, &cap, &p);
            bverify_case::<H>(o, hid, &vals, &heights, i + n, &cap, &p);
            if !p.is_empty() {
                let mut p2 = p.clone();
                let c = r.below(p.len() as u64) as usize;
                p2[c] = flip_limb(r, &p2[c]);
                bverify_case::<H>(o, hid, &vals, &heights, i, &cap, &p2);
                // one sibling short: a later layer is never hashed in -> assert_eq! panics, or Err
                let mut p3 = p.clone();
                p3.pop();
                bverify_case::<H>(o, hid, &vals, &heights, i, &cap, &p3);
            }
            let mut cap2 = cap.clone();
            let ci = i >> (k0 - h);
            cap2[ci] = flip_limb(r, &cap2[ci]);
            bverify_case::<H>(o, hid, &vals, &heights, i, &cap2, &p);
            // a layer dropped / heights not matching
            if vals.len() > 1 {
                bverify_case::<H>(o, hid, &vals[..vals.len() - 1], &heights[..vals.len() - 1], i, &cap, &p);
            }
        }
        let i = n + r.below(3) as usize;
        o.case("bopen", &batch_args(hid, &[h as u64, i as u64], &mats), || dgs(&tree.open_batch(i).siblings));
    }
    // malformed constructions: empty, not decreasing, not a power of two, cap too high
    let shapes: Vec<(Vec<usize>, usize)> = vec![(vec![], 0), (vec![4, 4], 0), (vec![2, 4], 0), (vec![4, 3], 0), (vec![8, 2], 2), (vec![6], 0)];
    for (ns, h) in shapes {
        let mats: Vec<Vec<Vec<F>>> = ns.iter().map(|&n| rand_leaves(r, b, n, 2)).collect();
        o.case("bcap", &batch_args(hid, &[h as u64], &mats), || dgs(&BatchMerkleTree::<F, H>::new(mats.clone(), h).cap.0));
    }
}

fn primitive_cases<H: Hasher<F, Hash = HashOut<F>>>(o: &mut Out, r: &mut Rng, b: &[u64], hid: u64, reps: usize) {
    for w in [0usize, 1, 2, 3, 4, 5, 7, 8, 9, 15, 16, 17, 24, 25].iter() {
        for _ in 0..reps {
            let x: Vec<F> = (0..*w).map(|_| elem(r, b)).collect();
            let mut a = vec![hid];
            a.extend(fl(&x));
            o.case("hashleaf", &a, || dg(&H::hash_or_noop(&x)));
        }
    }
    for _ in 0..4 * reps {
        let (x, y) = (rand_digest(r), rand_digest(r));
        let mut a = vec![hid];
        a.extend(dg(&x));
        a.extend(dg(&y));
        o.case("twoto1", &a, || dg(&H::two_to_one(x, y)));
    }
}

fn family<H: Hasher<F, Hash = HashOut<F>>>(o: &mut Out, r: &mut Rng, b: &[u64], hid: u64, tier: &str) {
    let thorough = tier == "thorough";
    let toy = hid == 1;
    primitive_cases::<H>(o, r, b, hid, if thorough { 8 } else { 2 });
    bad_shape_cases::<H>(o, r, b, hid);
    let widths: Vec<usize> = if thorough { vec![1, 3, 4, 5, 8, 9, 135] } else { vec![1, 3, 4, 5, 8, 9] };
    // full grid (every width, every cap height) up to kfull; above that a sample
    let (kfull, kmax) = match (toy, thorough) {
        (true, false) => (6, 8),
        (true, true) => (8, 10),
        (false, false) => (3, 8),
        (false, true) => (6, 10),
    };
    for k in 0..=kmax {
        for &w in &widths {
            for h in 0..=k {
                let keep = k <= kfull || (toy && r.below(3) == 0) || (!toy && r.below(if thorough { 12 } else { 40 }) == 0);
                if !keep || (w > 9 && k > 5) {
                    continue;
                }
                let max_pos = if k <= 4 { 16 } else if toy { 8 } else { 4 };
                tree_cases::<H>(o, r, b, hid, k, w, h, max_pos);
            }
        }
    }
    compression_cases::<H>(o, r, b, hid, if toy { 7 } else if thorough { 6 } else { 4 }, if thorough { 6 } else { 2 });
    batch_cases::<H>(o, r, b, hid, if toy { 7 } else if thorough { 6 } else { 4 }, if thorough { 40 } else if toy { 16 } else { 6 });
}

/// Deep trees: sub-trees below the cap of height 17 / 18 (index arithmetic beyond 16 bits). The leaves are a
/// function of the index, the expected sibling path is recomputed level by level with the hasher alone
/// (nothing of hash/merkle_tree.rs), positions on both sides of 2^16 and at the ends.
/// `deepprove hid k h seed pos = <proof verifies> <path equals the level-by-level path> <another leaf is rejected>`
fn deep_tree_cases<H: Hasher<F, Hash = HashOut<F>>>(o: &mut Out, r: &mut Rng, hid: u64, tier: &str) {
    let shapes: &[(usize, usize)] = if tier == "thorough" { &[(17, 0), (18, 1), (19, 2), (17, 1)] } else { &[(17, 0), (18, 1)] };
    for &(k, h) in shapes {
        let n = 1usize << k;
        let sd = r.next_u64();
        let leaf = |i: usize| -> Vec<F> { vec![F::from_noncanonical_u64((i as u64).wrapping_mul(0x9E3779B97F4A7C15) ^ sd)] };
        let leaves: Vec<Vec<F>> = (0..n).map(leaf).collect();
        // level-by-level digests
        let mut levels: Vec<Vec<HashOut<F>>> = vec![leaves.iter().map(|l| H::hash_or_noop(l)).collect()];
        for _ in 0..(k - h) {
            let prev = levels.last().unwrap();
            let next: Vec<HashOut<F>> = prev.chunks(2).map(|c| H::two_to_one(c[0], c[1])).collect();
            levels.push(next);
        }
        let tree = match catch_unwind(AssertUnwindSafe(|| MerkleTree::<F, H>::new(leaves.clone(), h))) {
            Ok(t) => t,
            Err(_) => { o.case("deepprove", &[hid, k as u64, h as u64, sd, 0], || panic!("tree construction panicked")); continue }
        };
        let cap_ok = tree.cap.0 == levels[k - h];
        let sub = 1usize << (k - h);
        let mut positions = vec![0usize, 1, 65535, 65536, 65537, sub - 1, n - 1, n / 2 + 65536, (1 << 16) | 1];
        for _ in 0..(if tier == "thorough" { 24 } else { 8 }) { positions.push(r.below(n as u64) as usize); }
        positions.retain(|p| *p < n);
        for pos in positions {
            let t = &tree;
            let lv = &levels;
            let lf = leaf(pos);
            let other = leaf(pos ^ (1 << 16).min(n - 1));
            o.case("deepprove", &[hid, k as u64, h as u64, sd, pos as u64], move || {
                let p = t.prove(pos);
                let ok = verify_merkle_proof_to_cap::<F, H>(lf.clone(), pos, &t.cap, &p).is_ok();
                let want: Vec<HashOut<F>> = (0..(k - h)).map(|j| lv[j][(pos >> j) ^ 1]).collect();
                let rejected = verify_merkle_proof_to_cap::<F, H>(other.clone(), pos, &t.cap, &p).is_err();
                vec![(ok && cap_ok) as u64, (p.siblings == want) as u64, rejected as u64]
            });
        }
    }
}

pub fn run(seed: u64, tier: &str, w: &mut dyn Write) -> usize {
    let mut r = Rng::new(seed ^ 0xC12);
    let b = boundary_u64();
    let mut o = Out { w, n: 0 };
    family::<PoseidonHash>(&mut o, &mut r.fork(), &b, 0, tier);
    family::<ToyHash>(&mut o, &mut r.fork(), &b, 1, tier);
    deep_tree_cases::<PoseidonHash>(&mut o, &mut r.fork(), 0, tier);
    deep_tree_cases::<ToyHash>(&mut o, &mut r.fork(), 1, tier);
    let nk = crate::c12k::run(&mut r.fork(), tier, o.w);
    o.n + nk
}
