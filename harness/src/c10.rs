//! C10: STARK lookups and cross-table lookups hold iff the looked-up values are present.
//!
//! Single-table lookups: permutation-style family (1..4 looking columns, linear-combination and
//! next-row columns, simple and product filters, constraint degree 2 and 3) through prove /
//! verify_stark_proof. Cross-table lookups: 2..4-table systems driven through the PUBLIC multi-table
//! API (PolynomialBatch commitments, get_ctl_data, prove_with_commitment, CtlCheckVars::from_proof,
//! StarkProofWithPublicInputs::get_challenges, verify_stark_proof_with_challenges,
//! verify_cross_table_lookups). The expected verdict comes from the harness' own multiset
//! predicates (`lookup_holds`, `ctl_holds`), re-checked by tools/spec_c10.py from the `lk` / `ctl` lines.
//!
//! Lines: `c10 <family> <case> = <1|0> # detail`   (1 = the property held)
//!        `lk <lookup spec> <nrows> <trace> = <0|1>`, `ctlsys <system> = <0|1>`   (predicate replay)
use std::collections::HashMap as StdMap;
use std::io::Write;
use std::panic::{catch_unwind, AssertUnwindSafe};
use std::sync::Arc;

use hashbrown::HashMap;
use plonky2::field::polynomial::PolynomialValues;
use plonky2::field::types::{Field, PrimeField64};
use plonky2::fri::oracle::PolynomialBatch;
use plonky2::iop::challenger::Challenger;
use plonky2::plonk::config::GenericConfig;
use plonky2::util::timing::TimingTree;
use starky::config::StarkConfig;
use starky::cross_table_lookup::{get_ctl_data, verify_cross_table_lookups, CrossTableLookup, CtlCheckVars, TableWithColumns};
use starky::lookup::{get_grand_product_challenge_set, GrandProductChallengeSet};
use starky::prover::prove_with_commitment;
use starky::stark::Stark;
use starky::verifier::verify_stark_proof_with_challenges;

use crate::c09::*;
use crate::rng::*;

type H = <C as GenericConfig<D>>::Hasher;

fn fe(x: u64) -> F { F::from_noncanonical_u64(x) }
fn rf(r: &mut Rng) -> F { fe(r.next_u64()) }
fn join(v: &[u64]) -> String { v.iter().map(|x| x.to_string()).collect::<Vec<_>>().join(" ") }

// ------------------------------------------------------------------------------------------
// single-table lookups

/// the logUp statement as a multiset predicate: for every value v,
/// sum of the filters of the looking entries equal to v  ==  sum of the frequencies of the table rows equal to v
pub fn lookup_holds(l: &LookupSpec, rows: &[Vec<F>]) -> bool {
    let mut m: StdMap<u64, (F, F)> = StdMap::new();
    for r in 0..rows.len() {
        for (c, f) in l.columns.iter().zip(&l.filters) {
            let e = m.entry(c.eval_rows(rows, r).to_canonical_u64()).or_insert((F::ZERO, F::ZERO));
            e.0 += f.eval_rows(rows, r);
        }
        let e = m.entry(l.table.eval_rows(rows, r).to_canonical_u64()).or_insert((F::ZERO, F::ZERO));
        e.1 += l.freq.eval_rows(rows, r);
    }
    m.values().all(|(a, b)| a == b)
}

fn enc_col(c: &ColSpec, v: &mut Vec<u64>) {
    v.push(c.lin.len() as u64);
    for &(i, k) in &c.lin { v.push(i as u64); v.push(k) }
    v.push(c.next.len() as u64);
    for &(i, k) in &c.next { v.push(i as u64); v.push(k) }
    v.push(c.constant);
}
fn enc_filter(f: &FilterSpec, v: &mut Vec<u64>) {
    v.push(f.products.len() as u64);
    for (a, b) in &f.products { enc_col(a, v); enc_col(b, v) }
    v.push(f.constants.len() as u64);
    for c in &f.constants { enc_col(c, v) }
}
fn enc_rows(rows: &[Vec<F>], v: &mut Vec<u64>) {
    v.push(rows.len() as u64);
    v.push(rows[0].len() as u64);
    for r in rows { v.extend(r.iter().map(|x| x.to_canonical_u64())) }
}
fn lk_line(w: &mut dyn Write, l: &LookupSpec, rows: &[Vec<F>]) {
    let mut v = vec![l.columns.len() as u64];
    for (c, f) in l.columns.iter().zip(&l.filters) { enc_col(c, &mut v); enc_filter(f, &mut v) }
    enc_col(&l.table, &mut v);
    enc_col(&l.freq, &mut v);
    enc_rows(rows, &mut v);
    writeln!(w, "lk {} = {}", join(&v), lookup_holds(l, rows) as u8).unwrap();
}

pub struct PermInfo {
    /// (row, column, role) cells worth corrupting
    pub cells: Vec<(usize, usize, &'static str)>,
}

/// `k` looking columns into one table column with a frequencies column.
/// plain: columns L_0..L_{k-1}, T, M (+ an unused public input when the shape needs one)
/// fancy: A_0..A_{k-1}, T, M, F0, F1 with looking columns 2*A_0+3 (filter F0), next-row A_1 (always),
///        A_2+A_0 (filter F0*F1), A_3 (filter F1)
pub fn build_perm(r: &mut Rng, n: usize, k: usize, degree: usize, fancy: bool) -> Built {
    build_perm_info(r, n, k, degree, fancy).0
}

pub fn build_perm_info(r: &mut Rng, n: usize, k: usize, degree: usize, fancy: bool) -> (Built, PermInfo) {
    assert!((1..=4).contains(&k));
    let ncols = if fancy { k + 4 } else { k + 2 };
    let npi = SHAPES.iter().find(|s| s.0 == ncols).map(|s| s.1).unwrap();
    let (t, m) = (k, k + 1);
    let (f0, f1) = (k + 2, k + 3);
    let mut columns = vec![];
    let mut filters = vec![];
    for i in 0..k {
        if !fancy {
            columns.push(ColSpec::single(i));
            filters.push(FilterSpec::always());
        } else {
            match i {
                0 => { columns.push(ColSpec { lin: vec![(0, 2)], next: vec![], constant: 3 }); filters.push(FilterSpec::simple(ColSpec::single(f0))) }
                1 => { columns.push(ColSpec::single_next(1)); filters.push(FilterSpec::always()) }
                2 => { columns.push(ColSpec { lin: vec![(2, 1), (0, 1)], next: vec![], constant: 0 });
                       filters.push(FilterSpec { products: vec![(ColSpec::single(f0), ColSpec::single(f1))], constants: vec![] }) }
                _ => { columns.push(ColSpec::single(3)); filters.push(FilterSpec::simple(ColSpec::single(f1))) }
            }
        }
    }
    let lookup = LookupSpec { columns, table: ColSpec::single(t), freq: ColSpec::single(m), filters };
    // table: a few duplicates on purpose
    let base = r.next_u64() % (P / 2);
    let tvals: Vec<F> = (0..n).map(|i| fe(base + if i > 0 && r.below(6) == 0 { r.below(i as u64) } else { i as u64 })).collect();
    let mut rows = vec![vec![F::ZERO; ncols]; n];
    for i in 0..n {
        rows[i][t] = tvals[i];
        if fancy { rows[i][f0] = fe(r.below(2)); rows[i][f1] = fe(r.below(2)); }
    }
    // looking cells: filtered ones take table values, the others are arbitrary
    let two_inv = F::TWO.inverse();
    for i in 0..n {
        for c in 0..k {
            let on = lookup.filters[c].eval_rows(&rows, i) == F::ONE;
            let v = if on { *r.pick(&tvals) } else { rf(r) };
            if !fancy { rows[i][c] = v } else {
                match c {
                    0 => rows[i][0] = (v - fe(3)) * two_inv,
                    1 => rows[(i + 1) % n][1] = v,
                    2 => rows[i][2] = v - rows[i][0],
                    _ => rows[i][3] = v,
                }
            }
        }
    }
    // frequencies: everything on the first table row carrying the value
    let mut count: StdMap<u64, u64> = StdMap::new();
    for i in 0..n {
        for c in 0..k {
            if lookup.filters[c].eval_rows(&rows, i) == F::ONE {
                *count.entry(lookup.columns[c].eval_rows(&rows, i).to_canonical_u64()).or_insert(0) += 1;
            }
        }
    }
    for i in 0..n {
        if let Some(cn) = count.remove(&tvals[i].to_canonical_u64()) { rows[i][m] = fe(cn) }
    }
    assert!(count.is_empty());
    // cells to corrupt
    let mut cells = vec![];
    let on_row = |c: usize, want: bool, rows: &Vec<Vec<F>>| (0..n).find(|&i| (lookup.filters[c].eval_rows(rows, i) == F::ONE) == want);
    if let Some(i) = on_row(0, true, &rows) { cells.push((i, 0, "looking")) }
    if let Some(i) = on_row(k - 1, true, &rows) { cells.push((if fancy && k - 1 == 1 { (i + 1) % n } else { i }, k - 1, "looking")) }
    if fancy { if let Some(i) = on_row(0, false, &rows) { cells.push((i, 0, "looking-filtered-out")) } }
    if let Some(i) = (0..n).find(|&i| rows[i][m] != F::ZERO) { cells.push((i, t, "looked")); cells.push((i, m, "frequency")) }
    if let Some(i) = (0..n).find(|&i| rows[i][m] == F::ZERO) { cells.push((i, t, "looked-unused")); cells.push((i, m, "frequency-of-unused")) }
    cells.push((n - 1, m, "frequency-last-row"));
    cells.push((n - 1, 0, "looking-last-row"));
    if fancy { cells.push((r.below(n as u64) as usize, f0, "filter")) }
    let spec = FamSpec { name: format!("lookup{}{}d{}", k, if fancy { "f" } else { "" }, degree), ncols, npi, degree,
                         cons: vec![], lookups: vec![lookup], ctl: false };
    (Built { spec: Arc::new(spec), rows, pis: vec![F::ZERO; npi], cols: vec![] }, PermInfo { cells })
}

fn accepted_iff(expected: bool, v: &str) -> bool { if expected { v == "ok" } else { v != "ok" } }

pub(crate) fn pv(drv: &Driver, cfg: &StarkConfig, rows: &[Vec<F>], pis: &[F]) -> (String, String, Option<Sp>) {
    match (drv.prove)(cfg, rows, pis) {
        ProveOut::Proof(p) => { let v = (drv.verify)(cfg, (*p).clone()); ("proof".into(), v, Some(*p)) }
        ProveOut::Err(e) => (format!("err({})", e.chars().take(40).collect::<String>().replace(' ', "_")), "-".into(), None),
        ProveOut::Panic(s) => (s, "-".into(), None),
    }
}

fn lookup_cases(w: &mut dyn Write, r: &mut Rng, b: &Built, info: &PermInfo, cname: &str, cfg: &StarkConfig, sweep: usize) -> usize {
    let drv = driver(b.spec.clone());
    let l = &b.spec.lookups[0];
    let n = b.rows.len();
    let fam = format!("{}/n{}/{}", b.spec.name, n, cname);
    let mut cnt = 0;
    let holds = lookup_holds(l, &b.rows);
    lk_line(w, l, &b.rows);
    let (po, vo, proof) = pv(&drv, cfg, &b.rows, &b.pis);
    writeln!(w, "c10 {fam} honest = {} # holds={} prover={po} verify={vo}", accepted_iff(holds, &vo) as u8, holds as u8).unwrap();
    cnt += 2;
    for &(row, col, role) in &info.cells {
        for kind in 0..2 {
            let mut rows = b.rows.clone();
            let old = rows[row][col];
            rows[row][col] = match (role, kind) {
                ("filter", _) => F::ONE - old,
                (_, 0) => old + F::ONE,
                _ => rf(r),
            };
            if rows[row][col] == old || (role == "filter" && kind == 1) { continue; }
            let holds = lookup_holds(l, &rows) && b.spec.violated(&rows, &b.pis).is_none();
            lk_line(w, l, &rows);
            let (po, vo, _) = pv(&drv, cfg, &rows, &b.pis);
            writeln!(w, "c10 {fam} corrupt:{role}:{kind} = {} # row={row} col={col} holds={} prover={po} verify={vo}",
                     accepted_iff(holds, &vo) as u8, holds as u8).unwrap();
            cnt += 2;
            // the same violating trace with a prover that puts the lookup's total defect into ONE helper
            // cell before computing Z (knob aux_balance): the running sum closes, so only the constraint
            // defining that helper column on that row can object - for every helper column
            if !lookup_holds(l, &rows) && kind == 0 && b.spec.degree >= 2 {
                let nhelp = l.columns.len().div_ceil(b.spec.degree - 1);
                for h in 0..nhelp {
                    let brow = if h % 2 == 0 { row } else { (row + 1 + r.below((n - 1) as u64) as usize) % n };
                    starky::verif_hooks::set_aux_balance(Some((h, brow)));
                    let (po, vo, _) = pv(&drv, cfg, &rows, &b.pis);
                    starky::verif_hooks::set_aux_balance(None);
                    writeln!(w, "c10 {fam} corrupt:{role}:balanced-through-helper{h} = {} # row={row} col={col} balance_row={brow} holds=0 prover={po} verify={vo}",
                             (vo != "ok") as u8).unwrap();
                    cnt += 1;
                }
            }
        }
    }
    // a frequency moved between two table rows carrying the same value: still the same multiset
    let tcol = l.table.lin[0].0;
    let mcol = l.freq.lin[0].0;
    'outer: for i in 0..n {
        for j in 0..n {
            if i != j && b.rows[i][tcol] == b.rows[j][tcol] && b.rows[i][mcol] != F::ZERO {
                let mut rows = b.rows.clone();
                rows[i][mcol] -= F::ONE;
                rows[j][mcol] += F::ONE;
                let holds = lookup_holds(l, &rows);
                lk_line(w, l, &rows);
                let (po, vo, _) = pv(&drv, cfg, &rows, &b.pis);
                writeln!(w, "c10 {fam} frequency-moved-between-duplicates = {} # rows {i}->{j} holds={} prover={po} verify={vo}",
                         accepted_iff(holds, &vo) as u8, holds as u8).unwrap();
                cnt += 2;
                break 'outer;
            }
        }
    }
    // helper / running-sum columns altered after the honest computation (prover knob)
    let nh = b.spec.lookups[0].columns.len().div_ceil(b.spec.degree - 1) + 1;
    for ch in 0..cfg.num_challenges.min(2) {
        for (what, col) in [("helper", ch * nh), ("helper-last", ch * nh + nh - 2), ("Z", ch * nh + nh - 1)] {
            for row in [0usize, 1 + r.below((n - 2) as u64) as usize, n - 1] {
                starky::verif_hooks::set_aux_tamper(vec![(col, row, 1 + r.below(1 << 40))]);
                let (po, vo, _) = pv(&drv, cfg, &b.rows, &b.pis);
                starky::verif_hooks::set_aux_tamper(vec![]);
                writeln!(w, "c10 {fam} corrupt:{what}-column:challenge{ch}:row{row} = {} # aux column {col} prover={po} verify={vo}", (vo != "ok") as u8).unwrap();
                cnt += 1;
            }
        }
    }
    if let (Some(p), true, true) = (proof, vo == "ok", sweep > 0) {
        let root = serde_json::to_value(&p).unwrap();
        cnt += tamper_sweep(w, r, "c10", &fam, &root, sweep, &|v| json_verdict(&drv, cfg, v));
    }
    cnt
}

// ------------------------------------------------------------------------------------------
// cross-table lookups

#[derive(Clone, Debug)]
pub struct TwcSpec { pub table: usize, pub cols: Vec<ColSpec>, pub filter: FilterSpec }
impl TwcSpec {
    pub(crate) fn to_twc(&self) -> TableWithColumns<F> {
        TableWithColumns::new(self.table, self.cols.iter().map(|c| c.to_column()).collect(), self.filter.to_filter())
    }
}
#[derive(Clone, Debug)]
pub struct CtlSpec { pub looking: Vec<TwcSpec>, pub looked: TwcSpec, pub extra: Vec<Vec<F>> }

pub struct System { pub name: String, pub tables: Vec<Built>, pub ctls: Vec<CtlSpec> }

/// multiset predicate: for every tuple, (sum of filters of looking entries + number of extra values)
/// equals the sum of filters of the looked entries
pub fn ctl_holds(sys: &System) -> bool {
    for ctl in &sys.ctls {
        let mut m: StdMap<Vec<u64>, (F, F)> = StdMap::new();
        for twc in &ctl.looking {
            let rows = &sys.tables[twc.table].rows;
            for r in 0..rows.len() {
                let key: Vec<u64> = twc.cols.iter().map(|c| c.eval_rows(rows, r).to_canonical_u64()).collect();
                m.entry(key).or_insert((F::ZERO, F::ZERO)).0 += twc.filter.eval_rows(rows, r);
            }
        }
        for e in &ctl.extra {
            m.entry(e.iter().map(|x| x.to_canonical_u64()).collect()).or_insert((F::ZERO, F::ZERO)).0 += F::ONE;
        }
        let rows = &sys.tables[ctl.looked.table].rows;
        for r in 0..rows.len() {
            let key: Vec<u64> = ctl.looked.cols.iter().map(|c| c.eval_rows(rows, r).to_canonical_u64()).collect();
            m.entry(key).or_insert((F::ZERO, F::ZERO)).1 += ctl.looked.filter.eval_rows(rows, r);
        }
        if !m.values().all(|(a, b)| a == b) { return false; }
    }
    true
}

fn ctlsys_line(w: &mut dyn Write, sys: &System) {
    let mut v = vec![sys.tables.len() as u64];
    for t in &sys.tables { enc_rows(&t.rows, &mut v) }
    v.push(sys.ctls.len() as u64);
    for c in &sys.ctls {
        v.push(c.looking.len() as u64);
        for t in c.looking.iter().chain(std::iter::once(&c.looked)) {
            v.push(t.table as u64);
            v.push(t.cols.len() as u64);
            for col in &t.cols { enc_col(col, &mut v) }
            enc_filter(&t.filter, &mut v);
        }
        v.push(c.extra.len() as u64);
        for e in &c.extra { v.push(e.len() as u64); v.extend(e.iter().map(|x| x.to_canonical_u64())) }
    }
    writeln!(w, "ctlsys {} = {}", join(&v), ctl_holds(sys) as u8).unwrap();
}

pub(crate) type S4 = Fam<4, 0>;

fn prove_system<const NT: usize>(sys: &System, cfg: &StarkConfig, tamper: Option<(usize, Vec<(usize, usize, u64)>)>) -> Result<Vec<Sp>, String> {
    let res = catch_unwind(AssertUnwindSafe(|| -> anyhow::Result<Vec<Sp>> {
        let mut timing = TimingTree::default();
        let ctls: Vec<CrossTableLookup<F>> = sys.ctls.iter().map(|c| CrossTableLookup::new(c.looking.iter().map(|t| t.to_twc()).collect(), c.looked.to_twc())).collect();
        let traces: Vec<Vec<PolynomialValues<F>>> = sys.tables.iter().map(|t| to_poly_values(&t.rows, 4)).collect();
        let commitments: Vec<PolynomialBatch<F, C, D>> = traces.iter().map(|t| {
            PolynomialBatch::from_values(t.clone(), cfg.fri_config.rate_bits, false, cfg.fri_config.cap_height, &mut timing, None)
        }).collect();
        let mut challenger = Challenger::<F, H>::new();
        for c in &commitments { challenger.observe_cap(&c.merkle_tree.cap) }
        let arr: [Vec<PolynomialValues<F>>; NT] = traces.clone().try_into().map_err(|_| anyhow::anyhow!("table count"))?;
        let maxdeg = sys.tables.iter().map(|t| t.spec.degree).max().unwrap();
        let (ctl_challenges, ctl_data) = get_ctl_data::<F, C, D, NT>(cfg, &arr, &ctls, &mut challenger, maxdeg);
        let mut proofs = vec![];
        for i in 0..NT {
            let stark = S4 { spec: sys.tables[i].spec.clone() };
            let mut ch = challenger.clone();
            ch.observe_elements(&sys.tables[i].pis);
            cfg.observe(&mut ch);
            if let Some((ti, entries)) = &tamper { if *ti == i { starky::verif_hooks::set_aux_tamper(entries.clone()) } }
            let p = prove_with_commitment::<F, C, S4, D>(&stark, cfg, &traces[i], &commitments[i], Some(&ctl_data[i]), Some(&ctl_challenges),
                                                          &mut ch, &sys.tables[i].pis, None, None, &mut timing);
            starky::verif_hooks::set_aux_tamper(vec![]);
            proofs.push(p?);
        }
        Ok(proofs)
    }));
    starky::verif_hooks::set_aux_tamper(vec![]);
    match res { Ok(Ok(p)) => Ok(p), Ok(Err(e)) => Err(format!("err({})", format!("{e}").chars().take(40).collect::<String>().replace(' ', "_"))), Err(_) => Err(panic_site()) }
}

pub(crate) fn ctl_challenges_of(proofs: &[Sp], cfg: &StarkConfig) -> (Challenger<F, H>, GrandProductChallengeSet<F>) {
    let mut challenger = Challenger::<F, H>::new();
    for p in proofs { challenger.observe_cap(&p.proof.trace_cap) }
    let c = get_grand_product_challenge_set(&mut challenger, cfg.num_challenges);
    (challenger, c)
}

/// what a verifier of the multi-table system does, with the public functions only
fn verify_system<const NT: usize>(sys: &System, cfg: &StarkConfig, proofs: &[Sp]) -> String { verify_system_with::<NT>(sys, cfg, proofs, false) }

/// `own_counts`: the helper-column counts handed to CtlCheckVars::from_proof are computed from the LOOKING
/// appearances of the table only - what the prover (cross_table_lookup_data) really commits to - instead of by
/// CrossTableLookup::num_ctl_helpers_zs_all, which also counts the looked appearance (known finding for a table
/// that looks into itself).
fn verify_system_with<const NT: usize>(sys: &System, cfg: &StarkConfig, proofs: &[Sp], own_counts: bool) -> String {
    verdict(|| -> anyhow::Result<()> {
        anyhow::ensure!(proofs.len() == NT);
        let ctls: Vec<CrossTableLookup<F>> = sys.ctls.iter().map(|c| CrossTableLookup::new(c.looking.iter().map(|t| t.to_twc()).collect(), c.looked.to_twc())).collect();
        let (challenger, ctl_challenges) = ctl_challenges_of(proofs, cfg);
        for i in 0..NT {
            let stark = S4 { spec: sys.tables[i].spec.clone() };
            let (mut nhelp, _nz, mut by_ctl) = CrossTableLookup::num_ctl_helpers_zs_all(&ctls, i, cfg.num_challenges, stark.constraint_degree());
            if own_counts {
                by_ctl = sys.ctls.iter().map(|c| { let k = c.looking.iter().filter(|t| t.table == i).count(); if k > 1 { k.div_ceil(stark.constraint_degree() - 1) } else { 0 } }).collect();
                nhelp = by_ctl.iter().sum::<usize>() * cfg.num_challenges;
            }
            let nlk = stark.num_lookup_helper_columns(cfg);
            let ctl_vars = CtlCheckVars::from_proof(i, &proofs[i].proof, &ctls, &ctl_challenges, nlk, nhelp, &by_ctl);
            let mut ch = challenger.clone();
            let challenges = proofs[i].get_challenges(&stark, &mut ch, Some(&ctl_challenges), Some(&ctl_vars), true, cfg, None);
            verify_stark_proof_with_challenges(&stark, &proofs[i].proof, &challenges, Some(&ctl_vars), &proofs[i].public_inputs, cfg)?;
        }
        let mut extra: HashMap<usize, Vec<F>> = HashMap::new();
        for (ci, c) in sys.ctls.iter().enumerate() {
            if !c.extra.is_empty() {
                extra.insert(ci, ctl_challenges.challenges.iter().map(|ch| {
                    c.extra.iter().map(|row| ch.combine::<F, F, _, 1>(row.iter()).inverse()).sum::<F>()
                }).collect());
            }
        }
        let zs: Vec<Vec<F>> = proofs.iter().map(|p| p.proof.openings.ctl_zs_first.clone().unwrap_or_default()).collect();
        let zs: [Vec<F>; NT] = zs.try_into().map_err(|_| anyhow::anyhow!("table count"))?;
        verify_cross_table_lookups::<F, D, NT>(&ctls, zs, &extra, cfg)
    })
}

pub(crate) fn pv_system(sys: &System, cfg: &StarkConfig, tamper: Option<(usize, usize, usize, u64)>) -> (String, String, Option<Vec<Sp>>) {
    pv_system_multi(sys, cfg, tamper.map(|(t, c, r, d)| (t, vec![(c, r, d)])))
}
pub(crate) fn pv_system_multi(sys: &System, cfg: &StarkConfig, tamper: Option<(usize, Vec<(usize, usize, u64)>)>) -> (String, String, Option<Vec<Sp>>) {
    let pr = match sys.tables.len() { 2 => prove_system::<2>(sys, cfg, tamper.clone()), 3 => prove_system::<3>(sys, cfg, tamper.clone()), _ => prove_system::<4>(sys, cfg, tamper) };
    match pr {
        Ok(p) => { let v = vs(sys, cfg, &p); ("proof".into(), v, Some(p)) }
        Err(e) => (e, "-".into(), None),
    }
}
fn vs_own(sys: &System, cfg: &StarkConfig, p: &[Sp]) -> String {
    match sys.tables.len() { 2 => verify_system_with::<2>(sys, cfg, p, true), 3 => verify_system_with::<3>(sys, cfg, p, true), _ => verify_system_with::<4>(sys, cfg, p, true) }
}
fn vs(sys: &System, cfg: &StarkConfig, p: &[Sp]) -> String {
    match sys.tables.len() { 2 => verify_system::<2>(sys, cfg, p), 3 => verify_system::<3>(sys, cfg, p), _ => verify_system::<4>(sys, cfg, p) }
}

/// A violated cross-table lookup "repaired" by adding a constant to EVERY row of one looking table's running
/// sum Z (per challenge): the first-row openings then balance in verify_cross_table_lookups and every
/// transition constraint still holds; only the last-row constraint of that Z objects. One case per looking
/// table of the violated CTL. Returns the number of lines written.
fn ctl_shift_cases(w: &mut dyn Write, r: &mut Rng, sys: &System, cname: &str, cfg: &StarkConfig) -> usize {
    // a system whose first CTL is violated: alter one selected looked value
    let mut bad = System { name: sys.name.clone(), tables: sys.tables.iter().map(|t| Built { spec: t.spec.clone(), rows: t.rows.clone(), pis: t.pis.clone(), cols: t.cols.clone() }).collect(),
                           ctls: sys.ctls.clone() };
    let looked = &sys.ctls[0].looked;
    let lt = looked.table;
    let n = bad.tables[lt].rows.len();
    let Some(row) = (0..n).find(|&i| looked.filter.eval_rows(&sys.tables[lt].rows, i) != F::ZERO) else { return 0 };
    let Some(&(col, _)) = looked.cols[0].lin.first() else { return 0 };
    bad.tables[lt].rows[row][col] += F::from_canonical_u64(1 + r.below(1000));
    if ctl_holds(&bad) { return 0; }
    let (_, _, proofs) = pv_system(&bad, cfg, None);
    let Some(proofs) = proofs else { return 0 };
    let nch = cfg.num_challenges;
    let ctls: Vec<CrossTableLookup<F>> = bad.ctls.iter().map(|c| CrossTableLookup::new(c.looking.iter().map(|t| t.to_twc()).collect(), c.looked.to_twc())).collect();
    // replay verify_cross_table_lookups' consumption order to find, per (ctl 0, challenge), the defect and the
    // position of every table's opening
    let zs: Vec<Vec<F>> = proofs.iter().map(|p| p.proof.openings.ctl_zs_first.clone().unwrap_or_default()).collect();
    let mut pos = vec![0usize; zs.len()];
    let mut looking0: Vec<usize> = vec![];
    for t in &bad.ctls[0].looking { if !looking0.contains(&t.table) { looking0.push(t.table); } }
    let mut defects = vec![];          // per challenge: (defect, position of each looking table's opening)
    for _c in 0..nch {
        let mut sum = F::ZERO;
        let mut where_ = vec![];
        for &t in &looking0 { if pos[t] >= zs[t].len() { return 0; } sum += zs[t][pos[t]]; where_.push((t, pos[t])); pos[t] += 1; }
        if pos[lt] >= zs[lt].len() { return 0; }
        let lz = zs[lt][pos[lt]]; pos[lt] += 1;
        if !bad.ctls[0].extra.is_empty() { return 0; }
        defects.push((lz - sum, where_));
    }
    if defects.iter().all(|(d, _)| *d == F::ZERO) { return 0; }
    let mut cnt = 0;
    for (li, &t) in looking0.iter().enumerate() {
        if t == lt { continue; }
        let stark = S4 { spec: bad.tables[t].spec.clone() };
        let (nhelp, _nz, _by) = CrossTableLookup::num_ctl_helpers_zs_all(&ctls, t, nch, stark.constraint_degree());
        let nlk = stark.num_lookup_helper_columns(cfg);
        let nrows = bad.tables[t].rows.len();
        let mut entries = vec![];
        for (d, where_) in &defects {
            let m = where_[li].1;
            for rr in 0..nrows { entries.push((nlk + nhelp + m, rr, d.to_canonical_u64())); }
        }
        let (po, vo, _) = pv_system_multi(&bad, cfg, Some((t, entries)));
        let repeats = bad.ctls[0].looking.iter().filter(|x| x.table == t).count();
        writeln!(w, "c10 {}/{cname} ctl-violated:Z-of-table{t}-shifted-by-the-defect = {} # looked value altered at row {row}; table {t} appears {repeats}x among the looking tables; holds=0 prover={po} verify={vo}",
                 bad.name, (vo != "ok") as u8).unwrap();
        cnt += 1;
    }
    cnt
}

fn table_spec(name: &str, degree: usize, cons: Vec<Constraint>) -> FamSpec {
    FamSpec { name: name.into(), ncols: 4, npi: 0, degree, cons, lookups: vec![], ctl: true }
}

/// looking-table column selections over the 4 columns [c0, c1, f, g]
fn looking_variant(table: usize, v: usize) -> TwcSpec {
    match v {
        0 => TwcSpec { table, cols: vec![ColSpec::single(0), ColSpec::single(1)], filter: FilterSpec::simple(ColSpec::single(2)) },
        1 => TwcSpec { table, cols: vec![ColSpec { lin: vec![(0, 2)], next: vec![], constant: 1 }, ColSpec::single(1)], filter: FilterSpec::simple(ColSpec::single(3)) },
        2 => TwcSpec { table, cols: vec![ColSpec::single(0), ColSpec::single_next(1)], filter: FilterSpec::simple(ColSpec::single(2)) },
        3 => TwcSpec { table, cols: vec![ColSpec::single(1), ColSpec::single(0)], filter: FilterSpec { products: vec![(ColSpec::single(2), ColSpec::single(3))], constants: vec![] } },
        _ => TwcSpec { table, cols: vec![ColSpec::single(0), ColSpec::single(1)], filter: FilterSpec::simple(ColSpec::single(3)) },
    }
}

/// `topology`: 0 = A,B -> L ; 1 = A (two selections, adjacent),B -> L ; 2 = A,B,A (same table, not adjacent) -> L ;
/// 3 = A -> B -> L (B looked and looking, two CTLs) ; 4 = A + extra values -> L ; 5 = A,B,C -> L (4 tables) ;
/// 6 = A (three selections, adjacent: two helper columns at degree 3),B -> L ; 7 = T,B -> T (a table looking into itself, width 1)
pub const TOPOLOGY: [&str; 8] = ["AB_L", "AAB_L", "ABA_L-nonadjacent-repeat", "A_B_L-chain", "Ax_L-extra-values", "ABC_L", "AAAB_L", "TB_T-looking-into-itself"];

pub fn build_system(r: &mut Rng, topology: usize, degree: usize, lg: &[usize]) -> System {
    let mut s = build_system_inner(r, topology, degree, lg);
    s.name = format!("ctl-{}-d{}", TOPOLOGY[topology], degree);
    s
}

fn build_system_inner(r: &mut Rng, topology: usize, degree: usize, lg: &[usize]) -> System {
    let binf = |c: usize| Constraint { kind: Kind::Always, expr: mul(Expr::Local(c), sub(Expr::Local(c), Expr::Const(1))) };
    let rnd_table = |r: &mut Rng, n: usize, p_on: u64| -> Vec<Vec<F>> {
        (0..n).map(|_| vec![fe(r.below(50)), fe(r.below(50)), fe((r.below(4) < p_on) as u64), fe((r.below(4) < p_on) as u64)]).collect()
    };
    let mk = |name: &str, rows: Vec<Vec<F>>| Built { spec: Arc::new(table_spec(name, degree, vec![binf(2), binf(3)])), rows, pis: vec![], cols: vec![] };
    // looked table: rows [t0, t1, ft, _]; looked selection optionally a linear combination t0 + 3*t1
    let looked_lin = topology % 2 == 1;
    let looked_twc = |table: usize| TwcSpec {
        table,
        cols: if looked_lin { vec![ColSpec { lin: vec![(0, 1), (1, 3)], next: vec![], constant: 0 }, ColSpec::single(1)] } else { vec![ColSpec::single(0), ColSpec::single(1)] },
        filter: FilterSpec::simple(ColSpec::single(2)),
    };
    let fill_looked = |r: &mut Rng, n: usize, entries: &[(Vec<F>, F)], keep: Option<Vec<Vec<F>>>| -> Vec<Vec<F>> {
        // entries: (tuple, weight) with weight in {0,1,2}; a weight-2 tuple takes two rows
        let mut rows = keep.unwrap_or_else(|| (0..n).map(|_| vec![fe(r.below(50)), fe(r.below(50)), F::ZERO, fe(r.below(2))]).collect());
        for row in rows.iter_mut() { row[2] = F::ZERO }
        let mut slots: Vec<usize> = (0..n).collect();
        for i in (1..slots.len()).rev() { let j = r.below((i + 1) as u64) as usize; slots.swap(i, j) }
        let mut si = 0;
        for (tuple, wgt) in entries {
            for _ in 0..wgt.to_canonical_u64() {
                let row = &mut rows[slots[si]];
                si += 1;
                row[1] = tuple[1];
                row[0] = if looked_lin { tuple[0] - fe(3) * tuple[1] } else { tuple[0] };
                row[2] = F::ONE;
            }
        }
        rows
    };
    let entries_of = |twcs: &[&TwcSpec], tables: &[&Vec<Vec<F>>]| -> Vec<(Vec<F>, F)> {
        let mut v = vec![];
        for (t, rows) in twcs.iter().zip(tables) {
            for i in 0..rows.len() {
                let f = t.filter.eval_rows(rows, i);
                if f != F::ZERO { v.push((t.cols.iter().map(|c| c.eval_rows(rows, i)).collect(), f)) }
            }
        }
        v
    };
    let n = |i: usize| 1usize << lg[i % lg.len()];
    match topology {
        0 | 5 => {
            let nl = if topology == 0 { 2 } else { 3 };
            let looking_rows: Vec<Vec<Vec<F>>> = (0..nl).map(|i| rnd_table(r, n(i), 1)).collect();
            let twcs: Vec<TwcSpec> = (0..nl).map(|i| looking_variant(i, [0, 2, 1][i])).collect();
            let ent = entries_of(&twcs.iter().collect::<Vec<_>>(), &looking_rows.iter().collect::<Vec<_>>());
            let nlooked = (ent.len().max(4)).next_power_of_two().max(n(nl));
            let looked = fill_looked(r, nlooked, &ent, None);
            let mut tables: Vec<Built> = looking_rows.into_iter().enumerate().map(|(i, rows)| mk(&format!("T{i}"), rows)).collect();
            tables.push(mk("L", looked));
            System { name: format!("ctl-top{topology}-d{degree}"), tables, ctls: vec![CtlSpec { looking: twcs, looked: looked_twc(nl), extra: vec![] }] }
        }
        7 => {
            let b = rnd_table(r, n(1), 1);
            let mut t = rnd_table(r, 16.max(n(0)), 1);
            let one = |table: usize, c: usize, f: usize| TwcSpec { table, cols: vec![ColSpec::single(c)], filter: FilterSpec::simple(ColSpec::single(f)) };
            let (tl, bl) = (one(0, 0, 2), one(1, 0, 2));
            let ent = entries_of(&[&tl, &bl], &[&t, &b]);
            assert!(ent.len() <= t.len());
            for row in t.iter_mut() { row[3] = F::ZERO }
            for (i, (tuple, _)) in ent.iter().enumerate() { t[i][1] = tuple[0]; t[i][3] = F::ONE }
            System { name: format!("ctl-top7-d{degree}"), tables: vec![mk("T", t), mk("B", b)],
                     ctls: vec![CtlSpec { looking: vec![tl, bl], looked: one(0, 1, 3), extra: vec![] }] }
        }
        1 | 2 | 6 => {
            let a = rnd_table(r, n(0), 1);
            let b = rnd_table(r, n(1), 1);
            let twcs = if topology == 1 { vec![looking_variant(0, 0), looking_variant(0, 4), looking_variant(1, 0)] }
                       else if topology == 6 { vec![looking_variant(0, 0), looking_variant(0, 4), looking_variant(0, 3), looking_variant(1, 2)] }
                       else { vec![looking_variant(0, 0), looking_variant(1, 0), looking_variant(0, 4)] };
            let tabs: Vec<&Vec<Vec<F>>> = twcs.iter().map(|t| if t.table == 0 { &a } else { &b }).collect();
            let ent = entries_of(&twcs.iter().collect::<Vec<_>>(), &tabs);
            let nlooked = (ent.len().max(4)).next_power_of_two().max(n(2));
            let looked = fill_looked(r, nlooked, &ent, None);
            System { name: format!("ctl-top{topology}-d{degree}"), tables: vec![mk("A", a), mk("B", b), mk("L", looked)],
                     ctls: vec![CtlSpec { looking: twcs, looked: looked_twc(2), extra: vec![] }] }
        }
        3 => {
            let a = rnd_table(r, n(0), 1);
            let ta = looking_variant(0, 3);
            let ent_a = entries_of(&[&ta], &[&a]);
            let nb = (ent_a.len().max(4)).next_power_of_two().max(n(1));
            let b = fill_looked(r, nb, &ent_a, None);
            // B looks into L with its rows where g (column 3) = 1
            let tb = looking_variant(1, 4);
            let ent_b = entries_of(&[&tb], &[&b]);
            let nlk = (ent_b.len().max(4)).next_power_of_two().max(n(2));
            let l = fill_looked(r, nlk, &ent_b, None);
            System { name: format!("ctl-top3-d{degree}"), tables: vec![mk("A", a), mk("B", b), mk("L", l)],
                     ctls: vec![CtlSpec { looking: vec![ta], looked: looked_twc(1), extra: vec![] },
                                CtlSpec { looking: vec![tb], looked: looked_twc(2), extra: vec![] }] }
        }
        _ => {
            let a = rnd_table(r, n(0), 1);
            let ta = looking_variant(0, 2);
            let mut ent = entries_of(&[&ta], &[&a]);
            let extra: Vec<Vec<F>> = (0..2).map(|_| vec![fe(r.below(50)), fe(100 + r.below(50))]).collect();
            for e in &extra { ent.push((e.clone(), F::ONE)) }
            let nlk = (ent.len().max(4)).next_power_of_two().max(n(1));
            let l = fill_looked(r, nlk, &ent, None);
            System { name: format!("ctl-top4-d{degree}"), tables: vec![mk("A", a), mk("L", l)],
                     ctls: vec![CtlSpec { looking: vec![ta], looked: looked_twc(1), extra }] }
        }
    }
}

fn system_cases(w: &mut dyn Write, r: &mut Rng, sys: &mut System, cname: &str, cfg: &StarkConfig) -> usize {
    let fam = format!("{}/{}", sys.name, cname);
    let mut cnt = 0;
    let constraints_ok = |s: &System| s.tables.iter().all(|t| t.spec.violated(&t.rows, &t.pis).is_none());
    let holds = ctl_holds(sys) && constraints_ok(sys);
    ctlsys_line(w, sys);
    let (po, vo, proofs) = pv_system(sys, cfg, None);
    writeln!(w, "c10 {fam} honest = {} # holds={} prover={po} verify={vo}", accepted_iff(holds, &vo) as u8, holds as u8).unwrap();
    cnt += 2;
    // a table that is looking AND looked: the library's helper count is off (known finding above); with the counts
    // the prover really uses the system must behave like any other - honest accepted, every corruption rejected
    let self_looking = sys.ctls.iter().any(|c| c.looking.iter().any(|t| t.table == c.looked.table));
    if holds && vo != "ok" && self_looking {
        if let Some(ps) = &proofs {
            let v2 = vs_own(sys, cfg, ps);
            writeln!(w, "c10 {fam} honest-own-helper-counts = {} # holds=1 verify={v2}", (v2 == "ok") as u8).unwrap();
            cnt += 1;
            if v2 == "ok" {
                for ti in 0..sys.tables.len() {
                    let nrows = sys.tables[ti].rows.len();
                    let Some(i) = (0..nrows).find(|&i| sys.tables[ti].rows[i][2] == F::ONE) else { continue };
                    for col in [0usize, 1] {
                        let old = sys.tables[ti].rows[i][col];
                        sys.tables[ti].rows[i][col] = old + F::ONE;
                        let h2 = ctl_holds(sys) && constraints_ok(sys);
                        let (po, _, ps2) = pv_system(sys, cfg, None);
                        let v3 = ps2.as_ref().map(|p| vs_own(sys, cfg, p)).unwrap_or("-".into());
                        writeln!(w, "c10 {fam} corrupt-own-helper-counts:table{ti}:selected-value:col{col} = {} # row={i} holds={} prover={po} verify={v3}",
                                 accepted_iff(h2, &v3) as u8, h2 as u8).unwrap();
                        cnt += 1;
                        sys.tables[ti].rows[i][col] = old;
                    }
                }
            }
        }
    }
    if !holds || vo != "ok" { return cnt; }
    let _ = &proofs;
    cnt += ctl_shift_cases(w, r, sys, cname, cfg);
    // single-value corruptions: a filtered / unfiltered cell of every table, a filter flip, an extra value
    for ti in 0..sys.tables.len() {
        let nrows = sys.tables[ti].rows.len();
        let filtered = (0..nrows).find(|&i| sys.tables[ti].rows[i][2] == F::ONE);
        let unfiltered = (0..nrows).find(|&i| sys.tables[ti].rows[i][2] == F::ZERO && sys.tables[ti].rows[i][3] == F::ZERO
                                         && sys.tables[ti].rows[(i + nrows - 1) % nrows][2] == F::ZERO);
        let mut todo: Vec<(usize, usize, &str)> = vec![];
        if let Some(i) = filtered { todo.push((i, 0, "selected-value")); todo.push((i, 1, "selected-value")); todo.push((i, 2, "filter-off")) }
        if let Some(i) = unfiltered { todo.push((i, 0, "unselected-value")); todo.push((i, 2, "filter-on")) }
        todo.push((nrows - 1, 1, "last-row-value"));
        todo.push((0, 1, "first-row-value"));
        for (row, col, what) in todo {
            let old = sys.tables[ti].rows[row][col];
            sys.tables[ti].rows[row][col] = if col >= 2 { F::ONE - old } else { old + F::ONE + fe(r.below(1000)) };
            let holds = ctl_holds(sys) && constraints_ok(sys);
            ctlsys_line(w, sys);
            let (po, vo, _) = pv_system(sys, cfg, None);
            writeln!(w, "c10 {fam} corrupt:table{ti}:{what} = {} # row={row} col={col} holds={} prover={po} verify={vo}",
                     accepted_iff(holds, &vo) as u8, holds as u8).unwrap();
            sys.tables[ti].rows[row][col] = old;
            cnt += 2;
        }
    }
    for ci in 0..sys.ctls.len() {
        if !sys.ctls[ci].extra.is_empty() {
            let old = sys.ctls[ci].extra[0][0];
            sys.ctls[ci].extra[0][0] += F::ONE;
            let holds = ctl_holds(sys);
            ctlsys_line(w, sys);
            let (po, vo, _) = pv_system(sys, cfg, None);
            writeln!(w, "c10 {fam} corrupt:extra-looking-value = {} # holds={} prover={po} verify={vo}", accepted_iff(holds, &vo) as u8, holds as u8).unwrap();
            sys.ctls[ci].extra[0][0] = old;
            let e = sys.ctls[ci].extra.pop().unwrap();
            let holds = ctl_holds(sys);
            let (po, vo, _) = pv_system(sys, cfg, None);
            writeln!(w, "c10 {fam} corrupt:extra-looking-value-dropped = {} # holds={} prover={po} verify={vo}", accepted_iff(holds, &vo) as u8, holds as u8).unwrap();
            sys.ctls[ci].extra.push(e);
            cnt += 3;
        }
    }
    // CTL helper / Z columns altered after the honest computation (prover knob), every table
    if let Some(proofs) = &proofs {
        for ti in 0..sys.tables.len() {
            let naux = proofs[ti].proof.openings.auxiliary_polys.as_ref().map_or(0, |v| v.len());
            let nrows = sys.tables[ti].rows.len();
            for col in 0..naux {
                for row in [0usize, nrows / 2, nrows - 1] {
                    let (po, vo, _) = pv_system(sys, cfg, Some((ti, col, row, 1 + r.below(1 << 40))));
                    writeln!(w, "c10 {fam} corrupt:table{ti}:ctl-aux-column{col}:row{row} = {} # prover={po} verify={vo}", (vo != "ok") as u8).unwrap();
                    cnt += 1;
                }
            }
        }
        // the first-row openings handed to verify_cross_table_lookups
        for ti in 0..sys.tables.len() {
            let mut q = proofs.clone();
            if let Some(z) = q[ti].proof.openings.ctl_zs_first.as_mut() { if !z.is_empty() { z[0] += F::ONE } }
            let vo = vs(sys, cfg, &q);
            writeln!(w, "c10 {fam} tamper:table{ti}:ctl_zs_first[0]+1 = {} # verify={vo}", (vo != "ok") as u8).unwrap();
            cnt += 1;
            for (what, f) in [("None", 0usize), ("drop-last", 1), ("one-more", 2)] {
                let mut q = proofs.clone();
                match f {
                    0 => q[ti].proof.openings.ctl_zs_first = None,
                    1 => { if let Some(z) = q[ti].proof.openings.ctl_zs_first.as_mut() { z.pop(); } }
                    _ => { if let Some(z) = q[ti].proof.openings.ctl_zs_first.as_mut() { z.push(F::ZERO) } }
                }
                let vo = vs(sys, cfg, &q);
                // malformed input at the multi-table entry: reported as a c18stark-style line
                writeln!(w, "c18ctl {fam} table{ti}:ctl_zs_first:{what} = {} ", if vo.starts_with("err") { "err" } else { &vo }).unwrap();
                cnt += 1;
            }
        }
        // malformed auxiliary openings / FRI part at the multi-table entry: CtlCheckVars::from_proof and
        // get_challenges read them before any shape validation can run (validate_proof_shape needs their counts)
        for ti in 0..sys.tables.len().min(2) {
            for (what, f) in [("auxiliary_polys:None", 0usize), ("auxiliary_polys:drop-last", 1), ("auxiliary_polys_next:None", 2), ("auxiliary_polys_next:empty", 3),
                              ("auxiliary_polys:empty", 4), ("query_round_proofs:empty", 5), ("first-round:evals_proofs:empty", 6)] {
                let mut q = proofs.clone();
                let o = &mut q[ti].proof.openings;
                match f {
                    0 => o.auxiliary_polys = None,
                    1 => { if let Some(v) = o.auxiliary_polys.as_mut() { v.pop(); } }
                    2 => o.auxiliary_polys_next = None,
                    3 => o.auxiliary_polys_next = Some(vec![]),
                    4 => o.auxiliary_polys = Some(vec![]),
                    5 => q[ti].proof.opening_proof.query_round_proofs.clear(),
                    _ => { if let Some(r0) = q[ti].proof.opening_proof.query_round_proofs.first_mut() { r0.initial_trees_proof.evals_proofs.clear() } }
                }
                let vo = vs(sys, cfg, &q);
                writeln!(w, "c18ctl {fam} table{ti}:{what} = {} ", if vo.starts_with("err") { "err" } else { &vo }).unwrap();
                cnt += 1;
            }
        }
        // proofs of two tables swapped
        if sys.tables.len() >= 2 {
            let mut q = proofs.clone();
            q.swap(0, 1);
            let vo = vs(sys, cfg, &q);
            writeln!(w, "c10 {fam} tamper:tables-0-1-swapped = {} # verify={vo}", (vo != "ok") as u8).unwrap();
            cnt += 1;
        }
    }
    cnt
}

/// direct calls of verify_cross_table_lookups on synthetic first-row openings
fn synthetic_ctl_sums(w: &mut dyn Write, r: &mut Rng, count: usize) -> usize {
    let mut cnt = 0;
    for k in 0..count {
        let nch = 1 + r.below(3) as usize;
        let cfg = StarkConfig::new(10, nch, stark_configs()[0].1.fri_config.clone());
        // looking tables 0, 1 (table 0 twice), looked table 2
        let twc = |t: usize| looking_variant(t, 0).to_twc();
        let ctls = vec![CrossTableLookup::new(vec![twc(0), twc(1), twc(0)], twc(2))];
        let z0: Vec<F> = (0..nch).map(|_| rf(r)).collect();
        let z1: Vec<F> = (0..nch).map(|_| rf(r)).collect();
        let ex: Vec<F> = (0..nch).map(|_| if k % 2 == 0 { F::ZERO } else { rf(r) }).collect();
        let mut z2: Vec<F> = (0..nch).map(|c| z0[c] + z1[c] + ex[c]).collect();
        let mut extra: HashMap<usize, Vec<F>> = HashMap::new();
        if k % 2 == 1 { extra.insert(0, ex.clone()); }
        let good = k % 3 != 2;
        if !good { let c = r.below(nch as u64) as usize; z2[c] += F::ONE }
        let o = verdict(|| verify_cross_table_lookups::<F, D, 3>(&ctls, [z0.clone(), z1.clone(), z2.clone()], &extra, &cfg));
        writeln!(w, "c10 ctl-sum-check synthetic:{k} = {} # table 0 counted once although it occurs twice; expected {} got {o}",
                 accepted_iff(good, &o) as u8, if good { "ok" } else { "err" }).unwrap();
        cnt += 1;
    }
    cnt
}


// ------------------------------------------------------------------------------------------
// correspondence lines for Model/StarkLookup.v

fn enc_lookup(l: &LookupSpec, v: &mut Vec<u64>) {
    v.push(l.columns.len() as u64);
    for (c, f) in l.columns.iter().zip(&l.filters) { enc_col(c, v); enc_filter(f, v) }
    enc_col(&l.table, v);
    enc_col(&l.freq, v);
}
fn cols_out(cols: Vec<PolynomialValues<F>>) -> String {
    join(&cols.iter().flat_map(|c| c.values.iter().map(|x| x.to_canonical_u64())).collect::<Vec<_>>())
}

/// `lkcols challenge degree <lookup> <rows> = all helper columns then Z, concatenated`
fn lkcols_line(w: &mut dyn Write, l: &LookupSpec, rows: &[Vec<F>], challenge: F, degree: usize) {
    let mut v = vec![challenge.to_canonical_u64(), degree as u64];
    enc_lookup(l, &mut v);
    enc_rows(rows, &mut v);
    let lookup = starky::lookup::Lookup {
        columns: l.columns.iter().map(|c| c.to_column()).collect(),
        table_column: l.table.to_column(),
        frequencies_column: l.freq.to_column(),
        filter_columns: l.filters.iter().map(|f| f.to_filter()).collect(),
    };
    let trace = to_poly_values(rows, rows[0].len());
    let res = catch_unwind(AssertUnwindSafe(|| starky::verif_hooks::lookup_helper_columns(&lookup, &trace, challenge, degree)));
    writeln!(w, "lkcols {} = {}", join(&v), match res { Ok(c) => cols_out(c), Err(_) => "panic".into() }).unwrap();
}

/// `psums beta gamma degree <list of (columns, filter)> <rows> = helper columns then Z (or Z alone)`
fn psums_line(w: &mut dyn Write, twcs: &[&TwcSpec], rows: &[Vec<F>], beta: F, gamma: F, degree: usize) {
    let mut v = vec![beta.to_canonical_u64(), gamma.to_canonical_u64(), degree as u64, twcs.len() as u64];
    for t in twcs {
        v.push(t.cols.len() as u64);
        for c in &t.cols { enc_col(c, &mut v) }
        enc_filter(&t.filter, &mut v);
    }
    enc_rows(rows, &mut v);
    let cols: Vec<Vec<starky::lookup::Column<F>>> = twcs.iter().map(|t| t.cols.iter().map(|c| c.to_column()).collect()).collect();
    let fs: Vec<starky::lookup::Filter<F>> = twcs.iter().map(|t| t.filter.to_filter()).collect();
    let cfs: Vec<(&[starky::lookup::Column<F>], &starky::lookup::Filter<F>)> = cols.iter().zip(&fs).map(|(c, f)| (&c[..], f)).collect();
    let trace = to_poly_values(rows, rows[0].len());
    let ch = starky::lookup::GrandProductChallenge { beta, gamma };
    let res = catch_unwind(AssertUnwindSafe(|| starky::verif_hooks::ctl_partial_sums(&trace, &cfs, ch, degree)));
    writeln!(w, "psums {} = {}", join(&v), match res { Ok(c) => cols_out(c), Err(_) => "panic".into() }).unwrap();
}

fn enc_consumer(alphas: &[FE], zl: FE, l0: FE, ll: FE, v: &mut Vec<u64>) {
    v.push(alphas.len() as u64);
    for a in alphas { v.extend(ext2(*a)) }
    v.extend(ext2(zl)); v.extend(ext2(l0)); v.extend(ext2(ll));
}

/// `lkeval degree <consumer> <lookups> <challenges> ncols local.. next.. naux auxl.. auxn.. = accumulators`
fn lkeval_line(w: &mut dyn Write, r: &mut Rng, b: &Built, nch: usize, aux_short: usize) {
    let drv = driver(b.spec.clone());
    let na = r.below(3) as usize + 1;
    let alphas: Vec<FE> = (0..na).map(|_| rfe(r)).collect();
    let (zl, l0, ll) = (rfe(r), rfe(r), rfe(r));
    let nc = b.spec.ncols;
    let lv: Vec<FE> = (0..nc).map(|_| rfe(r)).collect();
    let nv: Vec<FE> = (0..nc).map(|_| rfe(r)).collect();
    let chs: Vec<F> = (0..nch).map(|_| rf(r)).collect();
    let naux: usize = b.spec.lookups.iter().map(|l| (l.columns.len().div_ceil(b.spec.degree.checked_sub(1).unwrap_or(1).max(1)) + 1) * nch).sum::<usize>().saturating_sub(aux_short);
    let auxl: Vec<FE> = (0..naux).map(|_| rfe(r)).collect();
    let auxn: Vec<FE> = (0..naux).map(|_| rfe(r)).collect();
    let mut v = vec![b.spec.degree as u64];
    enc_consumer(&alphas, zl, l0, ll, &mut v);
    v.push(b.spec.lookups.len() as u64);
    for l in &b.spec.lookups { enc_lookup(l, &mut v) }
    v.push(nch as u64);
    v.extend(chs.iter().map(|x| x.to_canonical_u64()));
    v.push(nc as u64);
    for x in lv.iter().chain(&nv) { v.extend(ext2(*x)) }
    v.push(naux as u64);
    for x in auxl.iter().chain(&auxn) { v.extend(ext2(*x)) }
    let res = (drv.lkeval)(&alphas, zl, l0, ll, &lv, &nv, &auxl, &auxn, &chs);
    writeln!(w, "lkeval {} = {}", join(&v), match res { Some(a) => join(&a.into_iter().flat_map(ext2).collect::<Vec<_>>()), None => "panic".into() }).unwrap();
}

/// `ctleval degree <consumer> <helpers> local_z next_z beta gamma <column lists> <filters> 4 local.. next.. = accumulators`
fn ctleval_line(w: &mut dyn Write, r: &mut Rng, twcs: &[TwcSpec], nhelpers: usize, degree: usize) {
    use plonky2::field::extension::FieldExtension;
    use starky::evaluation_frame::{StarkEvaluationFrame, StarkFrame};
    let na = r.below(3) as usize + 1;
    let alphas: Vec<FE> = (0..na).map(|_| rfe(r)).collect();
    let (zl, l0, ll) = (rfe(r), rfe(r), rfe(r));
    let hs: Vec<FE> = (0..nhelpers).map(|_| rfe(r)).collect();
    let (lz, nz) = (rfe(r), rfe(r));
    let (beta, gamma) = (rf(r), rf(r));
    let lv: Vec<FE> = (0..4).map(|_| rfe(r)).collect();
    let nv: Vec<FE> = (0..4).map(|_| rfe(r)).collect();
    let mut v = vec![degree as u64];
    enc_consumer(&alphas, zl, l0, ll, &mut v);
    v.push(hs.len() as u64);
    for x in &hs { v.extend(ext2(*x)) }
    v.extend(ext2(lz)); v.extend(ext2(nz));
    v.push(beta.to_canonical_u64()); v.push(gamma.to_canonical_u64());
    v.push(twcs.len() as u64);
    for t in twcs { v.push(t.cols.len() as u64); for c in &t.cols { enc_col(c, &mut v) } }
    v.push(twcs.len() as u64);
    for t in twcs { enc_filter(&t.filter, &mut v) }
    v.push(4);
    for x in lv.iter().chain(&nv) { v.extend(ext2(*x)) }
    let cols: Vec<Vec<starky::lookup::Column<F>>> = twcs.iter().map(|t| t.cols.iter().map(|c| c.to_column()).collect()).collect();
    let res = catch_unwind(AssertUnwindSafe(|| {
        let vars = StarkFrame::<FE, FE, 4, 0>::from_values(&lv, &nv, &[]);
        let cv = starky::verif_hooks::ctl_check_vars::<F, D>(hs.clone(), lz, nz, starky::lookup::GrandProductChallenge { beta, gamma },
                     cols.iter().map(|c| &c[..]).collect(), twcs.iter().map(|t| t.filter.to_filter()).collect());
        let mut consumer = starky::constraint_consumer::ConstraintConsumer::<FE>::new(alphas.clone(), zl, l0, ll);
        starky::verif_hooks::eval_ctl_checks_ext::<F, S4, D>(&vars, &[cv], &mut consumer, degree);
        consumer.accumulators()
    }));
    let _ = <FE as FieldExtension<D>>::from_basefield;
    writeln!(w, "ctleval {} = {}", join(&v), match res { Ok(a) => join(&a.into_iter().flat_map(ext2).collect::<Vec<_>>()), Err(_) => "panic".into() }).unwrap();
}

/// C11 unit level: `eval_cross_table_lookup_checks_circuit` against the native evaluator on the same explicit
/// values (random looking-table selections incl. a table repeated among the looking tables, with and without
/// helper columns). Lines `c11 ctl-evaluator <case> = <1|0> # exp=1 native=ok outer=<ok|differs|..>`.
/// The final cross-table check in-circuit (`verify_cross_table_lookups_circuit`) against the native one
/// (`verify_cross_table_lookups`) on explicit first-row openings: two or three tables, one or two lookups, with and
/// without declared extra looking sums, consistent sums and sums off by a delta.  The outer circuit's first virtual
/// target is a free witness of the embedding circuit; the verdict must not depend on its value.
pub fn ctl_sum_circuit_cases(w: &mut dyn Write, r: &mut Rng, count: usize) -> usize {
    use plonky2::iop::target::Target;
    use plonky2::iop::witness::{PartialWitness, WitnessWrite};
    use plonky2::plonk::circuit_builder::CircuitBuilder;
    use plonky2::plonk::circuit_data::CircuitConfig;
    use starky::cross_table_lookup::verify_cross_table_lookups_circuit;
    use starky::lookup::{Column, Filter};
    let mut n = 0;
    let cfg = StarkConfig::standard_fast_config();
    let nch = cfg.num_challenges;
    for i in 0..count {
        // lookup 0: table 0 (and, every other case, table 2) looking into table 1; lookup 1 (every third case): 2 -> 0
        let three = i % 2 == 1;
        let second = i % 3 == 2;
        let twc = |t: usize| TableWithColumns::<F>::new(t, vec![Column::single(0)], Filter::new_simple(Column::one()));
        let mut shape: Vec<(Vec<usize>, usize)> = vec![(if three { vec![0, 2] } else { vec![0] }, 1)];
        if second { shape.push((vec![2], 0)); }
        let ctls: Vec<CrossTableLookup<F>> = shape.iter().map(|(l, d)| CrossTableLookup::new(l.iter().map(|&t| twc(t)).collect(), twc(*d))).collect();
        // openings per table in the order verify_cross_table_lookups consumes them: for each lookup, for each challenge,
        // the looking tables' Z(1), then the looked table's
        let with_extra = i % 4 >= 2;
        let delta = if i % 5 == 0 { 0 } else { 1 + r.below(1000) };
        let mut zs: [Vec<F>; 3] = [vec![], vec![], vec![]];
        let mut extra: HashMap<usize, Vec<F>> = HashMap::new();
        for (li, (looking, looked)) in shape.iter().enumerate() {
            let mut ex = vec![];
            for _c in 0..nch {
                let mut sum = F::ZERO;
                for &t in looking.iter() { let v = rf10(r); zs[t].push(v); sum += v; }
                let e = if with_extra && li == 0 { rf10(r) } else { F::ZERO };
                ex.push(e);
                zs[*looked].push(sum + e + F::from_canonical_u64(delta));
            }
            if with_extra && li == 0 { extra.insert(li, ex); }
        }
        let native = match catch_unwind(AssertUnwindSafe(|| verify_cross_table_lookups::<F, D, 3>(&ctls, zs.clone(), &extra, &cfg))) {
            Ok(Ok(())) => "ok".to_string(), Ok(Err(_)) => "err".into(), Err(_) => panic_site() };
        for first in [0u64, delta, 1 + r.below(1 << 30)] {
            let res = catch_unwind(AssertUnwindSafe(|| {
                let mut b = CircuitBuilder::<F, D>::new(CircuitConfig::standard_recursion_config());
                let first_t = b.add_virtual_target();
                assert_eq!(first_t, Target::default());
                let zt: [Vec<Target>; 3] = [b.add_virtual_targets(zs[0].len()), b.add_virtual_targets(zs[1].len()), b.add_virtual_targets(zs[2].len())];
                let mut et: HashMap<usize, Vec<Target>> = HashMap::new();
                for (k, v) in extra.iter() { et.insert(*k, b.add_virtual_targets(v.len())); }
                for t in zt.iter() { b.register_public_inputs(t); }
                verify_cross_table_lookups_circuit::<F, D, 3>(&mut b, ctls.clone(), zt.clone(), &et, &cfg);
                let data = b.build::<C>();
                let mut pw = PartialWitness::new();
                pw.set_target(first_t, F::from_canonical_u64(first)).unwrap();
                for (t, v) in zt.iter().zip(zs.iter()) { pw.set_target_arr(t, v).unwrap(); }
                for (k, t) in et.iter() { pw.set_target_arr(t, &extra[k]).unwrap(); }
                data.prove(pw).and_then(|p| data.verify(p))
            }));
            let outer = match res { Ok(Ok(())) => "ok".to_string(), Ok(Err(_)) => "err".into(), Err(_) => "err:panic".into() };
            writeln!(w, "c11 ctlsum-{}tables-{}lookups{} case{i}-first{} = {} # exp={} native={native} outer={outer} delta={delta} first_virtual_target={first}",
                     if three { 3 } else { 2 }, ctls.len(), if with_extra { "-extra" } else { "" }, if first == 0 { "zero" } else if first == delta { "delta" } else { "random" },
                     ((native == "ok") == (outer == "ok")) as u8, (native == "ok") as u8).unwrap();
            n += 1;
        }
    }
    n
}

fn rf10(r: &mut Rng) -> F { F::from_noncanonical_u64(r.next_u64()) }

pub fn ctl_circuit_cases(w: &mut dyn Write, r: &mut Rng, count: usize) -> usize {
    use plonky2::iop::witness::{PartialWitness, WitnessWrite};
    use plonky2::plonk::circuit_builder::CircuitBuilder;
    use plonky2::plonk::circuit_data::CircuitConfig;
    use starky::constraint_consumer::RecursiveConstraintConsumer;
    use starky::evaluation_frame::{StarkEvaluationFrame, StarkFrame};
    let mut n = 0;
    for i in 0..count {
        let degree = 3usize;
        let k = 1 + (i % 4);                       // number of looking selections batched into this Z
        let twcs: Vec<TwcSpec> = (0..k).map(|j| looking_variant(0, (i + j) % 5)).collect();
        // the library gives a repeated table ceil(k / (degree - 1)) helper columns; `CtlZData::new` (public) also
        // allows two selections WITHOUT helper columns, which both evaluators handle in a branch of their own
        let nhelpers = if k == 1 || (k == 2 && i % 8 >= 4) { 0 } else { k.div_ceil(degree - 1) };
        let na = 1 + r.below(2) as usize;
        let alphas: Vec<F> = (0..na).map(|_| rf(r)).collect();
        let (zl, l0, ll) = (rfe(r), rfe(r), rfe(r));
        let hs: Vec<FE> = (0..nhelpers).map(|_| rfe(r)).collect();
        let (lz, nz) = (rfe(r), rfe(r));
        let (beta, gamma) = (rf(r), rf(r));
        let lv: Vec<FE> = (0..4).map(|_| rfe(r)).collect();
        let nv: Vec<FE> = (0..4).map(|_| rfe(r)).collect();
        let cols: Vec<Vec<starky::lookup::Column<F>>> = twcs.iter().map(|t| t.cols.iter().map(|c| c.to_column()).collect()).collect();
        let filters = || -> Vec<starky::lookup::Filter<F>> { twcs.iter().map(|t| t.filter.to_filter()).collect() };
        let alphas_e: Vec<FE> = alphas.iter().map(|a| feb(*a)).collect();
        let native = catch_unwind(AssertUnwindSafe(|| {
            let vars = StarkFrame::<FE, FE, 4, 0>::from_values(&lv, &nv, &[]);
            let cv = starky::verif_hooks::ctl_check_vars::<F, D>(hs.clone(), lz, nz, starky::lookup::GrandProductChallenge { beta, gamma },
                         cols.iter().map(|c| &c[..]).collect(), filters());
            let mut consumer = starky::constraint_consumer::ConstraintConsumer::<FE>::new(alphas_e.clone(), zl, l0, ll);
            starky::verif_hooks::eval_ctl_checks_ext::<F, S4, D>(&vars, &[cv], &mut consumer, degree);
            consumer.accumulators()
        }));
        let circuit = catch_unwind(AssertUnwindSafe(|| {
            let mut b = CircuitBuilder::<F, D>::new(CircuitConfig::standard_recursion_config());
            let lv_t = b.add_virtual_extension_targets(4);
            let nv_t = b.add_virtual_extension_targets(4);
            let hs_t = b.add_virtual_extension_targets(nhelpers);
            let (lz_t, nz_t) = (b.add_virtual_extension_target(), b.add_virtual_extension_target());
            let (beta_t, gamma_t) = (b.add_virtual_target(), b.add_virtual_target());
            let alphas_t = b.add_virtual_targets(na);
            let (zl_t, l0_t, ll_t) = (b.add_virtual_extension_target(), b.add_virtual_extension_target(), b.add_virtual_extension_target());
            let zero = b.zero_extension();
            let vars = StarkFrame::<plonky2::iop::ext_target::ExtensionTarget<D>, plonky2::iop::ext_target::ExtensionTarget<D>, 4, 0>::from_values(&lv_t, &nv_t, &[]);
            let cv = starky::verif_hooks::ctl_check_vars_target::<F, D>(hs_t.clone(), lz_t, nz_t, starky::lookup::GrandProductChallenge { beta: beta_t, gamma: gamma_t },
                         cols.clone(), filters());
            let mut consumer = RecursiveConstraintConsumer::<F, D>::new(zero, alphas_t.clone(), zl_t, l0_t, ll_t);
            starky::verif_hooks::eval_ctl_checks_circuit::<F, S4, D>(&mut b, &vars, &[cv], &mut consumer, degree);
            let acc = consumer.accumulators();
            let mut pw = PartialWitness::new();
            pw.set_extension_targets(&lv_t, &lv).unwrap();
            pw.set_extension_targets(&nv_t, &nv).unwrap();
            pw.set_extension_targets(&hs_t, &hs).unwrap();
            pw.set_extension_target(lz_t, lz).unwrap(); pw.set_extension_target(nz_t, nz).unwrap();
            pw.set_target(beta_t, beta).unwrap(); pw.set_target(gamma_t, gamma).unwrap();
            for (t, a) in alphas_t.iter().zip(&alphas) { pw.set_target(*t, *a).unwrap(); }
            pw.set_extension_target(zl_t, zl).unwrap(); pw.set_extension_target(l0_t, l0).unwrap(); pw.set_extension_target(ll_t, ll).unwrap();
            let data = b.mock_build::<C>();
            let wit = data.generate_witness(pw);
            acc.iter().map(|t| plonky2::iop::witness::Witness::get_extension_target(&wit, *t)).collect::<Vec<FE>>()
        }));
        let (ok, outer) = match (&native, &circuit) {
            (Ok(a), Ok(c)) => (a == c, if a == c { "ok".to_string() } else { "differs".to_string() }),
            (Err(_), Err(_)) => (true, "both-panic".into()),
            (Ok(_), Err(_)) => (false, format!("circuit-{}", panic_site())),
            (Err(_), Ok(_)) => (false, "native-panic".into()),
        };
        writeln!(w, "c11 ctl-evaluator selections{k}-variant{} = {} # exp=1 native=ok outer={outer} helpers={nhelpers}", i % 5, ok as u8).unwrap();
        n += 1;
    }
    n
}

/// `ctlsum nch <per table openings> <per CTL: looking tables, looked table, has_extra, [extra]> = 1|0|panic`
fn ctlsum_line(w: &mut dyn Write, r: &mut Rng, k: usize) {
    let nch = 1 + r.below(3) as usize;
    let cfg = StarkConfig::new(10, nch, stark_configs()[0].1.fri_config.clone());
    let nctl = 1 + r.below(2) as usize;
    // tables 0..3; CTL i: looking tables with repetitions (adjacent or not), looked table
    let mut decls: Vec<(Vec<usize>, usize, Option<Vec<F>>)> = vec![];
    for _ in 0..nctl {
        let nl = 1 + r.below(3) as usize;
        let looking: Vec<usize> = (0..nl).map(|_| r.below(2) as usize).collect();
        let looked = 2;
        let extra = if r.below(3) == 0 { Some((0..(if k % 11 == 10 { nch - 1 } else { nch })).map(|_| rf(r)).collect()) } else { None };
        decls.push((looking, looked, extra));
    }
    // consistent openings, then optionally perturbed / truncated
    let mut zs: Vec<Vec<F>> = vec![vec![], vec![], vec![]];
    for (looking, looked, extra) in &decls {
        let mut seen: Vec<usize> = vec![];
        for &t in looking { if !seen.contains(&t) { seen.push(t) } }
        for c in 0..nch {
            let mut s = F::ZERO;
            for &t in &seen { let z = rf(r); zs[t].push(z); s += z }
            if let Some(e) = extra { if let Some(x) = e.get(c) { s += *x } }
            zs[*looked].push(s);
        }
    }
    match k % 7 {
        1 => { let t = r.below(3) as usize; if !zs[t].is_empty() { let i = r.below(zs[t].len() as u64) as usize; zs[t][i] += F::ONE } }
        2 => { let t = r.below(3) as usize; zs[t].pop(); }
        3 => { let t = r.below(3) as usize; zs[t].push(rf(r)); }
        _ => {}
    }
    let mut v = vec![nch as u64, 3];
    for z in &zs { v.push(z.len() as u64); v.extend(z.iter().map(|x| x.to_canonical_u64())) }
    v.push(decls.len() as u64);
    for (looking, looked, extra) in &decls {
        v.push(looking.len() as u64);
        v.extend(looking.iter().map(|&t| t as u64));
        v.push(*looked as u64);
        match extra { Some(e) => { v.push(1); v.push(e.len() as u64); v.extend(e.iter().map(|x| x.to_canonical_u64())) } None => v.push(0) }
    }
    let twc = |t: usize| looking_variant(t, 0).to_twc();
    let ctls: Vec<CrossTableLookup<F>> = decls.iter().map(|(l, k, _)| CrossTableLookup::new(l.iter().map(|&t| twc(t)).collect(), twc(*k))).collect();
    let mut extra: HashMap<usize, Vec<F>> = HashMap::new();
    for (i, (_, _, e)) in decls.iter().enumerate() { if let Some(e) = e { extra.insert(i, e.clone()); } }
    let o = verdict(|| verify_cross_table_lookups::<F, D, 3>(&ctls, [zs[0].clone(), zs[1].clone(), zs[2].clone()], &extra, &cfg));
    writeln!(w, "ctlsum {} = {}", join(&v), if o == "ok" { "1" } else if o.starts_with("err") { "0" } else { "panic" }).unwrap();
}

fn correspondence_lines(w: &mut dyn Write, r: &mut Rng, thorough: bool) -> usize {
    let mut cnt = 0;
    let reps = if thorough { 4 } else { 1 };
    for _ in 0..reps {
        for k in 1..=4usize {
            for degree in [0usize, 1, 2, 3, 4] {
                for fancy in [false, true] {
                    let n = 1usize << (2 + r.below(3));
                    let (b, _) = build_perm_info(r, n.max(4), k, degree.max(2), fancy);
                    let l = &b.spec.lookups[0];
                    let ch = rf(r);
                    lkcols_line(w, l, &b.rows, ch, degree);
                    cnt += 1;
                    if degree == 2 {
                        // a challenge that makes table + challenge / looking + challenge zero: batch inverse of 0
                        let t0 = l.table.eval_rows(&b.rows, 1);
                        lkcols_line(w, l, &b.rows, -t0, degree);
                        let mut rows = b.rows.clone();
                        rows[0][l.freq.lin[0].0] += F::ONE;        // dishonest frequencies: the columns are still computed
                        let ch = rf(r);
                        lkcols_line(w, l, &rows, ch, degree);
                        cnt += 2;
                    }
                    if degree >= 2 && degree <= 3 {
                        let spec = Arc::new(FamSpec { name: "x".into(), degree, ncols: b.spec.ncols, npi: b.spec.npi, cons: vec![], lookups: b.spec.lookups.clone(), ctl: false });
                        let bb = Built { spec, rows: vec![], pis: vec![], cols: vec![] };
                        let nch = 1 + r.below(2) as usize;
                        lkeval_line(w, r, &bb, nch, 0);
                        cnt += 1;
                        if k == 2 { lkeval_line(w, r, &bb, 2, 1); cnt += 1; }     // auxiliary openings one short: slice panic
                        // table and frequency columns that read the next row as well (evaluated by the constraints as the
                        // prover evaluates them: Column::eval_with_next)
                        let mut lks = b.spec.lookups.clone();
                        let (tc, fc) = (lks[0].table.lin[0].0, lks[0].freq.lin[0].0);
                        lks[0].table = ColSpec { lin: vec![(tc, 1 + r.below(5))], next: vec![(tc, 1 + r.below(5)), (fc, r.below(3))], constant: r.below(9) };
                        lks[0].freq = ColSpec { lin: vec![(fc, 1)], next: vec![(fc, 1 + r.below(3))], constant: 0 };
                        let spec = Arc::new(FamSpec { name: "x".into(), degree, ncols: b.spec.ncols, npi: b.spec.npi, cons: vec![], lookups: lks, ctl: false });
                        let bb = Built { spec, rows: vec![], pis: vec![], cols: vec![] };
                        lkeval_line(w, r, &bb, nch, 0);
                        cnt += 1;
                    }
                }
            }
        }
        // CTL partial sums and checks
        for degree in [2usize, 3, 4] {
            for sel in [vec![0usize], vec![0, 4], vec![0, 4, 3], vec![2], vec![1, 3], vec![0, 1, 2, 3]] {
                let n = 1usize << (2 + r.below(3));
                let rows: Vec<Vec<F>> = (0..n).map(|_| vec![fe(r.below(50)), fe(r.below(50)), fe(r.below(2)), fe(r.below(2))]).collect();
                let twcs: Vec<TwcSpec> = sel.iter().map(|&v| looking_variant(0, v)).collect();
                let (be, ga) = (rf(r), rf(r));
                psums_line(w, &twcs.iter().collect::<Vec<_>>(), &rows, be, ga, degree);
                cnt += 1;
                let nh_honest = if twcs.len() > 1 { twcs.len().div_ceil(degree - 1) } else { 0 };
                for nh in [nh_honest, 0, 1] {
                    ctleval_line(w, r, &twcs, nh, degree);
                    cnt += 1;
                }
            }
        }
        ctleval_line(w, r, &[], 0, 3);
        cnt += 1;
    }
    for k in 0..(if thorough { 400 } else { 90 }) { ctlsum_line(w, r, k); cnt += 1; }
    cnt
}

/// verify_cross_table_lookups is public and takes the first-row openings as plain vectors
fn malformed_ctl_sums(w: &mut dyn Write) -> usize {
    let cfg = StarkConfig::new(10, 2, stark_configs()[0].1.fri_config.clone());
    let twc = |t: usize| looking_variant(t, 0).to_twc();
    let ctls = vec![CrossTableLookup::new(vec![twc(0)], twc(1))];
    let extra: HashMap<usize, Vec<F>> = HashMap::new();
    let cases: Vec<(&str, [Vec<F>; 2])> = vec![
        ("looking table has one opening too few", [vec![F::ONE], vec![F::ONE, F::ONE]]),
        ("looked table has no openings", [vec![F::ONE, F::ONE], vec![]]),
        ("looked table has one opening too many", [vec![F::ONE, F::ONE], vec![F::ONE, F::ONE, F::ONE]]),
    ];
    for (i, (what, zs)) in cases.iter().enumerate() {
        let o = verdict(|| verify_cross_table_lookups::<F, D, 2>(&ctls, zs.clone(), &extra, &cfg));
        writeln!(w, "c18ctl verify_cross_table_lookups synthetic:{i} = {}  # {what}", if o.starts_with("err") { "err" } else { &o }).unwrap();
    }
    let mut bad: HashMap<usize, Vec<F>> = HashMap::new();
    bad.insert(0, vec![F::ONE]);
    let o = verdict(|| verify_cross_table_lookups::<F, D, 2>(&ctls, [vec![F::ONE, F::ONE], vec![F::TWO, F::TWO]], &bad, &cfg));
    writeln!(w, "c18ctl verify_cross_table_lookups synthetic:3 = {}  # extra looking sums shorter than num_challenges", if o.starts_with("err") { "err" } else { &o }).unwrap();
    4
}

pub fn run(seed: u64, tier: &str, w: &mut dyn Write) -> usize {
    let mut r = Rng::new(seed ^ 0xC10);
    let thorough = tier == "thorough";
    let cfgs = stark_configs();
    let mut cnt = 0;
    cnt += correspondence_lines(w, &mut r, thorough);
    // ---- single-table lookups
    let mut j = 0usize;
    for k in 1..=4usize {
        for degree in [2usize, 3] {
            for fancy in [false, true] {
                for (si, lg) in [3usize, 4, 5, 6, 7].iter().enumerate() {
                    if !thorough && (si + k + degree + fancy as usize) % 5 != 0 { continue; }
                    if thorough && (si + k) % 2 == 1 { continue; }
                    let (b, info) = build_perm_info(&mut r, 1 << lg, k, degree, fancy);
                    let db = *lg;
                    let ok: Vec<usize> = (0..cfgs.len()).filter(|&i| { let f = &cfgs[i].1.fri_config; degree <= (1 << f.rate_bits) + 1 && f.cap_height <= db + f.rate_bits }).collect();
                    let ci = ok[j % ok.len()];
                    j += 1;
                    let sweep = if k == 2 && degree == 3 && fancy && *lg <= 4 { if thorough { 1 } else { 41 } } else { 0 };
                    cnt += lookup_cases(w, &mut r, &b, &info, cfgs[ci].0, &cfgs[ci].1, sweep);
                }
            }
        }
    }
    // ---- the in-repo PermutationStark as it is declared there: constraint_degree() = 0 (lookup.rs supports it
    // explicitly: `constraint_degree.checked_sub(1).unwrap_or(1)`).  With degree 0 there is no quotient, so the
    // lookup constraints that eval_vanishing_poly adds are compared with nothing: the property fails for this
    // declared shape (known finding); the valid trace must still be accepted
    for lg in [4usize, 5] {
        let (b, info) = build_perm_info(&mut r, 1 << lg, 1, 2, false);
        let spec0 = Arc::new(FamSpec { name: "lookup1-declared-degree0".into(), degree: 0, ncols: b.spec.ncols, npi: b.spec.npi, cons: vec![],
                                       lookups: b.spec.lookups.clone(), ctl: false });
        let drv = driver(spec0);
        let cfg = &cfgs[0].1;
        let fam = format!("lookup1-declared-degree0/n{}/{}", 1 << lg, cfgs[0].0);
        let (po, vo, _) = pv(&drv, cfg, &b.rows, &b.pis);
        writeln!(w, "c10 {fam} honest = {} # holds=1 prover={po} verify={vo}", (vo == "ok") as u8).unwrap();
        let (row, col, _) = info.cells[0];
        let mut rows = b.rows.clone();
        rows[row][col] += F::ONE;
        let holds = lookup_holds(&b.spec.lookups[0], &rows);
        let (po, vo, _) = pv(&drv, cfg, &rows, &b.pis);
        writeln!(w, "c10 {fam} corrupt:looking:0 = {} # row={row} col={col} holds={} prover={po} verify={vo}", accepted_iff(holds, &vo) as u8, holds as u8).unwrap();
        cnt += 2;
    }
    {
        let (b, info) = build_perm_info(&mut r, 16, 1, 2, false);
        let spec0 = Arc::new(FamSpec { name: "lookup1-declared-degree0".into(), degree: 0, ncols: b.spec.ncols, npi: b.spec.npi, cons: vec![],
                                       lookups: b.spec.lookups.clone(), ctl: false });
        let drv = driver(spec0);
        let cfg = &cfgs[0].1;
        let (po, vo, _) = pv(&drv, cfg, &b.rows, &b.pis);
        writeln!(w, "c10info lookup1-declared-degree0 honest = {vo} # prover={po}").unwrap();
        let (row, col, _) = info.cells[0];
        let mut rows = b.rows.clone();
        rows[row][col] += F::ONE;
        let (po, vo, _) = pv(&drv, cfg, &rows, &b.pis);
        writeln!(w, "c10info lookup1-declared-degree0 corrupt:looking = {vo} # holds={} prover={po} (a STARK declaring constraint_degree 0 has no quotient: nothing is enforced)",
                 lookup_holds(&b.spec.lookups[0], &rows) as u8).unwrap();
        cnt += 2;
    }
    // ---- a table column that reads the next row: the prover evaluates it with eval_table (current + next),
    // the constraint with Column::eval (current row only). Informational.
    {
        let (b, _) = build_perm_info(&mut r, 16, 1, 2, false);
        let mut l = b.spec.lookups[0].clone();
        l.table = ColSpec { lin: vec![(1, 1)], next: vec![(1, 1)], constant: 0 };
        // looking values := t[i] + t[i+1], frequencies 1
        let n = b.rows.len();
        let mut rows = b.rows.clone();
        for i in 0..n { rows[i][0] = b.rows[i][1] + b.rows[(i + 1) % n][1]; rows[i][2] = F::ONE }
        let holds = lookup_holds(&l, &rows);
        let spec = Arc::new(FamSpec { name: "lookup1-table-reads-next-row".into(), degree: 2, ncols: b.spec.ncols, npi: b.spec.npi, cons: vec![], lookups: vec![l], ctl: false });
        let drv = driver(spec);
        let (po, vo, _) = pv(&drv, &cfgs[0].1, &rows, &b.pis);
        // the prover evaluates table_column / frequencies_column with their next-row part (Column::eval_table); the
        // constraints must do the same, or a lookup that holds is unprovable
        writeln!(w, "c10 lookup1-table-reads-next-row/n16/{} honest = {} # holds={} prover={po} verify={vo}", cfgs[0].0, accepted_iff(holds, &vo) as u8, holds as u8).unwrap();
        cnt += 1;
        // and a value missing from that table must still be rejected
        let mut bad = rows.clone();
        bad[3][0] += F::ONE;
        let holds_bad = lookup_holds(&drv.spec.lookups[0], &bad);
        let (po, vo, _) = pv(&drv, &cfgs[0].1, &bad, &b.pis);
        writeln!(w, "c10 lookup1-table-reads-next-row/n16/{} corrupt:looking:0 = {} # holds={} prover={po} verify={vo}", cfgs[0].0, accepted_iff(holds_bad, &vo) as u8, holds_bad as u8).unwrap();
        cnt += 1;
    }
    // ---- cross-table lookups
    cnt += synthetic_ctl_sums(w, &mut r, if thorough { 60 } else { 18 });
    cnt += malformed_ctl_sums(w);
    // every CTL contributes `constraint_last_row(combine * Z - filter)`: degree 2 times the Lagrange
    // selector, so CTL tables need constraint_degree() >= 3 (as in every known user); degree 2 is
    // recorded as information below
    let tops: Vec<usize> = vec![0, 1, 2, 3, 4, 5, 6, 7];
    let reps = if thorough { 3 } else { 1 };
    for rep in 0..reps {
        for (ti, &top) in tops.iter().enumerate() {
            let lgs: Vec<usize> = vec![3 + r.below(2) as usize, 3 + r.below(3) as usize, 3, 4];
            let mut sys = build_system(&mut r, top, 3, &lgs);
            let ci = [0usize, 4, 1, 2, 5][(ti + rep) % 5];
            cnt += system_cases(w, &mut r, &mut sys, cfgs[ci].0, &cfgs[ci].1);
        }
    }
    {
        let sys = build_system(&mut r, 0, 2, &[3, 3, 3, 3]);
        let holds = ctl_holds(&sys);
        let (po, vo, _) = pv_system(&sys, &cfgs[0].1, None);
        writeln!(w, "c10info ctl-top0-declared-degree2 honest = {vo} # holds={} prover={po} (the CTL last-row check has degree 3 with its selector: tables in a CTL need constraint_degree >= 3; nothing reports it)", holds as u8).unwrap();
        cnt += 1;
    }
    cnt
}
